//! The alphabet of public calls on one `Adf` object (shared by C11 and C14).
#![allow(dead_code)]

use crate::bddx::*;
use crate::oracle::*;
use adf_bdd::adf::heuristics::Heuristic;
use adf_bdd::adf::Adf;
use adf_bdd::datatypes::{Term, Var};

pub const CALLS: usize = 15;
/// the alphabet plus the enumerations that are abandoned after their first model (C11)
pub const CALLS_EXT: usize = 20;
pub const CALL_NAMES: [&str; CALLS_EXT] = [
    "grounded",
    "complete",
    "stable",
    "stable_with_prefilter",
    "stable_count_optimisation_heu_a",
    "stable_count_optimisation_heu_b",
    "stable_nogood(Simple)",
    "stable_nogood(MinModMinPathsMaxVarImp)",
    "stable_nogood(MinModMaxVarImpMinPaths)",
    "two_val_nogood_channel(Simple)",
    "stable_nogood(Rand) after seed([7;32])",
    "formulacounts(false)",
    "facet_count(ac)",
    "build and/or/xor/iff/imp of all pairs of acceptance conditions on adf.bdd",
    "restrict every acceptance condition by every variable and value",
    "complete(): first model taken, the enumeration abandoned",
    "stable(): first model taken, the enumeration abandoned",
    "stable_with_prefilter(): first model taken, the enumeration abandoned",
    "stable_count_optimisation_heu_a(): first model taken, the enumeration abandoned",
    "fix_import() (the repair step, on an object that does not need it)",
];

/// what a call returned, in raw form (handles as issued)
#[derive(Clone, Debug, PartialEq, Eq)]
pub enum Raw {
    Models(Vec<Vec<Term>>),
    Counts(Vec<(usize, usize)>),
    Handles(Vec<Term>),
}

/// normalised answer: truth values, and for undecided entries / handles the function they denote at the time
#[derive(Clone, Debug, PartialEq, Eq, PartialOrd, Ord)]
pub enum Norm {
    Models(Vec<Vec<(u8, u64)>>),
    Counts(Vec<(usize, usize)>),
    Funcs(Vec<u64>),
}

/// structural signatures of all handles: in a reduced ordered table two handles denote the same function iff their
/// diagrams are isomorphic, so the hash of (variable, signature of lo, signature of hi) identifies the function -
/// independently of the handle numbers of the object it lives in (used when there are too many variables for tables)
pub fn signatures(nodes: &[adf_bdd::datatypes::BddNode]) -> Vec<u64> {
    let mut sig: Vec<u64> = Vec::with_capacity(nodes.len());
    for (i, nd) in nodes.iter().enumerate() {
        if i < 2 {
            sig.push(i as u64);
        } else {
            let (lo, hi) = (nd.lo().value(), nd.hi().value());
            let (sl, sh) = (sig.get(lo).copied().unwrap_or(u64::MAX), sig.get(hi).copied().unwrap_or(u64::MAX));
            let mut bytes = Vec::with_capacity(24);
            bytes.extend_from_slice(&(nd.var().value() as u64).to_le_bytes());
            bytes.extend_from_slice(&sl.to_le_bytes());
            bytes.extend_from_slice(&sh.to_le_bytes());
            sig.push(crate::report::hash64(&bytes) | 2);
        }
    }
    sig
}

pub fn exec(adf: &mut Adf, call: usize) -> Raw {
    match call {
        0 => Raw::Models(vec![adf.grounded()]),
        1 => Raw::Models(adf.complete().collect()),
        2 => Raw::Models(adf.stable().collect()),
        3 => Raw::Models(adf.stable_with_prefilter().collect()),
        4 => Raw::Models(adf.stable_count_optimisation_heu_a().collect()),
        5 => Raw::Models(adf.stable_count_optimisation_heu_b().collect()),
        6 => Raw::Models(adf.stable_nogood(Heuristic::Simple).collect()),
        7 => Raw::Models(adf.stable_nogood(Heuristic::MinModMinPathsMaxVarImp).collect()),
        8 => Raw::Models(adf.stable_nogood(Heuristic::MinModMaxVarImpMinPaths).collect()),
        9 => {
            let (s, r) = crossbeam_channel::unbounded();
            adf.two_val_nogood_channel(Heuristic::Simple, s);
            Raw::Models(r.try_iter().collect())
        }
        10 => {
            adf.seed([7; 32]);
            Raw::Models(adf.stable_nogood(Heuristic::Rand).collect())
        }
        11 => Raw::Counts(adf.formulacounts(false).iter().map(|m| (m.cmodels, m.models)).collect()),
        12 => {
            let ac = adf.ac.clone();
            Raw::Counts(adf.facet_count(&ac).iter().map(|(m, _)| (m.cmodels, m.models)).collect())
        }
        13 => {
            let ac = adf.ac.clone();
            let mut hs = vec![];
            for a in &ac {
                for b in &ac {
                    hs.push(adf.bdd.and(*a, *b));
                    hs.push(adf.bdd.or(*a, *b));
                    hs.push(adf.bdd.xor(*a, *b));
                    hs.push(adf.bdd.iff(*a, *b));
                    hs.push(adf.bdd.imp(*a, *b));
                }
                hs.push(adf.bdd.not(*a));
            }
            // the statements themselves as formulas, and combined with their conditions
            for (i, a) in ac.iter().enumerate() {
                let v = adf.bdd.variable(Var(i));
                hs.push(v);
                hs.push(adf.bdd.xor(v, *a));
                hs.push(adf.bdd.imp(*a, v));
            }
            Raw::Handles(hs)
        }
        15 => Raw::Models(adf.complete().take(1).collect()),
        16 => Raw::Models(adf.stable().take(1).collect()),
        17 => Raw::Models(adf.stable_with_prefilter().take(1).collect()),
        18 => Raw::Models(adf.stable_count_optimisation_heu_a().take(1).collect()),
        19 => {
            adf.fix_import();
            Raw::Handles(vec![])
        }
        _ => {
            let ac = adf.ac.clone();
            let mut hs = vec![];
            for a in &ac {
                for v in 0..ac.len() {
                    hs.push(adf.bdd.restrict(*a, Var(v), false));
                    hs.push(adf.bdd.restrict(*a, Var(v), true));
                }
            }
            Raw::Handles(hs)
        }
    }
}

/// reads a raw answer against the object's current node table
pub fn normalise(adf: &Adf, raw: &Raw, n: usize) -> Result<Norm, String> {
    // truth tables for <= 5 statements, structural signatures beyond
    let ids: Vec<u64> = if n <= 5 { all_tts(&adf.bdd.nodes, n)?.into_iter().map(|t| t as u64).collect() } else { signatures(&adf.bdd.nodes) };
    let get = |t: &Term| -> Result<u64, String> {
        ids.get(t.value()).copied().ok_or_else(|| format!("handle {} outside the node table", t))
    };
    Ok(match raw {
        Raw::Models(ms) => {
            let mut out = vec![];
            for m in ms {
                let mut row = vec![];
                for t in m {
                    row.push((term_u8(t), if t.is_truth_value() { 0 } else { get(t)? }));
                }
                out.push(row);
            }
            Norm::Models(out)
        }
        Raw::Counts(c) => Norm::Counts(c.clone()),
        Raw::Handles(h) => Norm::Funcs(h.iter().map(get).collect::<Result<Vec<_>, _>>()?),
    })
}

/// order-insensitive form for the comparison with a fresh object
pub fn as_multiset(n: &Norm) -> Norm {
    match n {
        Norm::Models(m) => {
            let mut m = m.clone();
            m.sort();
            Norm::Models(m)
        }
        other => other.clone(),
    }
}
