//! Independent reading of diagrams through the public node table, and the invariants of the store.
#![allow(dead_code)]

use crate::oracle::*;
use adf_bdd::datatypes::{BddNode, Term, Var};
use adf_bdd::obdd::{Bdd, VerifDump};
use std::collections::HashMap;

/// value of handle h under assignment a, by walking the node table (bounded walk: a malformed table
/// could contain a cycle)
pub fn eval_handle(nodes: &[BddNode], h: Term, val: &dyn Fn(usize) -> bool) -> Result<bool, String> {
    let mut cur = h.value();
    for _ in 0..=nodes.len() {
        if cur >= nodes.len() {
            return Err(format!("handle {} outside the node table (len {})", cur, nodes.len()));
        }
        if cur == 0 {
            return Ok(false);
        }
        if cur == 1 {
            return Ok(true);
        }
        let nd = nodes[cur];
        if nd.var().is_constant() {
            return Err(format!("node {} carries a constant marker variable", cur));
        }
        cur = if val(nd.var().value()) {
            nd.hi().value()
        } else {
            nd.lo().value()
        };
    }
    Err(format!("walk from handle {} does not reach a leaf (cycle)", h.value()))
}

pub fn tt_of(nodes: &[BddNode], h: Term, n: usize) -> Result<TT, String> {
    let mut r = 0;
    for a in 0..(1u32 << n) {
        if eval_handle(nodes, h, &|i| i < n && (a >> i & 1 == 1))? {
            r |= 1 << a;
        }
    }
    Ok(r)
}

/// truth tables of all handles at once (bottom-up), n <= 5; also checks that variables are < n
pub fn all_tts(nodes: &[BddNode], n: usize) -> Result<Vec<TT>, String> {
    let mut tts: Vec<TT> = Vec::with_capacity(nodes.len());
    for (i, nd) in nodes.iter().enumerate() {
        if i == 0 {
            tts.push(0);
        } else if i == 1 {
            tts.push(full(n));
        } else {
            let v = nd.var().value();
            if v >= n {
                return Err(format!("node {} tests variable {} outside 0..{}", i, v, n));
            }
            let (lo, hi) = (nd.lo().value(), nd.hi().value());
            if lo >= i || hi >= i {
                return Err(format!("node {} has a child with a larger or equal index", i));
            }
            tts.push(ite(n, var_tt(n, v), tts[hi], tts[lo]));
        }
    }
    Ok(tts)
}

/// I1: structural canonicity of the node table
pub fn check_structure(nodes: &[BddNode]) -> Result<(), String> {
    if nodes.len() < 2 {
        return Err("node table lost its constants".into());
    }
    if nodes[0] != BddNode::bot_node() {
        return Err(format!("node 0 is not the bottom constant: {}", nodes[0]));
    }
    if nodes[1] != BddNode::top_node() {
        return Err(format!("node 1 is not the top constant: {}", nodes[1]));
    }
    let mut seen: HashMap<(usize, usize, usize), usize> = HashMap::new();
    for (i, nd) in nodes.iter().enumerate().skip(2) {
        let (v, lo, hi) = (nd.var().value(), nd.lo().value(), nd.hi().value());
        if nd.var().is_constant() {
            return Err(format!("inner node {} carries a constant marker", i));
        }
        if lo == hi {
            return Err(format!("node {} is not reduced: lo == hi == {}", i, lo));
        }
        if lo >= i || hi >= i {
            return Err(format!("node {} ({}) refers to a child that is not older", i, nd));
        }
        for c in [lo, hi] {
            if c > 1 {
                let cv = nodes[c].var().value();
                if cv <= v {
                    return Err(format!(
                        "node {} (var {}) is not ordered: child {} tests var {}",
                        i, v, c, cv
                    ));
                }
            }
        }
        if let Some(j) = seen.insert((v, lo, hi), i) {
            return Err(format!("nodes {} and {} are duplicates ({})", j, i, nd));
        }
    }
    Ok(())
}

/// I2: pairwise different functions (n <= 5)
pub fn check_semantic_canonicity(nodes: &[BddNode], n: usize) -> Result<Vec<TT>, String> {
    let tts = all_tts(nodes, n)?;
    let mut seen: HashMap<TT, usize> = HashMap::new();
    for (i, tt) in tts.iter().enumerate() {
        if let Some(j) = seen.insert(*tt, i) {
            return Err(format!(
                "handles {} and {} denote the same function (table {:#x})",
                j, i, tt
            ));
        }
    }
    Ok(tts)
}

/// independent recount: (paths to bottom, paths to top, depth)
pub fn recount(nodes: &[BddNode]) -> Vec<(u128, u128, usize)> {
    let mut r: Vec<(u128, u128, usize)> = Vec::with_capacity(nodes.len());
    for (i, nd) in nodes.iter().enumerate() {
        if i == 0 {
            r.push((1, 0, 0));
        } else if i == 1 {
            r.push((0, 1, 0));
        } else {
            let (l, h) = (r[nd.lo().value()], r[nd.hi().value()]);
            r.push((l.0 + h.0, l.1 + h.1, l.2.max(h.2) + 1));
        }
    }
    r
}

/// structural support (variables on nodes reachable from each handle)
pub fn supports(nodes: &[BddNode]) -> Vec<Vec<usize>> {
    let mut r: Vec<Vec<usize>> = Vec::with_capacity(nodes.len());
    for (i, nd) in nodes.iter().enumerate() {
        if i < 2 {
            r.push(vec![]);
        } else {
            let mut s: Vec<usize> = r[nd.lo().value()]
                .iter()
                .chain(r[nd.hi().value()].iter())
                .copied()
                .collect();
            s.push(nd.var().value());
            s.sort();
            s.dedup();
            r.push(s);
        }
    }
    r
}

/// I4: every memo / bookkeeping entry is semantically right (n <= 5). `tts` = all_tts(nodes).
/// `models_cached` tells whether the model counts in the count cache are meaningful for this feature set.
pub fn check_dump(
    nodes: &[BddNode],
    tts: &[TT],
    n: usize,
    d: &VerifDump,
    models_exact: bool,
    counts_complete: bool,
) -> Result<(), String> {
    let len = nodes.len();
    // unique table = inverse of the node vector
    if d.cache.len() != len - 2 {
        return Err(format!(
            "unique table has {} entries for {} inner nodes",
            d.cache.len(),
            len - 2
        ));
    }
    for (nd, t) in &d.cache {
        if t.value() >= len || nodes[t.value()] != *nd {
            return Err(format!("unique table maps {} to {} which holds another node", nd, t));
        }
    }
    for ((i, t, e), r) in &d.ite_cache {
        for x in [i, t, e, r] {
            if x.value() >= len {
                return Err(format!("ite memo entry refers to unknown handle {}", x));
            }
        }
        let want = ite(n, tts[i.value()], tts[t.value()], tts[e.value()]);
        if tts[r.value()] != want {
            return Err(format!(
                "ite memo entry ({},{},{}) -> {} denotes a wrong function",
                i, t, e, r
            ));
        }
    }
    for ((t, v, b), r) in &d.restrict_cache {
        if t.value() >= len || r.value() >= len {
            return Err("restrict memo entry refers to unknown handle".to_string());
        }
        if v.value() >= n {
            // restricting a variable that does not exist must be the identity
            if tts[r.value()] != tts[t.value()] {
                return Err(format!("restrict memo entry ({},{},{}) -> {} wrong", t, v, b, r));
            }
            continue;
        }
        let want = cofactor(tts[t.value()], n, v.value(), *b);
        if tts[r.value()] != want {
            return Err(format!(
                "restrict memo entry ({},{},{}) -> {} is not the cofactor",
                t, v, b, r
            ));
        }
    }
    if let Some(vd) = &d.var_deps {
        if vd.len() != len {
            return Err(format!(
                "variable lists cover {} handles, node table has {}",
                vd.len(),
                len
            ));
        }
        for (h, vars) in vd.iter().enumerate() {
            let have: Vec<usize> = vars.iter().map(|v| v.value()).collect();
            let want = support(tts[h], n);
            if have != want {
                return Err(format!(
                    "variable list of handle {} is {:?}, the function depends on {:?}",
                    h, have, want
                ));
            }
        }
    }
    let rc = recount(nodes);
    if counts_complete && d.count_cache.len() != len {
        return Err(format!(
            "count cache has {} entries, node table has {}",
            d.count_cache.len(),
            len
        ));
    }
    for (t, (mc, pc, depth)) in &d.count_cache {
        if t.value() >= len {
            return Err(format!("count cache entry for unknown handle {}", t));
        }
        let w = rc[t.value()];
        if pc.cmodels as u128 != w.0 || pc.models as u128 != w.1 {
            return Err(format!(
                "cached path counts of {} are ({},{}) but the diagram has ({},{}) paths",
                t, pc.cmodels, pc.models, w.0, w.1
            ));
        }
        if *depth != w.2 {
            return Err(format!("cached depth of {} is {}, longest path is {}", t, depth, w.2));
        }
        if models_exact {
            let sat = tts[t.value()].count_ones() as u128;
            let unsat = (1u128 << n) - sat;
            if (mc.models as u128) * unsat != (mc.cmodels as u128) * sat
                || mc.models + mc.cmodels == 0
            {
                return Err(format!(
                    "cached model counts of {} are ({},{}) but the function has {} models / {} counter-models",
                    t, mc.cmodels, mc.models, sat, unsat
                ));
            }
        }
    }
    Ok(())
}

pub fn nodes_json(nodes: &[BddNode]) -> serde_json::Value {
    serde_json::json!(nodes
        .iter()
        .map(|n| format!("{}:{}:{}", n.var().value() as i64, n.lo().value(), n.hi().value()))
        .collect::<Vec<_>>())
}

pub fn term_u8(t: &Term) -> u8 {
    if t.is_truth_value() {
        if t.is_true() {
            T
        } else {
            F
        }
    } else {
        U
    }
}

pub fn conv(m: &[Term]) -> Interp {
    m.iter().map(term_u8).collect()
}

pub fn var(i: usize) -> Var {
    Var(i)
}

/// feature facts of this build of the library, measured on the real code rather than assumed from cfg
pub struct Feat {
    pub adhoccounting: bool,
    pub adhoccountmodels: bool,
    pub variablelist: bool,
}

pub fn features() -> Feat {
    Feat {
        adhoccounting: cfg!(feature = "adhoccounting"),
        adhoccountmodels: cfg!(feature = "adhoccountmodels"),
        variablelist: cfg!(feature = "variablelist"),
    }
}

pub fn fresh() -> Bdd {
    Bdd::new()
}
