//! C05: the nogood-learning search under every heuristic.
//!
//! The heuristic is the environment of the search and is treated like a scheduler: a custom heuristic reads a
//! script (thread local), offers the canonical option list (undecided statement x {T,F}) and the explorer
//! enumerates every choice sequence, bounded by the number of deviations from option 0 where stated.

use crate::bddx::conv;
use crate::fam::*;
use crate::oracle::*;
use crate::report::*;
use crate::sem::cmp_models;
use crate::src_adf::*;
use adf_bdd::adf::heuristics::Heuristic;
use adf_bdd::adf::Adf;
use adf_bdd::adfbiodivine::Adf as BdAdf;
use adf_bdd::datatypes::{Term, Var};
use adf_bdd::parser::AdfParser;
use rand::{Rng, RngCore, SeedableRng};
use serde_json::{json, Value};
use std::cell::RefCell;
use std::collections::BTreeSet;

pub const STEP_BUDGET: u64 = 20_000;
const CALL_BUDGET: usize = 5_000;

struct Script {
    prefix: Vec<usize>,
    trace: Vec<(usize, usize)>, // (choice, number of options)
    bad_offer: Option<String>,
}

thread_local! {
    static SCRIPT: RefCell<Script> = const { RefCell::new(Script { prefix: vec![], trace: vec![], bad_offer: None }) };
}

fn scripted(_adf: &Adf, int: &[Term]) -> Option<(Var, Term)> {
    SCRIPT.with(|s| {
        let mut s = s.borrow_mut();
        let opts: Vec<(Var, Term)> = int
            .iter()
            .enumerate()
            .filter(|(_, t)| !t.is_truth_value())
            .flat_map(|(i, _)| [(Var(i), Term::TOP), (Var(i), Term::BOT)])
            .collect();
        if opts.is_empty() {
            // the search asked for a choice although nothing is undecided; a well-behaved heuristic has nothing to offer
            s.bad_offer = Some("heuristic was consulted on a two-valued interpretation".into());
            return None;
        }
        if s.trace.len() >= CALL_BUDGET {
            drop(s);
            panic!("{}", adf_bdd::verif::BUDGET_EXHAUSTED);
        }
        let pos = s.trace.len();
        let c = if pos < s.prefix.len() { s.prefix[pos] } else { 0 };
        if c >= opts.len() {
            drop(s);
            panic!("REPLAY-DIVERGENCE: scripted choice {} but only {} options", c, opts.len());
        }
        s.trace.push((c, opts.len()));
        Some(opts[c])
    })
}

#[derive(Default)]
pub struct St {
    adfs: u64,
    histories: u64,
    calls: u64,
    nontrivial: u64,
    max_choice_points: usize,
    max_steps: u64,
    outcomes: BTreeSet<u64>,
}

/// one history: fresh object, scripted heuristic, one search; returns (found, trace)
fn run_history(
    parser: &AdfParser,
    twoval: bool,
    prefix: &[usize],
    want: &BTreeSet<Interp>,
    n: usize,
    st: &mut St,
) -> (Vec<(String, String)>, Vec<(usize, usize)>) {
    let mut out = vec![];
    SCRIPT.with(|s| {
        *s.borrow_mut() = Script { prefix: prefix.to_vec(), trace: vec![], bad_offer: None }
    });
    adf_bdd::verif::set_budget(Some(STEP_BUDGET));
    let res = guard(|| {
        let mut adf = Adf::from_parser(parser);
        let (s, r) = crossbeam_channel::unbounded();
        if twoval {
            adf.two_val_nogood_channel(Heuristic::Custom(&scripted), s);
        } else {
            adf.stable_nogood_channel(Heuristic::Custom(&scripted), s);
        }
        let items: Vec<Vec<Term>> = r.try_iter().collect();
        let closed = matches!(r.try_recv(), Err(crossbeam_channel::TryRecvError::Disconnected));
        (items, closed)
    });
    st.max_steps = st.max_steps.max(adf_bdd::verif::steps());
    adf_bdd::verif::set_budget(None);
    st.histories += 1;
    st.calls += 1;
    let trace = SCRIPT.with(|s| s.borrow().trace.clone());
    st.max_choice_points = st.max_choice_points.max(trace.len());
    let label = if twoval { "custom.two_val_nogood_channel" } else { "custom.stable_nogood_channel" };
    match res {
        Err(m) => {
            if m.contains("REPLAY-DIVERGENCE") {
                machinery_error(&format!("replay of a choice prefix diverged: {}", m));
            } else if m.contains(adf_bdd::verif::BUDGET_EXHAUSTED) {
                out.push((format!("{}:nontermination", label), format!("search did not end within {} loop steps / {} heuristic calls", STEP_BUDGET, CALL_BUDGET)));
            } else {
                out.push((format!("{}:panic", label), m));
            }
        }
        Ok((items, closed)) => {
            cmp_models(label, &items, want, n, &mut out);
            if !closed {
                out.push((format!("{}:sender-not-dropped", label), "after the call returned the channel is still open: a consumer loop would never end".into()));
            }
            let mut sig = hash64(&items.iter().flat_map(|m| conv(m)).collect::<Vec<u8>>());
            sig = sig.wrapping_mul(31).wrapping_add(trace.len() as u64);
            st.outcomes.insert(sig);
        }
    }
    if let Some(b) = SCRIPT.with(|s| s.borrow().bad_offer.clone()) {
        // not a property violation by itself (the search may ask), recorded for information only
        let _ = b;
    }
    (out, trace)
}

fn devs(p: &[usize]) -> usize {
    p.iter().filter(|x| **x != 0).count()
}

/// all choice sequences of one ADF in one mode with at most `dmax` deviations
fn explore_adf(run: &Run, text: &str, tts: &[TT], dmax: usize, st: &mut St) {
    let n = tts.len();
    let parser = AdfParser::default();
    if guard(|| crate::fam::parse_into(&parser, text)) != Ok(true) {
        run.violation("parse", format!("well-formed input rejected: {}", text), json!({"type": "adf", "text": text, "tts": tts}));
        return;
    }
    st.adfs += 1;
    let want_s = stable(tts);
    let want_2 = models2(tts);
    let mut counted = false;
    for twoval in [false, true] {
        let want = if twoval { &want_2 } else { &want_s };
        // work items: (prefix, expected option counts of the prefix positions)
        let mut work: Vec<(Vec<usize>, Vec<usize>)> = vec![(vec![], vec![])];
        while let Some((prefix, expect)) = work.pop() {
            if run.violations_so_far() > 200 {
                return;
            }
            let (found, trace) = run_history(&parser, twoval, &prefix, want, n, st);
            // determinism of the subject under replay: the prefix must see the same option counts again
            for (i, e) in expect.iter().enumerate() {
                if trace.get(i).map(|t| t.1) != Some(*e) && found.is_empty() {
                    machinery_error(&format!("replay divergence on {} prefix {:?}: option counts {:?} vs expected {:?}", text, prefix, trace, expect));
                }
            }
            if !counted && trace.len() >= 2 {
                st.nontrivial += 1;
                counted = true;
            }
            for (kind, msg) in found {
                run.violation(
                    &kind,
                    format!("{} on {} with choice sequence {:?}", msg, text, trace.iter().map(|t| t.0).collect::<Vec<_>>()),
                    json!({"type": "choice_seq", "text": text, "tts": tts, "twoval": twoval, "choices": trace.iter().map(|t| t.0).collect::<Vec<_>>()}),
                );
            }
            for i in prefix.len()..trace.len() {
                let used = devs(&trace[..i].iter().map(|t| t.0).collect::<Vec<_>>());
                if used + 1 > dmax {
                    continue;
                }
                for alt in 1..trace[i].1 {
                    let mut p: Vec<usize> = trace[..i].iter().map(|t| t.0).collect();
                    p.push(alt);
                    let e: Vec<usize> = trace[..=i].iter().map(|t| t.1).collect();
                    work.push((p, e));
                }
            }
        }
    }
}

fn builtin(h: usize) -> (Heuristic<'static>, &'static str) {
    match h {
        0 => (Heuristic::Simple, "Simple"),
        1 => (Heuristic::MinModMinPathsMaxVarImp, "MinModMinPathsMaxVarImp"),
        2 => (Heuristic::MinModMaxVarImpMinPaths, "MinModMaxVarImpMinPaths"),
        _ => (Heuristic::Rand, "Rand"),
    }
}

fn seed_bytes(k: u64) -> [u8; 32] {
    let mut s = [0u8; 32];
    s[..8].copy_from_slice(&k.to_le_bytes());
    s[8] = 0xA5;
    s
}

/// built-in heuristics (h < 3) or Rand with a seed on one ADF: all three entry points, native and hybrid objects
pub fn builtin_case(text: &str, tts: &[TT], h: usize, seed: Option<u64>, st: &mut St) -> Vec<(String, String)> {
    builtin_case_o(text, &crate::mid::Oracle::from_tts(tts), h, seed, st)
}

pub fn builtin_case_o(text: &str, orc: &crate::mid::Oracle, h: usize, seed: Option<u64>, st: &mut St) -> Vec<(String, String)> {
    let n = orc.n;
    let mut out = vec![];
    let parser = AdfParser::default();
    if guard(|| crate::fam::parse_into(&parser, text)) != Ok(true) {
        out.push(("parse".into(), "well-formed input rejected".into()));
        return out;
    }
    let want_s = orc.stable.clone();
    let want_2 = orc.two.clone();
    let (heu, hname) = builtin(h);
    let bd = guard(|| BdAdf::from_parser(&parser)).ok();
    for obj in 0..5 {
        let oname = ["native", "hybrid(pre-grounded)", "reimported(serde)", "reimported(node list)", "native+gone-listener"][obj];
        if obj == 1 && (bd.is_none() || seed.is_some()) {
            continue;
        }
        if obj >= 2 && (seed.is_some() || h != 0) {
            continue; // re-imported objects: the Simple heuristic only
        }
        let mk = || {
            let mut a = match obj {
                0 => Adf::from_parser(&parser),
                1 => bd.as_ref().unwrap().hybrid_step(),
                2 => crate::c14::roundtrip_serde(&Adf::from_parser(&parser)),
                3 => crate::c14::roundtrip_dblayer(&Adf::from_parser(&parser)),
                _ => crate::sem::with_gone_listener(Adf::from_parser(&parser)),
            };
            if let Some(k) = seed {
                a.seed(seed_bytes(k));
            }
            a
        };
        for entry in 0..3 {
            let ename = ["stable_nogood", "stable_nogood_channel", "two_val_nogood_channel"][entry];
            let label = format!("{}.{}({})", oname, ename, hname);
            adf_bdd::verif::set_budget(Some(STEP_BUDGET));
            let res = guard(|| {
                let mut adf = mk();
                match entry {
                    0 => (adf.stable_nogood(heu).collect::<Vec<_>>(), true),
                    _ => {
                        let (s, r) = crossbeam_channel::unbounded();
                        if entry == 1 {
                            adf.stable_nogood_channel(heu, s);
                        } else {
                            adf.two_val_nogood_channel(heu, s);
                        }
                        let items: Vec<Vec<Term>> = r.try_iter().collect();
                        let closed = matches!(r.try_recv(), Err(crossbeam_channel::TryRecvError::Disconnected));
                        (items, closed)
                    }
                }
            });
            st.max_steps = st.max_steps.max(adf_bdd::verif::steps());
            adf_bdd::verif::set_budget(None);
            st.calls += 1;
            match res {
                Err(m) => {
                    if m.contains(adf_bdd::verif::BUDGET_EXHAUSTED) {
                        out.push((format!("{}:nontermination", label), format!("search did not end within {} loop steps", STEP_BUDGET)));
                    } else {
                        out.push((format!("{}:panic", label), m));
                    }
                }
                Ok((items, closed)) => {
                    cmp_models(&label, &items, if entry == 2 { &want_2 } else { &want_s }, n, &mut out);
                    if !closed {
                        out.push((format!("{}:sender-not-dropped", label), "after the call returned the channel is still open".into()));
                    }
                    st.outcomes.insert(hash64(&items.iter().flat_map(|m| conv(m)).collect::<Vec<u8>>()).wrapping_add(h as u64));
                }
            }
        }
    }
    out
}

/// bounded / rendezvous result channel with a consumer that starts late: the search must wait for the consumer, every
/// model must arrive and the consumer loop must end. (Correct code never depends on the timing used here: the solver
/// thread simply stays blocked in `send` until the consumer starts; only a search that gives up on a full channel ends
/// early.)
pub fn bounded_case(text: &str, tts: &[TT], cap: usize, twoval: bool) -> Vec<(String, String)> {
    let n = tts.len();
    let want = if twoval { models2(tts) } else { stable(tts) };
    let mut out = vec![];
    let text2 = text.to_string();
    let (s, r) = crossbeam_channel::bounded::<Vec<Term>>(cap);
    let h = std::thread::spawn(move || {
        guard(|| {
            let parser = AdfParser::default();
            parser.parse()(&text2).expect("well-formed");
            let mut adf = Adf::from_parser(&parser);
            adf_bdd::verif::set_budget(Some(STEP_BUDGET));
            if twoval {
                adf.two_val_nogood_channel(Heuristic::Simple, s);
            } else {
                adf.stable_nogood_channel(Heuristic::Simple, s);
            }
        })
    });
    // the consumer starts late: either the solver thread ends by itself (fewer models than the channel holds) or it
    // is blocked in send
    let t0 = std::time::Instant::now();
    while !h.is_finished() && t0.elapsed().as_millis() < 40 {
        std::thread::sleep(std::time::Duration::from_millis(1));
    }
    let label = format!("bounded({}).{}", cap, if twoval { "two_val_nogood_channel" } else { "stable_nogood_channel" });
    let mut items = vec![];
    let deadline = std::time::Instant::now() + std::time::Duration::from_secs(20);
    loop {
        match r.recv_deadline(deadline) {
            Ok(m) => items.push(m),
            Err(crossbeam_channel::RecvTimeoutError::Disconnected) => break,
            Err(crossbeam_channel::RecvTimeoutError::Timeout) => {
                out.push((format!("{}:consumer-loop-hangs", label), "the consumer loop over the channel does not end".into()));
                return out;
            }
        }
    }
    match h.join() {
        Ok(Ok(())) => {}
        Ok(Err(m)) => out.push((format!("{}:panic", label), m)),
        Err(_) => out.push((format!("{}:panic", label), "solver thread died".into())),
    }
    cmp_models(&label, &items, &want, n, &mut out);
    out
}

/// step budget of a long search: a generous multiple of what the construction needs (measured: 7 loop steps per
/// model for k self-supporting statements, about 3 per statement for a negation cycle)
pub fn long_budget(n: usize, selfloops: bool) -> u64 {
    if selfloops {
        16 * (1u64 << n.min(24))
    } else {
        2_000 + 200 * n as u64
    }
}

/// one long search; the expected models follow from the construction named in `name`
pub fn long_case(text: &str, n: usize, name: &str, h: usize, budget: u64, modes: &[bool], st: &mut St) -> Vec<(String, String)> {
    let m: Vec<u8> = modes.iter().map(|t| *t as u8).collect();
    long_case_m(text, n, name, h, budget, &m, st)
}

/// modes: 0 = stable_nogood_channel, 1 = two_val_nogood_channel, 2 = stable_nogood (the iterator interface, which runs
/// the whole search before it hands out the first model)
pub fn long_case_m(text: &str, n: usize, name: &str, h: usize, budget: u64, modes: &[u8], st: &mut St) -> Vec<(String, String)> {
    let mut out = vec![];
    let parser = AdfParser::default();
    if parser.parse()(text).is_err() {
        return vec![("parse".into(), "well-formed input rejected".into())];
    }
    let (heu, hname) = builtin(h);
    for mode in modes.iter().copied() {
        let twoval = mode == 1;
        let label = format!("long.{}({})", ["stable_nogood_channel", "two_val_nogood_channel", "stable_nogood"][mode as usize % 3], hname);
        adf_bdd::verif::set_budget(Some(budget));
        let res = guard(|| {
            let mut adf = Adf::from_parser(&parser);
            if mode == 2 {
                let items: Vec<Vec<Term>> = adf.stable_nogood(heu).collect();
                return (items, true);
            }
            let (s, r) = crossbeam_channel::unbounded();
            if twoval {
                adf.two_val_nogood_channel(heu, s);
            } else {
                adf.stable_nogood_channel(heu, s);
            }
            let items: Vec<Vec<Term>> = r.try_iter().collect();
            (items, matches!(r.try_recv(), Err(crossbeam_channel::TryRecvError::Disconnected)))
        });
        st.max_steps = st.max_steps.max(adf_bdd::verif::steps());
        adf_bdd::verif::set_budget(None);
        st.calls += 1;
        match res {
            Err(m) => {
                let kind = if m.contains(adf_bdd::verif::BUDGET_EXHAUSTED) { "nontermination" } else { "panic" };
                out.push((format!("{}:{}", label, kind), if kind == "panic" { m } else { format!("search did not end within {} loop steps", budget) }));
            }
            Ok((items, closed)) => {
                if !closed {
                    out.push((format!("{}:sender-not-dropped", label), "channel still open after return".into()));
                }
                let got: Vec<Interp> = items.iter().map(|m| conv(m)).collect();
                let set: BTreeSet<Interp> = got.iter().cloned().collect();
                if set.len() != got.len() {
                    out.push((format!("{}:duplicate", label), format!("{} models delivered, {} distinct", got.len(), set.len())));
                }
                let ok = if name.contains("negation pairs") {
                    // k pairs a_i = neg(b_i), b_i = neg(a_i): the 2^k interpretations with a_i != b_i, all stable
                    set.len() == 1usize << (n / 2) && set.iter().all(|m| m.len() == n && (0..n / 2).all(|i| m[2 * i] != U && m[2 * i + 1] != U && m[2 * i] != m[2 * i + 1]))
                } else if name.contains("self-supporting") {
                    if twoval {
                        set.len() == 1usize << n && set.iter().all(|m| m.len() == n && m.iter().all(|x| *x != U))
                    } else {
                        set.len() == 1 && set.iter().next().map(|m| m.iter().all(|x| *x == F)).unwrap_or(false)
                    }
                } else if n % 2 == 1 {
                    set.is_empty()
                } else {
                    let a: Interp = (0..n).map(|i| (i % 2) as u8).collect();
                    let b: Interp = (0..n).map(|i| ((i + 1) % 2) as u8).collect();
                    set == [a, b].into_iter().collect::<BTreeSet<_>>()
                };
                if !ok {
                    out.push((format!("{}:wrong-models", label), format!("{} distinct models delivered; the construction has {}", set.len(), if name.contains("negation pairs") { format!("2^{} models (one of each pair true)", n / 2) } else if name.contains("self-supporting") { if twoval { format!("all 2^{} interpretations as two-valued models", n) } else { "exactly the all-false stable model".to_string() } } else if n % 2 == 1 { "no model".to_string() } else { "exactly the two alternating models".to_string() })));
                }
            }
        }
    }
    out
}

/// class of the first `len` heuristic calls of a seed: (next_u64 mod 6, gen_bool) per call - mod 6 fixes the
/// position chosen for every list length <= 3
fn seed_class(k: u64, len: usize) -> Vec<u8> {
    let mut rng = rand::rngs::StdRng::from_seed(seed_bytes(k));
    (0..len)
        .map(|_| {
            let p = (rng.next_u64() % 6) as u8;
            let b = rng.gen_bool(0.5) as u8;
            p * 2 + b
        })
        .collect()
}

/// the first seed for every outcome-class prefix of length len
fn covering_seeds(len: usize) -> Vec<u64> {
    let want = 12usize.pow(len as u32);
    let mut seen = BTreeSet::new();
    let mut seeds = vec![];
    let mut k = 0u64;
    while seen.len() < want {
        if seen.insert(seed_class(k, len)) {
            seeds.push(k);
        }
        k += 1;
        if k > 50_000_000 {
            machinery_error("seed scan did not cover all outcome classes");
        }
    }
    seeds
}

pub fn run_c05(run: &Run) {
    writers_selfcheck();
    run.set_rule("(1) custom heuristics = choice sequences: for every ADF of the named family and both modes (stable, two-valued) the real search is run once per choice sequence of a scripted Heuristic::Custom that offers (undecided statement x {T,F}); all sequences, or all with at most d deviations from option 0 where stated; each history on a fresh object; result multiset vs. definition, termination via the cfg(adf_obdd_verif) step budget, channel closed after return. (2) the three deterministic built-in heuristics through all three entry points on native and hybrid objects over complete families. (3) Heuristic::Rand with the first seed of every RNG outcome-class prefix (class of a call = (next_u64 mod 6, gen_bool)). Non-trivial: ADFs whose search needs >= 2 choice points.");
    run.assume("termination is decided by a step budget of 20000 loop iterations (largest observed count is reported); Rand is covered by RNG outcome-class prefixes, not by all 2^256 seeds");
    run.assume("a well-behaved custom heuristic proposes an undecided statement with a truth value whenever one exists");
    let quick = run.quick();

    // ---- (0) long searches and many undecided statements, started now on their own threads and joined at the end
    // (oracles by construction, not by brute force): k self-supporting statements - all 2^k interpretations are
    // two-valued models, the all-false one is the only stable one; negation cycles ac(s_i, neg(s_{i+1})) of even length
    // have exactly the two alternating models (both stable), of odd length none - with 64 and more statements left
    // undecided by the grounded interpretation
    let mut long_jobs: Vec<(String, usize, usize, Vec<bool>, std::thread::JoinHandle<(Vec<(String, String)>, u64)>)> = vec![];
    {
        let mut cases: Vec<(String, usize, bool, usize, Vec<bool>)> = vec![]; // name, n, selfloops, heuristic, modes
        for h in 0..3 {
            cases.push(("10 self-supporting statements".into(), 10, true, h, vec![true, false]));
            for n in [64usize, 65, 66, 100, 128, 257] {
                cases.push((format!("negation cycle of length {}", n), n, false, h, vec![true, false]));
            }
        }
        // more than 1024 learned nogoods of one size need 11 free statements: one heuristic, one mode (about 20 s)
        cases.push(("11 self-supporting statements".into(), 11, true, 0, vec![true]));
        if !quick {
            for h in 0..3 {
                cases.push(("11 self-supporting statements".into(), 11, true, h, vec![true, false]));
            }
            cases.push(("12 self-supporting statements".into(), 12, true, 0, vec![true]));
        }
        // many stable models (more than 256 and more than 1024 would not fit a small buffer): 9 negation pairs have 512,
        // through both channel variants and through the iterator interface
        {
            let pairs = if quick { vec![9usize] } else { vec![9, 11] };
            for k in pairs {
                let name = format!("{} negation pairs", k);
                let nm = name.clone();
                let handle = std::thread::spawn(move || {
                    let n = 2 * k;
                    let labels: Vec<String> = (0..n).map(|i| format!("p{}", i)).collect();
                    let conds: Vec<Fm> = (0..n).map(|i| Fm::not(Fm::Atom(i ^ 1))).collect();
                    let l = crate::large::LargeAdf { labels: labels.clone(), written: labels, conds, shape: "long" };
                    let mut st = St::default();
                    let found = long_case_m(&l.text(None, ("", "", "")), n, &nm, 0, 400 * (1u64 << k), &[2, 0, 1], &mut st);
                    (found, st.max_steps)
                });
                long_jobs.push((name, 2 * k, 0, vec![false, true, false], handle));
            }
        }
        for (name, n, selfloops, h, modes) in cases {
            let (nm, md) = (name.clone(), modes.clone());
            let handle = std::thread::spawn(move || {
                let labels: Vec<String> = (0..n).map(|i| format!("{}{}", if selfloops { "q" } else { "c" }, i)).collect();
                let conds: Vec<Fm> = if selfloops { (0..n).map(Fm::Atom).collect() } else { (0..n).map(|i| Fm::not(Fm::Atom((i + 1) % n))).collect() };
                let l = crate::large::LargeAdf { labels: labels.clone(), written: labels, conds, shape: "long" };
                let mut st = St::default();
                let found = long_case(&l.text(None, ("", "", "")), n, &nm, h, long_budget(n, selfloops), &md, &mut st);
                (found, st.max_steps)
            });
            long_jobs.push((name, n, h, modes, handle));
        }
    }

    // ---- (1) choice sequences
    let mut plan: Vec<(Source, usize)> = vec![
        (Source::FamCompact(fam_a(0)), usize::MAX),
        (Source::FamCompact(fam_a(1)), usize::MAX),
        (Source::FamCompact(fam_a(2)), usize::MAX),
        (Source::FamCompact(fam_f(3, 1)), usize::MAX),
    ];
    if quick {
        // one residue class modulo 2 each (selected by the seed), complete at two deviations
        let mut f32 = fam_f(3, 2);
        f32.first = run.seed % 2;
        f32.step = 2;
        f32.name = format!("F(3,2) class {} mod 2", run.seed % 2);
        let mut f41 = fam_f(4, 1);
        f41.first = (run.seed / 2) % 2;
        f41.step = 2;
        f41.name = format!("F(4,1) class {} mod 2", (run.seed / 2) % 2);
        plan.push((Source::FamCompact(f32), 2));
        plan.push((Source::FamCompact(f41), 2));
    } else {
        plan.push((Source::FamCompact(fam_f(3, 2)), usize::MAX));
        plan.push((Source::FamCompact(fam_s(run.seed)), usize::MAX));
        plan.push((Source::FamCompact(fam_f(4, 1)), 3));
        plan.push((Source::FamCompact(fam_a(3)), 1));
    }
    let mut max_cp = 0;
    let mut max_steps = 0;
    let mut hist_total = 0u64;
    for (src, dmax) in plan {
        let name = format!(
            "choice sequences: {} ({})",
            src.name(),
            if dmax == usize::MAX { "all histories".to_string() } else { format!("all histories with <= {} deviations", dmax) }
        );
        let res = run.par_family(
            &name,
            src.size(),
            St::default,
            |st, k| {
                let c = src.get(k);
                explore_adf(run, &c.text, &c.tts, dmax, st);
            },
            &|k| src.describe(k),
        );
        let mut h = 0;
        for st in res {
            run.add_counts(st.adfs, st.histories, st.histories, st.nontrivial);
            h += st.histories;
            max_cp = max_cp.max(st.max_choice_points);
            max_steps = max_steps.max(st.max_steps);
            run.add_outcomes(st.outcomes);
        }
        hist_total += h;
        run.sample(json!({"family": name, "histories": h}));
    }
    run.extra("choice_histories_explored", json!(hist_total));
    run.extra("max_choice_points_in_one_history", json!(max_cp));

    // ---- (2) built-ins
    let mut builtin_sources = standard_sources(run, false);
    if quick {
        // the residue class of A(3) is left to the thorough tier (which runs all of A(3))
        builtin_sources.retain(|s| !s.name().starts_with("A(3) class") && !s.name().starts_with("F(4,2) class") && !matches!(s, Source::Tern(5, ..)) && !matches!(s, Source::Ring(..) | Source::Sparse(..) | Source::Ladder));
        builtin_sources.push(Source::Ring(6, run.seed % 64, 64));
        builtin_sources.push(Source::Ring(7, run.seed % 2048, 2048));
        builtin_sources.push(Source::Ring(8, run.seed % 32768, 32768));
        builtin_sources.push(Source::Sparse(run.seed * 1000, 24));
    }
    for src in builtin_sources {
        let name = format!("built-in heuristics x 3 entry points x native/hybrid: {}", src.name());
        let res = run.par_family(
            &name,
            src.size(),
            St::default,
            |st, k| {
                if run.violations_so_far() > 200 {
                    return;
                }
                let c = src.get(k);
                st.adfs += 1;
                let orc = match &c.formulas {
                    Some(l) => crate::mid::Oracle::from_formulas(l),
                    None => crate::mid::Oracle::from_tts(&c.tts),
                };
                for h in 0..3 {
                    for (kind, msg) in builtin_case_o(&c.text, &orc, h, None, st) {
                        let mut case = src.describe(k);
                        case["type"] = json!("builtin");
                        case["heuristic"] = json!(h);
                        run.violation(&kind, format!("{} on {}", msg, c.text), case);
                    }
                }
            },
            &|k| src.describe(k),
        );
        for st in res {
            run.add_counts(st.adfs, st.calls, st.calls, 0);
            max_steps = max_steps.max(st.max_steps);
            run.add_outcomes(st.outcomes);
        }
    }

    // ---- (2b) bounded and rendezvous result channels with a late consumer
    {
        let src = Source::FamCompact(fam_a(2));
        let mut items: Vec<(u64, usize, bool)> = vec![];
        for k in 0..src.size() {
            let c = src.get(k);
            for twoval in [false, true] {
                let nm = if twoval { models2(&c.tts).len() } else { stable(&c.tts).len() };
                for cap in [0usize, 1] {
                    if nm >= cap + 2 || (nm >= 1 && cap == 0 && k % 8 == run.seed % 8) {
                        items.push((k, cap, twoval));
                    }
                }
            }
        }
        let f31 = Source::FamCompact(fam_f(3, 1));
        let mut items3: Vec<(u64, usize, bool)> = vec![];
        for k in 0..f31.size() {
            let c = f31.get(k);
            if models2(&c.tts).len() >= 4 {
                items3.push((k, 1, true));
                items3.push((k, 2, true));
            }
            if stable(&c.tts).len() >= 3 {
                items3.push((k, 1, false));
            }
        }
        for (name, src, its) in [("A(2)", &src, &items), ("F(3,1)", &f31, &items3)] {
            let res = run.par_family(
                &format!("bounded / rendezvous result channel with a late consumer: {} ({} cases with more models than the channel holds)", name, its.len()),
                its.len() as u64,
                || 0u64,
                |st, i| {
                    let (k, cap, twoval) = its[i as usize];
                    let c = src.get(k);
                    *st += 1;
                    for (kind, msg) in bounded_case(&c.text, &c.tts, cap, twoval) {
                        run.violation(&kind, format!("{} on {}", msg, c.text), json!({"type": "bounded", "text": c.text, "tts": c.tts, "cap": cap, "twoval": twoval}));
                    }
                },
                &|i| json!({"type": "bounded", "text": src.get(its[i as usize].0).text, "tts": src.get(its[i as usize].0).tts, "cap": its[i as usize].1, "twoval": its[i as usize].2}),
            );
            for st in res {
                run.add_counts(0, st, st, st);
            }
        }
    }

    // ---- (3) Rand
    let l_small = if quick { 2 } else { 3 };
    let seeds_small = covering_seeds(l_small);
    let seeds_big = covering_seeds(if quick { 1 } else { 2 });
    run.extra("rand_seeds", json!({"small_families": {"prefix_length": l_small, "seeds": seeds_small.len()}, "F(3,2)": {"prefix_length": if quick {1} else {2}, "seeds": seeds_big.len()}}));
    let rand_plan: Vec<(Source, &Vec<u64>)> = vec![
        (Source::FamCompact(fam_a(0)), &seeds_small),
        (Source::FamCompact(fam_a(1)), &seeds_small),
        (Source::FamCompact(fam_a(2)), &seeds_small),
        (Source::FamCompact(fam_f(3, 1)), &seeds_small),
        (
            if quick {
                let mut f = fam_f(3, 2);
                f.first = (run.seed / 4) % 2;
                f.step = 2;
                f.name = format!("F(3,2) class {} mod 2", (run.seed / 4) % 2);
                Source::FamCompact(f)
            } else {
                Source::FamCompact(fam_f(3, 2))
            },
            &seeds_big,
        ),
    ];
    for (src, seeds) in rand_plan {
        let ns = seeds.len() as u64;
        let name = format!("Heuristic::Rand, {} seeds covering all outcome-class prefixes: {}", ns, src.name());
        let res = run.par_family(
            &name,
            src.size() * ns,
            St::default,
            |st, k| {
                if run.violations_so_far() > 200 {
                    return;
                }
                let c = src.get(k / ns);
                let seed = seeds[(k % ns) as usize];
                st.adfs += 1;
                for (kind, msg) in builtin_case(&c.text, &c.tts, 3, Some(seed), st) {
                    run.violation(&kind, format!("{} on {} with seed #{}", msg, c.text, seed), json!({"type": "builtin", "text": c.text, "tts": c.tts, "heuristic": 3, "seed": seed}));
                }
            },
            &|k| json!({"type": "builtin", "text": src.get(k / ns).text, "tts": src.get(k / ns).tts, "heuristic": 3, "seed": seeds[(k % ns) as usize]}),
        );
        for st in res {
            run.add_counts(0, st.calls, st.calls, 0);
            max_steps = max_steps.max(st.max_steps);
            run.add_outcomes(st.outcomes);
        }
    }
    // join the long searches
    {
        let t0 = std::time::Instant::now();
        let total = long_jobs.len() as u64;
        let mut runs = 0u64;
        let mut long_steps: Vec<(String, u64)> = vec![];
        for (name, _n, h, modes, handle) in long_jobs {
            runs += modes.len() as u64;
            // a search that blocks for good (no loop step is counted any more) must not block the check: after the
            // rest of the check has finished every long search gets 60 more seconds
            while !handle.is_finished() && t0.elapsed().as_secs() < 60 {
                std::thread::sleep(std::time::Duration::from_millis(50));
            }
            if !handle.is_finished() {
                run.violation("long:hang", format!("the search on {} has not returned {} s after everything else had finished (no loop step budget was exhausted: it is blocked)", name, t0.elapsed().as_secs()), json!({"type": "long", "name": name, "heuristic": h, "modes": modes}));
                continue;
            }
            match handle.join() {
                Ok((found, steps)) => {
                    long_steps.push((name.clone(), steps));
                    for (kind, msg) in found {
                        run.violation(&kind, format!("{} on {}", msg, name), json!({"type": "long", "name": name, "heuristic": h, "modes": modes}));
                    }
                }
                Err(_) => run.violation("long:panic", format!("the search thread for {} died", name), json!({"type": "long", "name": name, "heuristic": h, "modes": modes})),
            }
        }
        long_steps.sort();
        long_steps.dedup_by(|a, b| a.0 == b.0 && { b.1 = b.1.max(a.1); true });
        run.extra("long_search_loop_steps", json!(long_steps.iter().map(|(n, s)| json!({"instance": n, "max_steps": s, "budget": long_budget(n.split(' ').find_map(|x| x.parse::<usize>().ok()).unwrap_or(0), n.contains("self-supporting"))})).collect::<Vec<_>>()));
        run.add_counts(total, runs, runs, runs);
        run.add_family(FamilyCov { name: format!("long searches (10-11 self-supporting statements: up to 2048 models, > 1024 learned nogoods of one size) and negation cycles with 64-257 undecided statements: {} instances on their own threads", total), size: total, done: total, exhaustive: true, note: format!("joined after {:.1}s of extra waiting", t0.elapsed().as_secs_f64()) });
    }
    // CLI clause: --stmng / --twoval with every heuristic value (and none)
    crate::c15::cli_slice(run, &[1 << 8, 1 << 9], &[None, Some(0), Some(1), Some(2), Some(3)]);
    // once more with a logger that accepts TRACE records (the long searches above have been joined)
    crate::report::trace_logging(true);
    for src in [Source::FamCompact(fam_a(2)), Source::FamCompact(fam_f(3, 1))] {
        let res = run.par_family(
            &format!("built-in heuristics x 3 entry points: {} with trace logging switched on", src.name()),
            src.size(),
            St::default,
            |st, k| {
                let c = src.get(k);
                for h in 0..3 {
                    for (kind, msg) in builtin_case(&c.text, &c.tts, h, None, st) {
                        run.violation(&format!("trace-logging:{}", kind), format!("{} on {} (a logger accepting TRACE records is installed)", msg, c.text), json!({"type": "builtin", "text": c.text, "tts": c.tts, "heuristic": h, "trace_logging": true}));
                    }
                }
            },
            &|k| src.describe(k),
        );
        for st in res {
            run.add_counts(0, st.calls, st.calls, 0);
        }
    }
    crate::report::trace_logging(false);
    run.extra("max_loop_steps_observed", json!(max_steps));
    run.extra("loop_step_budget", json!(STEP_BUDGET));
    run.extra("states_are", json!("distinct ADFs explored"));
    run.extra("transitions_are", json!("complete search executions (one per choice sequence / heuristic / seed), each compared with the definition"));
    run.sample(json!({"type": "choice_seq", "text": "s(a).s(b).s(c).ac(a,neg(b)).ac(b,neg(a)).ac(c,and(a,c)).", "twoval": false, "choices": [2, 0, 1]}));
}

pub fn replay(c: &Value) -> Vec<(String, String)> {
    if c["type"] == "cli" {
        return crate::c15::replay(c);
    }
    let text = c["text"].as_str().unwrap_or_default().to_string();
    let tts: Vec<TT> = c["tts"].as_array().map(|a| a.iter().map(|x| x.as_u64().unwrap_or(0) as TT).collect()).unwrap_or_default();
    let mut st = St::default();
    if c["type"] == "long" {
        let name = c["name"].as_str().unwrap_or("").to_string();
        let n: usize = name.split(|ch: char| !ch.is_ascii_digit()).filter(|x| !x.is_empty()).next().and_then(|x| x.parse().ok()).unwrap_or(11);
        if name.contains("negation pairs") {
            // on its own thread with a deadline: the stored case may be a search that blocks for good
            let k = n;
            let nm = name.clone();
            let handle = std::thread::spawn(move || {
                let n = 2 * k;
                let labels: Vec<String> = (0..n).map(|i| format!("p{}", i)).collect();
                let conds: Vec<Fm> = (0..n).map(|i| Fm::not(Fm::Atom(i ^ 1))).collect();
                let l = crate::large::LargeAdf { labels: labels.clone(), written: labels, conds, shape: "long" };
                let mut st = St::default();
                long_case_m(&l.text(None, ("", "", "")), n, &nm, 0, 400 * (1u64 << k), &[2, 0, 1], &mut st)
            });
            let t0 = std::time::Instant::now();
            while !handle.is_finished() && t0.elapsed().as_secs() < 60 {
                std::thread::sleep(std::time::Duration::from_millis(50));
            }
            if !handle.is_finished() {
                return vec![("long:hang".into(), format!("the search on {} has not returned after 60 s", name))];
            }
            return handle.join().unwrap_or_else(|_| vec![("long:panic".into(), "the search thread died".into())]);
        }
        let (labels, conds): (Vec<String>, Vec<Fm>) = if name.contains("self-supporting") {
            ((0..n).map(|i| format!("q{}", i)).collect(), (0..n).map(Fm::Atom).collect())
        } else {
            ((0..n).map(|i| format!("c{}", i)).collect(), (0..n).map(|i| Fm::not(Fm::Atom((i + 1) % n))).collect())
        };
        let l = crate::large::LargeAdf { labels: labels.clone(), written: labels, conds, shape: "long" };
        let modes: Vec<bool> = c["modes"].as_array().map(|a| a.iter().map(|x| x.as_bool().unwrap_or(true)).collect()).unwrap_or_else(|| vec![true, false]);
        return long_case(&l.text(None, ("", "", "")), n, &name, c["heuristic"].as_u64().unwrap_or(0) as usize, long_budget(n, name.contains("self-supporting")), &modes, &mut st);
    }
    if c["type"] == "bounded" {
        return bounded_case(&text, &tts, c["cap"].as_u64().unwrap_or(0) as usize, c["twoval"].as_bool().unwrap_or(false));
    }
    if c["type"] == "builtin" && c.get("sparse").is_some() {
        let l = crate::mid::sparse(c["sparse"].as_u64().unwrap_or(0));
        return builtin_case_o(&text, &crate::mid::Oracle::from_formulas(&l), c["heuristic"].as_u64().unwrap_or(0) as usize, c["seed"].as_u64(), &mut st);
    }
    if c["type"] == "builtin" && c.get("ring").is_some() {
        let l = crate::mid::ring(c["ring"]["n"].as_u64().unwrap_or(6) as usize, c["ring"]["index"].as_u64().unwrap_or(0));
        return builtin_case_o(&text, &crate::mid::Oracle::from_formulas(&l), c["heuristic"].as_u64().unwrap_or(0) as usize, c["seed"].as_u64(), &mut st);
    }
    if c["type"] == "builtin" {
        return builtin_case(&text, &tts, c["heuristic"].as_u64().unwrap_or(0) as usize, c["seed"].as_u64(), &mut st);
    }
    let twoval = c["twoval"].as_bool().unwrap_or(false);
    let choices: Vec<usize> = c["choices"].as_array().map(|a| a.iter().map(|x| x.as_u64().unwrap_or(0) as usize).collect()).unwrap_or_default();
    let parser = AdfParser::default();
    if parser.parse()(&text).is_err() {
        return vec![("parse".into(), "input rejected".into())];
    }
    let want = if twoval { models2(&tts) } else { stable(&tts) };
    run_history(&parser, twoval, &choices, &want, tts.len(), &mut st).0
}
