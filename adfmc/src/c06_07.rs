//! C06 (canonicity of the store) and C07 (operations compute the function they name).

use crate::bddx::*;
use crate::fam::*;
use crate::oracle::*;
use crate::report::*;
use crate::src_adf::Source;
use crate::store::*;
use adf_bdd::datatypes::Term;
use adf_bdd::obdd::Bdd;
use serde_json::{json, Value};

/// compiles a formula with the public operations (harness-side builder of operands)
pub fn build_fm(b: &mut Bdd, f: &Fm) -> Term {
    match f {
        Fm::Top => Bdd::constant(true),
        Fm::Bot => Bdd::constant(false),
        Fm::Atom(i) => b.variable(var(*i)),
        Fm::Not(x) => {
            let t = build_fm(b, x);
            b.not(t)
        }
        Fm::And(x, y) => {
            let (p, q) = (build_fm(b, x), build_fm(b, y));
            b.and(p, q)
        }
        Fm::Or(x, y) => {
            let (p, q) = (build_fm(b, x), build_fm(b, y));
            b.or(p, q)
        }
        Fm::Imp(x, y) => {
            let (p, q) = (build_fm(b, x), build_fm(b, y));
            b.imp(p, q)
        }
        Fm::Iff(x, y) => {
            let (p, q) = (build_fm(b, x), build_fm(b, y));
            b.iff(p, q)
        }
        Fm::Xor(x, y) => {
            let (p, q) = (build_fm(b, x), build_fm(b, y));
            b.xor(p, q)
        }
    }
}

fn explorations(run: &Run, flags: Flags) {
    let quick = run.quick();
    let plan: Vec<(usize, usize, bool)> = if quick {
        vec![(2, 6, false), (3, 5, false)]
    } else {
        vec![(2, 5, true), (4, 4, false), (3, 6, false), (2, 7, false)]
    };
    for (vars, depth, memo_key) in plan {
        let cfg = Explore {
            vars,
            depth,
            with_memo_key: memo_key,
            reimports: true,
            flags,
            init: Init::Empty,
            name: format!("store V={}{}", vars, if memo_key { " (states keyed by node table + memo tables)" } else { "" }),
        };
        let st = explore(run, &cfg);
        run.add_counts(st.states, st.transitions, st.transitions, st.states.saturating_sub(1));
        run.sample(hist_json(
            vars,
            &json!("empty"),
            &[Op::Var(0), Op::Var(1), Op::Bin(4, 2, 3), Op::Restrict(5, 0, true)],
        ));
    }
    // a store whose listener has gone away: the failing send in node creation must not disturb anything
    if cfg!(feature = "frontend") {
        let plan: Vec<(usize, usize)> = if quick { vec![(2, 5), (3, 4)] } else { vec![(2, 7), (3, 6)] };
        for (vars, depth) in plan {
            let cfg = Explore { vars, depth, with_memo_key: false, reimports: true, flags, init: Init::GoneListener, name: format!("store V={} streaming to a listener that has gone away", vars) };
            let st = explore(run, &cfg);
            run.add_counts(st.states, st.transitions, st.transitions, st.states.saturating_sub(1));
        }
    }
    // non-initial start states: the stores produced by ADF construction (native and bridged)
    let fams = [fam_a(2), fam_f(3, 1)];
    for fam in fams {
        // depth 2 from every ADF store is affordable for the two-statement ADFs only
        let depth = if quick || fam.n > 2 { 1 } else { 2 };
        let total = fam.size() * 2;
        let name = format!("stores built from ADFs of {} (native, bridged) as start states, depth {}", fam.name, depth);
        let res = run.par_family(
            &name,
            total,
            || (0u64, 0u64),
            |st, k| {
                let tts = fam.get(k / 2);
                let text = adf_text(&tts, fam.raw_index(k / 2));
                let init = Init::Adf(text, k % 2 == 1);
                let cfg = Explore { vars: fam.n, depth, with_memo_key: false, reimports: true, flags, init, name: String::new() };
                let s = explore_with(run, &cfg, false);
                st.0 += s.states;
                st.1 += s.transitions;
            },
            &|k| json!({"type": "store_ops", "vars": fam.n, "initial": {"adf": adf_text(&fam.get(k / 2), fam.raw_index(k / 2)), "bridged": k % 2 == 1}, "ops": []}),
        );
        for st in res {
            run.add_counts(st.0, st.1, st.1, 0);
        }
    }
}

/// the statement of C06 applied to the conditions of an ADF: two statements hold the same handle exactly when their
/// written conditions denote the same function, and a condition holds a constant handle exactly when it is valid /
/// unsatisfiable (native and bridged construction)
pub fn adf_handles_case(text: &str, tts: &[TT], labels: &[String]) -> Vec<(String, String)> {
    let mut out = vec![];
    let parser = adf_bdd::parser::AdfParser::default();
    if parser.parse()(text).is_err() {
        return vec![("parse".into(), "well-formed input rejected".into())];
    }
    let n = tts.len();
    for bridged in [false, true] {
        let what = if bridged { "bridged" } else { "native" };
        let adf = match guard(|| if bridged { adf_bdd::adf::Adf::from_biodivine(&adf_bdd::adfbiodivine::Adf::from_parser(&parser)) } else { adf_bdd::adf::Adf::from_parser(&parser) }) {
            Ok(a) => a,
            Err(m) => {
                out.push((format!("adf-handles:{}:panic", what), m));
                continue;
            }
        };
        if adf.ac.len() != n {
            out.push((format!("adf-handles:{}:count", what), format!("{} conditions for {} statements", adf.ac.len(), n)));
            continue;
        }
        for i in 0..n {
            let (valid, unsat) = (tts[i] == full(n), tts[i] == 0);
            if (adf.ac[i] == Term::TOP) != valid || (adf.ac[i] == Term::BOT) != unsat {
                out.push((format!("adf-handles:{}:constant", what), format!("the condition of {:?} is {} but holds handle {}", labels[i], if valid { "valid" } else if unsat { "unsatisfiable" } else { "neither valid nor unsatisfiable" }, adf.ac[i])));
            }
            for j in 0..i {
                if (adf.ac[i] == adf.ac[j]) != (tts[i] == tts[j]) {
                    out.push((format!("adf-handles:{}:sharing", what), format!("the conditions of {:?} and {:?} denote {} functions but hold the handles {} and {}", labels[i], labels[j], if tts[i] == tts[j] { "the same" } else { "different" }, adf.ac[i], adf.ac[j])));
                }
            }
        }
    }
    out
}

pub fn run_c06(run: &Run) {
    run.set_rule("explicit-state breadth-first search over the real store: state = Bdd reached by an operation history (restored by replay), alphabet = variable(v), not(h), and/or/imp/iff/xor(h,h'), restrict(h,v,b) over ALL handles of the state plus re-import through the node list and through serde+fix_import; states deduplicated on the node table. In every state: node 0/1 are the constants, every node reduced, ordered, unique (I1) and all handles denote pairwise different functions (I2, by truth tables read from the public node table); results of operations are the unique handle of their function; re-imports reproduce the node table. Start states: the empty store and the stores built for every ADF of A(2) and F(3,1), native and bridged. Non-trivial: states other than the start state.");
    run.assume("<= 3 variables at depth 4-5 (quick) / <= 4 variables (thorough); merging states with equal node tables is justified by the memo invariant checked in C11 on every transition");
    let flags = Flags { canonical: true, functions: false, memo: false, queries: false };
    explorations(run, flags);
    scale_sections(run, false);
    // stores that were filled through a channel: the mirror of every producer program, used as a store afterwards
    #[cfg(feature = "frontend")]
    crate::c19::mirror_reuse_family(run);
    // the conditions of ADFs written in unusual ways (labels that read like formulas, literally written conditions)
    for src in [Source::Spelled, Source::Literal3, Source::FamAllWriters(fam_a(2))] {
        let res = run.par_family(
            &format!("conditions of {}: same handle exactly when same function (native and bridged)", src.name()),
            src.size(),
            || 0u64,
            |st, k| {
                let c = src.get(k);
                *st += 2;
                for (kind, msg) in adf_handles_case(&c.text, &c.tts, &c.labels) {
                    run.violation(&kind, format!("{} on {}", msg, c.text), json!({"type": "adf-handles", "text": c.text, "tts": c.tts, "labels": c.labels}));
                }
            },
            &|k| src.describe(k),
        );
        for st in res {
            run.add_counts(st / 2, st, st, 0);
        }
    }
    // once more with a logger that accepts TRACE records
    {
        crate::report::trace_logging(true);
        let cfg = Explore { vars: 2, depth: 4, with_memo_key: false, reimports: true, flags, init: Init::Empty, name: "store V=2 with trace logging switched on".to_string() };
        let st = explore(run, &cfg);
        run.add_counts(st.states, st.transitions, st.transitions, 0);
        crate::report::trace_logging(false);
    }
    run.extra("states_are", json!("distinct node tables reached"));
    run.extra("transitions_are", json!("real operations executed on a store and checked"));
}

pub fn run_c07(run: &Run) {
    run.set_rule("same exploration as C06; per transition the truth table of the returned handle (read from the public node table) must equal the reference operation on the operands' truth tables (restriction = cofactor), the old node vector must be a prefix of the new one and all old handles keep their function. Plus a flat cold-cache sweep: all 256x256 operand pairs over 3 variables x 5 binary connectives, negation and all restrictions, operands built by two different writers. Non-trivial: states other than the start state.");
    run.assume("<= 3 variables (quick) / <= 4 (thorough) in the exploration; 3 variables in the flat sweep");
    let flags = Flags { canonical: false, functions: true, memo: false, queries: false };
    explorations(run, flags);
    scale_sections(run, true);
    // flat sweep
    let n = 3usize;
    let total = 256u64 * 256;
    let res = run.par_family(
        "flat sweep: all 256x256 operand pairs over 3 variables, cold memo tables",
        total,
        || (0u64, std::collections::BTreeSet::<u64>::new()),
        |st, k| {
            let (f, g) = ((k % 256) as TT, (k / 256) as TT);
            let (wf, wg) = ((k % 6) as usize, ((k / 7) % 6) as usize);
            for opk in 0..5u8 {
                let r = guard(|| {
                    let mut b = Bdd::new();
                    let hf = build_fm(&mut b, &write_fm(f, n, wf));
                    let hg = build_fm(&mut b, &write_fm(g, n, wg));
                    let before = b.nodes.clone();
                    let op = Op::Bin(opk, hf.value() as u16, hg.value() as u16);
                    let r = apply(&mut b, &op).unwrap();
                    (b, before, op, r, hf, hg)
                });
                st.0 += 1;
                match r {
                    Err(m) => run.violation("op:panic", format!("{} of tables {:#x},{:#x} panicked: {}", BIN_NAMES[opk as usize], f, g, m), json!({"type": "flat", "f": f, "g": g, "wf": wf, "wg": wg, "op": opk})),
                    Ok((b, before, op, r, hf, hg)) => {
                        let mut out = vec![];
                        if let Ok(bt) = all_tts(&before, n) {
                            if bt[hf.value()] != f || bt[hg.value()] != g {
                                out.push(("op:wrong-function".to_string(), "operand construction produced a wrong function".to_string()));
                            }
                            check_transition(&before, &bt, &op, Some(r), &b, n, &Flags { canonical: false, functions: true, memo: false, queries: false }, &mut out);
                            if let Ok(at) = all_tts(&b.nodes, n) {
                                st.1.insert(at[r.value().min(at.len() - 1)] as u64);
                            }
                        } else {
                            out.push(("store:malformed".to_string(), "operand construction left an unreadable node table".to_string()));
                        }
                        for (kind, msg) in out {
                            run.violation(&kind, format!("{} ({} of tables {:#x},{:#x})", msg, BIN_NAMES[opk as usize], f, g), json!({"type": "flat", "f": f, "g": g, "wf": wf, "wg": wg, "op": opk}));
                        }
                    }
                }
            }
            // unary operations on f only (once per f)
            if g == 0 {
                let r = guard(|| {
                    let mut found = vec![];
                    for extra in 0..(1 + 2 * n) {
                        let mut b = Bdd::new();
                        let hf = build_fm(&mut b, &write_fm(f, n, wf));
                        let before = b.nodes.clone();
                        let bt = all_tts(&before, n).unwrap_or_default();
                        let op = if extra == 0 { Op::Not(hf.value() as u16) } else { Op::Restrict(hf.value() as u16, ((extra - 1) / 2) as u8, (extra - 1) % 2 == 1) };
                        let r = apply(&mut b, &op);
                        if !bt.is_empty() {
                            check_transition(&before, &bt, &op, r, &b, n, &Flags { canonical: false, functions: true, memo: false, queries: false }, &mut found);
                        }
                    }
                    found
                });
                st.0 += 1 + 2 * n as u64;
                match r {
                    Err(m) => run.violation("op:panic", format!("unary operation on table {:#x} panicked: {}", f, m), json!({"type": "flat", "f": f, "g": 0, "wf": wf, "wg": 0, "op": 9})),
                    Ok(found) => {
                        for (kind, msg) in found {
                            run.violation(&kind, format!("{} (unary operation on table {:#x})", msg, f), json!({"type": "flat", "f": f, "g": 0, "wf": wf, "wg": 0, "op": 9}));
                        }
                    }
                }
            }
        },
        &|k| json!({"type": "flat", "f": k % 256, "g": k / 256}),
    );
    for st in res {
        run.add_counts(0, st.0, st.0, 0);
        run.add_outcomes(st.1);
    }
    // once more with a logger that accepts TRACE records
    {
        crate::report::trace_logging(true);
        let cfg = Explore { vars: 2, depth: 4, with_memo_key: false, reimports: true, flags, init: Init::Empty, name: "store V=2 with trace logging switched on".to_string() };
        let st = explore(run, &cfg);
        run.add_counts(st.states, st.transitions, st.transitions, 0);
        crate::report::trace_logging(false);
    }
    run.extra("states_are", json!("distinct node tables reached"));
    run.extra("transitions_are", json!("real operations executed and compared with the reference operation on truth tables"));
}

/// all restrictions of function tt (n variables) on a store that was exported and re-imported (serde + fix_import and
/// node-list rebuild) after the function was built
pub fn reimport_restrict_case(tt: TT, n: usize, w: usize) -> Vec<(String, String)> {
    let mut out = vec![];
    for how in 0..2 {
        let r = guard(|| {
            let mut b = Bdd::new();
            let h = build_fm(&mut b, &write_fm(tt, n, w));
            apply(&mut b, if how == 0 { &Op::ReimportSerde } else { &Op::ReimportNodes });
            let mut found = vec![];
            for v in 0..n {
                for val in [false, true] {
                    let before = b.nodes.clone();
                    let Ok(bt) = all_tts(&before, n) else { continue };
                    let op = Op::Restrict(h.value() as u16, v as u8, val);
                    let res = apply(&mut b, &op);
                    check_transition(&before, &bt, &op, res, &b, n, &Flags { canonical: false, functions: true, memo: false, queries: false }, &mut found);
                }
            }
            found
        });
        match r {
            Ok(f) => out.extend(f.into_iter().map(|(k, m)| (format!("reimported:{}", k), format!("{} (after {})", m, if how == 0 { "serde + fix_import" } else { "node-list rebuild" })))),
            Err(m) => out.push(("reimported:panic".into(), m)),
        }
    }
    out
}

/// chain formula number k over n variables: x0 o1 (x1 o2 (... x_{n-1})), operators from {and, or, xor, imp}
pub fn chain_fm(n: usize, mut k: u64) -> Fm {
    let mut f = Fm::Atom(n - 1);
    for i in (0..n - 1).rev() {
        let op = [0usize, 1, 4, 2][(k % 4) as usize];
        k /= 4;
        f = Fm::bin(op, Fm::Atom(i), f);
    }
    f
}

/// deep diagrams (too many variables for truth tables): every restriction of a chain, and connectives of two chains,
/// compared exactly with an independent reference BDD
pub fn deep_case(n: usize, k: u64) -> Vec<(String, String)> {
    use crate::refbdd::*;
    let mut out = vec![];
    let f = chain_fm(n, k);
    let g = chain_fm(n, k.rotate_left(7) ^ 0x5bd1e995);
    let r = guard(|| {
        let mut found: Vec<(String, String)> = vec![];
        let mut b = Bdd::new();
        let hf = build_fm(&mut b, &f);
        let hg = build_fm(&mut b, &g);
        let mut rb = RefBdd::new();
        let rf = rb.compile(&f, &|x| x);
        let rg = rb.compile(&g, &|x| x);
        if let Err(e) = same_function(&b.nodes, hf, &rb, rf) {
            found.push(("deep:build".into(), e));
        }
        for v in 0..n {
            for val in [false, true] {
                let hr = b.restrict(hf, var(v), val);
                let rr = rb.restrict(rf, v, val);
                if let Err(e) = same_function(&b.nodes, hr, &rb, rr) {
                    found.push(("deep:restrict".into(), format!("restrict(.., {}, {}) of a chain over {} variables is not the cofactor: {}", v, val, n, e)));
                }
            }
        }
        for op in 0..5u8 {
            let hr = apply(&mut b, &Op::Bin(op, hf.value() as u16, hg.value() as u16)).unwrap();
            let rr = rb.apply(op, rf, rg);
            if let Err(e) = same_function(&b.nodes, hr, &rb, rr) {
                found.push(("deep:connective".into(), format!("{} of two chains over {} variables: {}", BIN_NAMES[op as usize], n, e)));
            }
        }
        if let Err(e) = check_structure(&b.nodes) {
            found.push(("deep:not-canonical".into(), e));
        }
        found
    });
    match r {
        Ok(f) => out.extend(f),
        Err(m) => out.push(("deep:panic".into(), m)),
    }
    out
}

/// chains with MANY variables in their support (around and beyond 64): operators from {and, or, imp} only (the diagrams
/// stay linear and their path counts small), every restriction and the connectives of two chains vs. the reference BDD
pub fn wide_chain_fm(n: usize, mut k: u64) -> Fm {
    let mut f = Fm::Atom(n - 1);
    for i in (0..n - 1).rev() {
        let op = [0usize, 1, 2][(k % 3) as usize];
        k = k / 3 + (i as u64 % 5) * 7; // keep the operators varying along the whole chain
        f = Fm::bin(op, Fm::Atom(i), f);
    }
    f
}

pub fn wide_support_case(n: usize, k: u64) -> Vec<(String, String)> {
    use crate::refbdd::*;
    let f = wide_chain_fm(n, k);
    let g = wide_chain_fm(n, k.rotate_left(5) ^ 0x2545f491);
    let r = guard(|| {
        let mut found: Vec<(String, String)> = vec![];
        let mut b = Bdd::new();
        let hf = build_fm(&mut b, &f);
        let hg = build_fm(&mut b, &g);
        let mut rb = RefBdd::new();
        let rf = rb.compile(&f, &|x| x);
        let rg = rb.compile(&g, &|x| x);
        if let Err(e) = same_function(&b.nodes, hf, &rb, rf) {
            found.push(("wide-support:build".into(), e));
        }
        for v in 0..n {
            for val in [false, true] {
                let hr = b.restrict(hf, var(v), val);
                let rr = rb.restrict(rf, v, val);
                if let Err(e) = same_function(&b.nodes, hr, &rb, rr) {
                    found.push(("wide-support:restrict".into(), format!("restrict(.., {}, {}) of a chain over {} variables is not the cofactor: {}", v, val, n, e)));
                }
                // a second restriction of the result, by a variable further down
                if v + 7 < n {
                    let hr2 = b.restrict(hr, var(v + 7), !val);
                    let rr2 = rb.restrict(rr, v + 7, !val);
                    if let Err(e) = same_function(&b.nodes, hr2, &rb, rr2) {
                        found.push(("wide-support:restrict".into(), format!("restrict(restrict(.., {}, {}), {}, {}) of a chain over {} variables is not the cofactor: {}", v, val, v + 7, !val, n, e)));
                    }
                }
            }
        }
        for op in 0..4u8 {
            let hr = apply(&mut b, &Op::Bin(op, hf.value() as u16, hg.value() as u16)).unwrap();
            let rr = rb.apply(op, rf, rg);
            if let Err(e) = same_function(&b.nodes, hr, &rb, rr) {
                found.push(("wide-support:connective".into(), format!("{} of two chains over {} variables: {}", BIN_NAMES[op as usize], n, e)));
            }
        }
        if let Err(e) = check_structure(&b.nodes) {
            found.push(("wide-support:not-canonical".into(), e));
        }
        found
    });
    match r {
        Ok(f) => f,
        Err(m) => vec![("wide-support:panic".into(), m)],
    }
}

/// restrictions on a BIG diagram in one store: f = OR of m products x_i & y_i under the order x0 .. x_{m-1}, y0 .. y_{m-1}
/// (about 2^(m+1) nodes; m = 12: more than 4096, m = 13: more than 2^13), restricted by every variable and value one after
/// the other - so every later restriction meets the memo entries of the earlier ones - and by pairs of variables; each
/// result is compared exactly with the reference BDD. (A memo of bounded size, or one that is keyed modulo something, only
/// shows when a single request touches more entries than it holds.)
pub fn big_restrict_case(m: usize) -> Vec<(String, String)> {
    use crate::refbdd::*;
    let mut f = Fm::bin(0, Fm::Atom(0), Fm::Atom(m));
    for i in 1..m {
        f = Fm::bin(1, f, Fm::bin(0, Fm::Atom(i), Fm::Atom(m + i)));
    }
    let r = guard(|| {
        let mut found: Vec<(String, String)> = vec![];
        let mut b = Bdd::new();
        let hf = build_fm(&mut b, &f);
        let mut rb = RefBdd::new();
        let rf = rb.compile(&f, &|x| x);
        if let Err(e) = same_function(&b.nodes, hf, &rb, rf) {
            found.push(("big-restrict:build".into(), e));
            return found;
        }
        let n = 2 * m;
        for round in 0..2 {
            for v in 0..n {
                for val in [false, true] {
                    let hr = b.restrict(hf, var(v), val);
                    let rr = rb.restrict(rf, v, val);
                    if let Err(e) = same_function(&b.nodes, hr, &rb, rr) {
                        found.push(("big-restrict:wrong-function".into(), format!("restrict(f, {}, {}) on the OR of {} products ({} nodes in the store, pass {}) is not the cofactor: {}", v, val, m, b.nodes.len(), round + 1, e.chars().take(200).collect::<String>())));
                        if found.len() > 5 {
                            return found;
                        }
                        continue;
                    }
                    // one more level: the result restricted by the variable's partner
                    let w = (v + m) % n;
                    let hr2 = b.restrict(hr, var(w), !val);
                    let rr2 = rb.restrict(rr, w, !val);
                    if let Err(e) = same_function(&b.nodes, hr2, &rb, rr2) {
                        found.push(("big-restrict:wrong-function".into(), format!("restrict(restrict(f, {}, {}), {}, {}) on the OR of {} products is not the cofactor: {}", v, val, w, !val, m, e.chars().take(200).collect::<String>())));
                        if found.len() > 5 {
                            return found;
                        }
                    }
                }
            }
        }
        if let Err(e) = check_structure(&b.nodes) {
            found.push(("big-restrict:not-canonical".into(), e));
        }
        found
    });
    match r {
        Ok(f) => f,
        Err(m) => vec![("big-restrict:panic".into(), m)],
    }
}

pub fn big_restrict_family(run: &Run) {
    let sizes: Vec<usize> = if run.quick() { vec![12] } else { vec![12, 13, 14] };
    let res = run.par_family(
        &format!("every restriction (and restrictions of the results) of the OR of {:?} products in a bad variable order - diagrams with more than 4096 / 2^13 / 2^14 nodes - in ONE store, vs. a reference BDD", sizes),
        sizes.len() as u64,
        || 0u64,
        |st, k| {
            let m = sizes[k as usize];
            *st += 16 * m as u64;
            run.heartbeat();
            for (kind, msg) in big_restrict_case(m) {
                run.violation(&kind, msg, json!({"type": "big-restrict", "products": m}));
            }
        },
        &|k| json!({"type": "big-restrict", "products": sizes[k as usize]}),
    );
    for st in res {
        run.add_counts(0, st, st, st);
    }
}

/// a store with more than 2^16 memoised results and nodes: pairwise conjunctions over many variables; canonicity of
/// the whole table, and re-requests of existing formulas must return the handles issued before
pub fn wide_store_case(pairs: usize) -> Vec<(String, String)> {
    let mut out = vec![];
    let r = guard(|| {
        let mut found: Vec<(String, String)> = vec![];
        let mut b = Bdd::new();
        let mut issued = vec![];
        for i in 0..pairs {
            let x = b.variable(var(i));
            let y = b.variable(var(i + 1));
            let a = b.and(x, y);
            let o = b.xor(x, y);
            issued.push((x, a, o));
        }
        if let Err(e) = check_structure(&b.nodes) {
            found.push(("wide:not-canonical".into(), e));
        }
        let d = b.verif_dump();
        if d.cache.len() != b.nodes.len() - 2 {
            found.push(("wide:unique-table".into(), format!("unique table has {} entries for {} inner nodes", d.cache.len(), b.nodes.len() - 2)));
        }
        let len = b.nodes.len();
        for (i, (x, a, o)) in issued.iter().enumerate().step_by(97) {
            let x2 = b.variable(var(i));
            let y2 = b.variable(var(i + 1));
            let a2 = b.and(x2, y2);
            let o2 = b.xor(x2, y2);
            if x2 != *x || a2 != *a || o2 != *o {
                found.push(("wide:second-handle".into(), format!("re-requesting formulas over variable {} gives handles {:?}, issued before were {:?}", i, (x2, a2, o2), (x, a, o))));
                break;
            }
        }
        if b.nodes.len() != len {
            found.push(("wide:duplicates-appended".into(), format!("re-requesting existing formulas grew the node table from {} to {}", len, b.nodes.len())));
        }
        found
    });
    match r {
        Ok(f) => out.extend(f),
        Err(m) => out.push(("wide:panic".into(), m)),
    }
    out
}

fn scale_sections(run: &Run, c07: bool) {
    let quick = run.quick();
    if c07 {
        // re-imported stores: every function of 3 and 4 variables, all restrictions
        for n in [3usize, 4] {
            let total = (full(n) as u64 + 1) * 2;
            let res = run.par_family(
                &format!("all functions of {} variables on re-imported stores (serde + fix_import, node list), all restrictions", n),
                total,
                || 0u64,
                |st, k| {
                    let tt = (k / 2) as TT;
                    *st += 2 * 2 * n as u64;
                    for (kind, msg) in reimport_restrict_case(tt, n, if k % 2 == 0 { 0 } else { 5 }) {
                        run.violation(&kind, format!("{} (function {:#x} over {} variables)", msg, tt, n), json!({"type": "reimport-restrict", "tt": tt, "vars": n, "writer": if k % 2 == 0 { 0 } else { 5 }}));
                    }
                },
                &|k| json!({"type": "reimport-restrict", "tt": k / 2, "vars": n, "writer": if k % 2 == 0 { 0 } else { 5 }}),
            );
            for st in res {
                run.add_counts(0, st, st, 0);
            }
        }
    }
    big_restrict_family(run);
    // chains whose support has 63 ... 130 variables
    {
        let sizes: Vec<usize> = if quick { vec![63, 64, 65, 66, 70, 130] } else { (60..=72).chain([100, 130, 257, 300]).collect() };
        let per = if quick { 6u64 } else { 27 };
        let res = run.par_family(
            &format!("chains over {:?} variables ({} operator assignments each, and / or / imp): every restriction, restrictions of restrictions and connectives vs. a reference BDD", sizes, per),
            sizes.len() as u64 * per,
            || 0u64,
            |st, k| {
                let n = sizes[(k / per) as usize];
                let idx = (k % per) * 3 + run.seed % 3;
                *st += 4 * n as u64 + 4;
                for (kind, msg) in wide_support_case(n, idx) {
                    run.violation(&kind, format!("{} (chain #{} over {} variables)", msg, idx, n), json!({"type": "wide-support", "vars": n, "index": idx}));
                }
            },
            &|k| json!({"type": "wide-support", "vars": sizes[(k / per) as usize], "index": (k % per) * 3 + run.seed % 3}),
        );
        for st in res {
            run.add_counts(0, st, st, st);
        }
    }
    // deep diagrams
    let plan: Vec<(usize, u64)> = if quick { vec![(8, 1), (11, 64)] } else { vec![(8, 1), (10, 1), (12, 16)] };
    for (n, stride) in plan {
        let all = 4u64.pow(n as u32 - 1);
        let total = all / stride;
        let res = run.par_family(
            &format!("deep diagrams: {} of {} operator chains over {} variables, every restriction and connective vs. a reference BDD", total, all, n),
            total,
            || 0u64,
            |st, k| {
                *st += 1;
                for (kind, msg) in deep_case(n, k * stride + run.seed % stride) {
                    run.violation(&kind, format!("{} (chain #{} over {} variables)", msg, k * stride + run.seed % stride, n), json!({"type": "deep", "vars": n, "index": k * stride + run.seed % stride}));
                }
            },
            &|k| json!({"type": "deep", "vars": n, "index": k * stride + run.seed % stride}),
        );
        for st in res {
            run.add_counts(st, st * (2 * n as u64 + 5), st * (2 * n as u64 + 5), st);
        }
    }
    if !c07 {
        // wide stores beyond 2^16 memo entries / nodes
        let sizes: Vec<usize> = if quick { vec![40_000, 90_000] } else { vec![40_000, 90_000, 300_000] };
        let res = run.par_family(
            "wide stores: pairwise formulas over up to 300k variables (more than 2^16 memo entries and nodes), canonicity and handle stability",
            sizes.len() as u64,
            || 0u64,
            |st, k| {
                *st += sizes[k as usize] as u64;
                run.heartbeat();
                for (kind, msg) in wide_store_case(sizes[k as usize]) {
                    run.violation(&kind, format!("{} (store with {} variable pairs)", msg, sizes[k as usize]), json!({"type": "wide", "pairs": sizes[k as usize]}));
                }
            },
            &|k| json!({"type": "wide", "pairs": sizes[k as usize]}),
        );
        for st in res {
            run.add_counts(1, st * 4, st * 4, 0);
        }
        // bridge conversions at scale: the programs of C09 (2^17-node diagram, 300 statements), judged for canonicity
        // and for the functions of their handles
        for (kind, msg) in crate::c09::scale_programs(run) {
            run.violation(&format!("bridge:{}", kind), msg, json!({"type": "bridge-scale"}));
        }
    }
}

pub fn replay(prop: &str, c: &Value) -> Vec<(String, String)> {
    match c["type"].as_str().unwrap_or("") {
        "reimport-restrict" => return reimport_restrict_case(c["tt"].as_u64().unwrap_or(0) as TT, c["vars"].as_u64().unwrap_or(3) as usize, c["writer"].as_u64().unwrap_or(0) as usize),
        "adf-handles" => {
            let tts: Vec<TT> = c["tts"].as_array().map(|a| a.iter().map(|x| x.as_u64().unwrap_or(0) as TT).collect()).unwrap_or_default();
            let labels: Vec<String> = c["labels"].as_array().map(|a| a.iter().map(|x| x.as_str().unwrap_or("").to_string()).collect()).unwrap_or_default();
            return adf_handles_case(c["text"].as_str().unwrap_or(""), &tts, &labels);
        }
        #[cfg(feature = "frontend")]
        "mirror-reuse" => return crate::c19::replay(c),
        "big-restrict" => return big_restrict_case(c["products"].as_u64().unwrap_or(12) as usize),
        "wide-support" => return wide_support_case(c["vars"].as_u64().unwrap_or(65) as usize, c["index"].as_u64().unwrap_or(0)),
        "deep" => return deep_case(c["vars"].as_u64().unwrap_or(8) as usize, c["index"].as_u64().unwrap_or(0)),
        "wide" => return wide_store_case(c["pairs"].as_u64().unwrap_or(70000) as usize),
        "bridge-scale" => {
            let run = Run::new(prop, Tier::Quick, 0);
            return crate::c09::scale_programs(&run);
        }
        _ => {}
    }
    let flags = match prop {
        "C06" => Flags { canonical: true, functions: false, memo: false, queries: false },
        "C07" => Flags { canonical: false, functions: true, memo: false, queries: false },
        "C11" => Flags { canonical: false, functions: false, memo: true, queries: false },
        _ => Flags { canonical: false, functions: false, memo: false, queries: true },
    };
    if c["type"] == "flat" {
        let n = 3;
        let (f, g) = (c["f"].as_u64().unwrap_or(0) as TT, c["g"].as_u64().unwrap_or(0) as TT);
        let (wf, wg) = (c["wf"].as_u64().unwrap_or(0) as usize, c["wg"].as_u64().unwrap_or(0) as usize);
        let mut out = vec![];
        for opk in 0..5u8 {
            let r = guard(|| {
                let mut b = Bdd::new();
                let hf = build_fm(&mut b, &write_fm(f, n, wf));
                let hg = build_fm(&mut b, &write_fm(g, n, wg));
                let before = b.nodes.clone();
                let op = Op::Bin(opk, hf.value() as u16, hg.value() as u16);
                let r = apply(&mut b, &op);
                (b, before, op, r)
            });
            match r {
                Err(m) => out.push(("op:panic".into(), m)),
                Ok((b, before, op, r)) => {
                    if let Ok(bt) = all_tts(&before, n) {
                        check_transition(&before, &bt, &op, r, &b, n, &flags, &mut out);
                    }
                }
            }
        }
        return out;
    }
    crate::store::replay(c, &flags)
}
