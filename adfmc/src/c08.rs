//! C08: the parser on the documented language (accept side) and on definitely-invalid mutants (reject side).

use crate::bddx::*;
use crate::cli::*;
use crate::oracle::*;
use crate::report::*;
use adf_bdd::adf::Adf;
use adf_bdd::parser::{AdfParser, Formula};
use serde_json::{json, Value};
use std::collections::BTreeSet;

/// label spellings: (text as written in the file, label the parser must report)
pub fn label_pool() -> Vec<(String, String)> {
    let plain = ["a", "b1", "7", "and", "or", "neg", "imp", "iff", "xor", "c", "s", "ac", "v", "f", "andy", "negx", "c1", "Zz9"];
    let quoted = ["a b", "", "and(a,b)", "c(v)", "x.y", "\u{fc}", "s(q).", " lead", "1,2", "a_20_b", "_", "(a", "a)", ")(a"];
    let mut v: Vec<(String, String)> = plain.iter().map(|s| (s.to_string(), s.to_string())).collect();
    v.extend(quoted.iter().map(|s| (format!("\"{}\"", s), s.to_string())));
    v
}

fn to_formula<'a>(f: &Fm, labels: &'a [String]) -> Formula<'a> {
    let b = |x: &Fm| Box::new(to_formula(x, labels));
    match f {
        Fm::Top => Formula::Top,
        Fm::Bot => Formula::Bot,
        Fm::Atom(i) => Formula::Atom(&labels[*i]),
        Fm::Not(x) => Formula::Not(b(x)),
        Fm::And(x, y) => Formula::And(b(x), b(y)),
        Fm::Or(x, y) => Formula::Or(b(x), b(y)),
        Fm::Imp(x, y) => Formula::Imp(b(x), b(y)),
        Fm::Iff(x, y) => Formula::Iff(b(x), b(y)),
        Fm::Xor(x, y) => Formula::Xor(b(x), b(y)),
    }
}

/// an accepted text: facts in file order. Fact = Stmt(label idx) | Ac(label idx, formula)
#[derive(Clone, Debug)]
pub enum Fact {
    S(usize),
    Ac(usize, Fm),
}

pub struct Doc {
    pub written: Vec<String>, // spelling in the file per label index
    pub labels: Vec<String>,  // the label proper
    pub facts: Vec<Fact>,
    pub ws: (String, String, String), // after a fact, left of a comma, right of a comma
}

impl Doc {
    pub fn text(&self) -> String {
        let mut t = String::new();
        for f in &self.facts {
            match f {
                Fact::S(i) => t += &format!("s({}).", self.written[*i]),
                Fact::Ac(i, fm) => t += &format!("ac({}{},{}{}).", self.written[*i], self.ws.1, self.ws.2, fm.text(&self.written, (&self.ws.1, &self.ws.2))),
            }
            t += &self.ws.0;
        }
        t
    }
}

/// checks of one accepted document
pub fn accept_case(doc: &Doc) -> Vec<(String, String)> {
    let text = doc.text();
    let mut out = vec![];
    let parser = AdfParser::default();
    match guard(|| parser.parse()(&text).map(|(rest, _)| rest.len())) {
        Err(m) => return vec![("accept:panic".into(), format!("parser panicked: {}", m))],
        Ok(Err(e)) => return vec![("accept:rejected".into(), format!("documented syntax rejected: {:?}", e.to_string().chars().take(120).collect::<String>()))],
        Ok(Ok(rest)) => {
            if rest != 0 {
                out.push(("accept:not-consumed".into(), format!("{} bytes left unparsed", rest)));
            }
        }
    }
    // labels in first-declaration order, verbatim
    let mut decl: Vec<usize> = vec![];
    for f in &doc.facts {
        if let Fact::S(i) = f {
            if !decl.contains(i) {
                decl.push(*i);
            }
        }
    }
    let want_names: Vec<String> = decl.iter().map(|i| doc.labels[*i].clone()).collect();
    let got_names: Vec<String> = parser.var_container().names().read().unwrap().clone();
    if got_names != want_names {
        out.push(("accept:labels".into(), format!("statement labels are {:?}, the file declares {:?}", got_names, want_names)));
        return out;
    }
    for (pos, name) in want_names.iter().enumerate() {
        if parser.dict_value(name) != Some(pos) {
            out.push(("accept:dictionary".into(), format!("dict_value({:?}) = {:?}, expected {}", name, parser.dict_value(name), pos)));
        }
    }
    if parser.dict_size() != want_names.len() {
        out.push(("accept:dictionary".into(), format!("dictionary has {} entries for {} statements", parser.dict_size(), want_names.len())));
    }
    // formulas in file order, as ASTs
    let acs: Vec<(usize, &Fm)> = doc.facts.iter().filter_map(|f| if let Fact::Ac(i, fm) = f { Some((*i, fm)) } else { None }).collect();
    for (k, (_, fm)) in acs.iter().enumerate() {
        let want = to_formula(fm, &doc.labels);
        match parser.ac_at(k) {
            None => out.push(("accept:formula-missing".into(), format!("ac_at({}) is None", k))),
            Some(got) => {
                if got != want {
                    out.push(("accept:formula".into(), format!("ac_at({}) = {:?}, the file says {:?}", k, got, want)));
                }
            }
        }
    }
    if parser.ac_at(acs.len()).is_some() {
        out.push(("accept:formula-extra".into(), "more formulas than ac facts".into()));
    }
    // diagrams of the native construction: each statement's handle denotes the function written in the file - first as
    // parsed, then after sorting the SAME parser object lexicographically and building again, then alphanumerically
    // (the parser keeps state between these steps)
    let n = want_names.len();
    if n <= 5 && acs.len() == n && out.is_empty() {
        for stage in 0..3 {
            let sname = ["as parsed", "after varsort_lexi on the same parser", "after varsort_alphanum on the same parser"][stage];
            match stage {
                1 => {
                    parser.varsort_lexi();
                }
                2 => {
                    parser.varsort_alphanum();
                }
                _ => {}
            }
            // variable index of every declared label now
            let var_of: Vec<Option<usize>> = decl.iter().map(|d| parser.dict_value(&doc.labels[*d])).collect();
            if var_of.iter().any(|v| v.is_none()) || var_of.iter().map(|v| v.unwrap()).collect::<BTreeSet<_>>().len() != n {
                out.push(("accept:dictionary".into(), format!("{}: the dictionary is not a bijection onto 0..{}: {:?}", sname, n, var_of)));
                break;
            }
            let var_of: Vec<usize> = var_of.into_iter().map(|v| v.unwrap()).collect();
            // the accepted text must be usable: natively and through the biodivine bridge
            for bridged in [false, true] {
            let sname = if bridged { format!("{} (through biodivine)", sname) } else { sname.to_string() };
            match guard(|| if bridged { Adf::from_biodivine(&adf_bdd::adfbiodivine::Adf::from_parser(&parser)) } else { Adf::from_parser(&parser) }) {
                Err(m) => out.push(("accept:construction-panic".into(), format!("{}: {}", sname, m))),
                Ok(adf) => {
                    for (li, fm) in &acs {
                        let pos = decl.iter().position(|d| d == li).unwrap();
                        // truth table of the written condition over the CURRENT variable order
                        let mut tt = 0u32;
                        for a in 0..(1u32 << n) {
                            if fm.eval_with(&|atom| decl.iter().position(|d| *d == atom).map(|p| a >> var_of[p] & 1 == 1).unwrap_or(false)) {
                                tt |= 1 << a;
                            }
                        }
                        match tt_of(&adf.bdd.nodes, adf.ac[var_of[pos]], n) {
                            Ok(got) => {
                                if got != tt {
                                    out.push(("accept:function".into(), format!("{}: the diagram of statement {:?} denotes {:#x}, the written condition {:#x}", sname, doc.labels[*li], got, tt)));
                                }
                            }
                            Err(e) => out.push(("accept:diagram".into(), format!("{}: {}", sname, e))),
                        }
                    }
                }
            }
            }
            if !out.is_empty() {
                break;
            }
        }
    }
    out
}

// ---------------------------------------------------------------------------------------------------------
// independent recogniser of the documented grammar, deliberately permissive about blanks (blanks are allowed
// between any two tokens), so that only definitely-invalid texts are rejected by it

struct Rec<'a> {
    s: &'a [u8],
    i: usize,
}

impl<'a> Rec<'a> {
    fn ws(&mut self) {
        while self.i < self.s.len() && (self.s[self.i] as char).is_whitespace() {
            self.i += 1;
        }
    }
    fn eat(&mut self, t: &str) -> bool {
        self.ws();
        if self.s[self.i..].starts_with(t.as_bytes()) {
            self.i += t.len();
            true
        } else {
            false
        }
    }
    fn label(&mut self) -> bool {
        self.ws();
        if self.i < self.s.len() && self.s[self.i] == b'"' {
            let mut j = self.i + 1;
            while j < self.s.len() && self.s[j] != b'"' {
                j += 1;
            }
            if j >= self.s.len() {
                return false;
            }
            self.i = j + 1;
            return true;
        }
        let st = self.i;
        while self.i < self.s.len() && (self.s[self.i] as char).is_ascii_alphanumeric() {
            self.i += 1;
        }
        self.i > st
    }
    fn formula(&mut self) -> bool {
        self.ws();
        let save = self.i;
        for op in ["and", "or", "imp", "iff", "xor"] {
            self.i = save;
            if self.eat(op) && self.eat("(") && self.formula() && self.eat(",") && self.formula() && self.eat(")") {
                return true;
            }
        }
        self.i = save;
        if self.eat("neg") && self.eat("(") && self.formula() && self.eat(")") {
            return true;
        }
        for c in ["v", "f"] {
            self.i = save;
            if self.eat("c") && self.eat("(") && self.eat(c) && self.eat(")") {
                return true;
            }
        }
        self.i = save;
        self.label()
    }
    fn fact(&mut self) -> bool {
        let save = self.i;
        if self.eat("s") && self.eat("(") && self.label() && self.eat(")") && self.eat(".") {
            return true;
        }
        self.i = save;
        self.eat("ac") && self.eat("(") && self.label() && self.eat(",") && self.formula() && self.eat(")") && self.eat(".")
    }
}

/// true if the text could be read as the documented format under the most permissive reading of blanks
pub fn permissive_accepts(text: &str) -> bool {
    let mut r = Rec { s: text.as_bytes(), i: 0 };
    let mut n = 0;
    loop {
        r.ws();
        if r.i == r.s.len() {
            return n > 0;
        }
        if !r.fact() {
            return false;
        }
        n += 1;
    }
}

/// mutants of an accepted text in the four categories the property names
pub fn mutants(text: &str) -> Vec<(String, String)> {
    let mut out: Vec<(String, String)> = vec![];
    let b = text.as_bytes();
    let mut in_q = false;
    let mut outside: Vec<usize> = vec![];
    for (i, c) in b.iter().enumerate() {
        if *c == b'"' {
            in_q = !in_q;
        } else if !in_q {
            outside.push(i);
        }
    }
    for &i in &outside {
        let c = b[i] as char;
        if c == '(' || c == ')' {
            out.push(("unbalanced-bracket".into(), format!("{}{}", &text[..i], &text[i + 1..])));
            out.push(("unbalanced-bracket".into(), format!("{}{}{}", &text[..i], c, &text[i..])));
        }
        if c == '.' {
            out.push(("missing-terminator".into(), format!("{}{}", &text[..i], &text[i + 1..])));
        }
        if c == ',' {
            // drop the second argument / add a third one
            let mut depth = 0i32;
            let mut j = i + 1;
            while j < b.len() {
                let cj = b[j] as char;
                if cj == '(' {
                    depth += 1
                }
                if cj == ')' {
                    if depth == 0 {
                        break;
                    }
                    depth -= 1;
                }
                j += 1;
            }
            if j < b.len() && text.is_char_boundary(j) {
                out.push(("wrong-arity".into(), format!("{}{}", &text[..i], &text[j..])));
                out.push(("wrong-arity".into(), format!("{},c(v){}", &text[..j], &text[j..])));
            }
        }
    }
    // neg with two arguments, constants with two
    if let Some(p) = text.find("neg(") {
        if outside.contains(&p) {
            out.push(("wrong-arity".into(), format!("{}neg(c(f),{}", &text[..p], &text[p + 4..])));
        }
    }
    if let Some(p) = text.find("c(v)") {
        if outside.contains(&p) {
            out.push(("wrong-arity".into(), format!("{}c(v,f){}", &text[..p], &text[p + 4..])));
        }
    }
    for g in ["x", " wee", ")", "(", "s(", "ac(a,", ".", "\"", "s(a)"] {
        out.push(("trailing-garbage".into(), format!("{}{}", text, g)));
    }
    out
}

/// all single-character edits of a text: every character deleted, replaced by and preceded by every character of a
/// small alphabet drawn from the grammar (letters of the keywords and constants, brackets, separators, quote, blank,
/// line break, a digit, a non-ASCII letter)
pub fn single_edits(text: &str) -> Vec<String> {
    const ALPHABET: [char; 18] = ['a', 'v', 'f', 'c', 's', 'n', 'x', 'V', '(', ')', ',', '.', '"', ' ', '\n', '1', '_', 'é'];
    let chars: Vec<char> = text.chars().collect();
    let mut out = vec![];
    for i in 0..=chars.len() {
        for a in ALPHABET {
            let mut t: Vec<char> = chars.clone();
            t.insert(i, a);
            out.push(t.into_iter().collect());
        }
        if i < chars.len() {
            let mut t: Vec<char> = chars.clone();
            t.remove(i);
            out.push(t.into_iter().collect());
            for a in ALPHABET {
                if a != chars[i] {
                    let mut t: Vec<char> = chars.clone();
                    t[i] = a;
                    out.push(t.into_iter().collect());
                }
            }
        }
    }
    out
}

/// whatever the text is, the parser returns (Ok or Err) and does not panic
pub fn no_panic_case(text: &str) -> Vec<(String, String)> {
    let parser = AdfParser::default();
    match guard(|| parser.parse()(text).is_ok()) {
        Err(m) => vec![("edit:panic".into(), format!("parser panicked: {}", m))],
        Ok(_) => vec![],
    }
}

pub fn reject_case(text: &str) -> Vec<(String, String)> {
    let parser = AdfParser::default();
    match guard(|| parser.parse()(text).is_ok()) {
        Err(m) => vec![("reject:panic".into(), format!("parser panicked: {}", m))],
        Ok(true) => vec![("reject:accepted".into(), "definitely-invalid text was accepted".into())],
        Ok(false) => vec![],
    }
}

pub fn reject_cli_case(cli: &str, dir: &str, idx: u64, text: &str) -> Vec<(String, String)> {
    let mut out = vec![];
    let path = format!("{}/bad_{}.adf", dir, idx);
    std::fs::write(&path, text).unwrap_or_else(|_| machinery_error("cannot write input file"));
    for mode in ["naive", "biodivine", "hybrid"] {
        let o = run_cli(cli, &["--lib".into(), mode.into(), "--grd".into(), "--com".into(), "--stm".into(), "-q".into(), path.clone()]);
        if o.code == Some(0) {
            out.push((format!("reject:cli:{}:exit-0", mode), format!("malformed input but exit status 0 (stdout {:?})", o.stdout.chars().take(80).collect::<String>())));
        }
        if !o.stdout.trim().is_empty() {
            out.push((format!("reject:cli:{}:answer", mode), format!("malformed input but an answer is printed: {:?}", o.stdout.chars().take(80).collect::<String>())));
        }
    }
    let _ = std::fs::remove_file(&path);
    out
}

/// the fixed formulas that put every connective into every argument position
pub fn position_formulas() -> Vec<Fm> {
    let a = || Fm::Atom(0);
    let b = || Fm::Atom(1);
    let mut v = vec![a(), b(), Fm::Top, Fm::Bot, Fm::not(a()), Fm::not(Fm::not(b()))];
    for op in 0..5 {
        v.push(Fm::bin(op, a(), b()));
        v.push(Fm::bin(op, b(), a()));
        v.push(Fm::bin(op, Fm::not(a()), Fm::bin((op + 1) % 5, a(), b())));
        v.push(Fm::bin(op, Fm::bin((op + 2) % 5, b(), Fm::Top), Fm::not(b())));
        v.push(Fm::not(Fm::bin(op, Fm::Bot, a())));
        v.push(Fm::bin(op, Fm::bin(op, a(), a()), Fm::bin(op, b(), b())));
    }
    v.push(Fm::bin(0, Fm::Top, Fm::bin(1, Fm::Bot, a())));
    v.push(Fm::bin(3, Fm::bin(2, a(), b()), Fm::Atom(2)));
    v.push(Fm::bin(4, Fm::Atom(2), Fm::bin(4, Fm::Atom(3), Fm::Atom(3))));
    v.push(Fm::bin(2, Fm::bin(2, Fm::bin(2, a(), b()), Fm::Atom(2)), Fm::Atom(3)));
    v
}

fn std_doc(written: Vec<String>, labels: Vec<String>, conds: Vec<Fm>, ws: (String, String, String)) -> Doc {
    let n = labels.len();
    let mut facts: Vec<Fact> = (0..n).map(Fact::S).collect();
    for (i, c) in conds.into_iter().enumerate() {
        facts.push(Fact::Ac(i, c));
    }
    Doc { written, labels, facts, ws }
}

fn plain_labels(n: usize) -> (Vec<String>, Vec<String>) {
    let l: Vec<String> = ["a", "b", "c", "d"].iter().take(n).map(|s| s.to_string()).collect();
    (l.clone(), l)
}

fn no_ws() -> (String, String, String) {
    (String::new(), String::new(), String::new())
}

/// the document of accept-side case `k` of a section; None when k is out of range
pub fn accept_doc(section: usize, k: u64, phi: &[Fm]) -> Option<Doc> {
    let pool = label_pool();
    let pf = position_formulas();
    let wsk = ["", " ", "\n", "\t"];
    match section {
        // (i) every formula as condition of a, b gets a rotating second condition
        0 => {
            let f = phi.get(k as usize)?.clone();
            let (w, l) = plain_labels(2);
            Some(std_doc(w, l, vec![f, Fm::Atom((k % 2) as usize)], no_ws()))
        }
        // (ii) position formulas x ordered pairs of label spellings (third/fourth label fixed)
        1 => {
            let np = pool.len() as u64;
            let (fi, rest) = (k / (np * np), k % (np * np));
            let (i, j) = ((rest / np) as usize, (rest % np) as usize);
            let f = pf.get(fi as usize)?.clone();
            if pool[i].1 == pool[j].1 {
                return Some(std_doc(vec!["a".into()], vec!["a".into()], vec![Fm::Top], no_ws())); // degenerate pair: trivial document
            }
            let mut written = vec![pool[i].0.clone(), pool[j].0.clone(), "x3".to_string(), "\"y 4\"".to_string()];
            let mut labels = vec![pool[i].1.clone(), pool[j].1.clone(), "x3".to_string(), "y 4".to_string()];
            // a label of the pool may coincide with the fixed ones only by construction error
            if labels[0] == "x3" || labels[1] == "x3" {
                written[2] = "x33".into();
                labels[2] = "x33".into();
            }
            let conds = vec![f, Fm::Atom(0), Fm::Atom(1), Fm::Top];
            Some(std_doc(written, labels, conds, no_ws()))
        }
        // (iii) position formulas x all layouts
        2 => {
            let (fi, l) = (k / 64, k % 64);
            let f = pf.get(fi as usize)?.clone();
            let (w, lab) = plain_labels(4);
            let ws = (wsk[(l % 4) as usize].to_string(), wsk[(l / 4 % 4) as usize].to_string(), wsk[(l / 16) as usize].to_string());
            Some(std_doc(w, lab, vec![f, Fm::bin(1, Fm::Atom(0), Fm::Atom(1)), Fm::Atom(3), Fm::not(Fm::Atom(2))], ws))
        }
        // (iv) all orders of four facts + a repeated s fact
        _ => {
            if k >= 24 * 2 {
                return None;
            }
            let base = vec![Fact::S(0), Fact::S(1), Fact::Ac(0, Fm::not(Fm::Atom(1))), Fact::Ac(1, Fm::bin(2, Fm::Atom(0), Fm::Atom(1)))];
            // k-th permutation
            let mut idx: Vec<usize> = (0..4).collect();
            let mut kk = k % 24;
            let mut perm = vec![];
            for r in (1..=4).rev() {
                let f: u64 = (1..r as u64).product();
                perm.push(idx.remove((kk / f) as usize));
                kk %= f;
            }
            let mut facts: Vec<Fact> = perm.iter().map(|i| base[*i].clone()).collect();
            if k >= 24 {
                facts.push(Fact::S(1));
                facts.insert(1, Fact::S(0));
            }
            let (w, l) = plain_labels(2);
            Some(Doc { written: w, labels: l, facts, ws: (if k % 2 == 0 { "" } else { "\n" }.to_string(), String::new(), String::new()) })
        }
    }
}

#[derive(Default)]
struct St {
    cases: u64,
    nontrivial: u64,
    skipped: u64,
    outcomes: BTreeSet<u64>,
}

pub fn run_c08(run: &Run) {
    run.set_rule("accept side: (i) every formula of Phi(2) = depth <= 2 (thorough: <= 7 nodes) as a condition, (ii) 40 fixed formulas with every connective in every argument position x all ordered pairs of 27 label spellings (keyword look-alikes, digits, quoted labels with blanks, brackets, dots, commas, non-ASCII, empty), (iii) the same formulas x all 4^3 layouts of blanks at the three documented positions, (iv) all orders of the facts and repeated s facts. Checked: accepted and fully consumed; labels in first-declaration order and byte-identical; ac_at(i) equals the expected Formula AST; the diagrams built by Adf::from_parser and through the biodivine bridge denote the written function. Reject side: every mutant of the accepted texts in the four named categories (one bracket deleted/duplicated, one '.' deleted, an argument dropped/added, trailing garbage), kept only if an independent, blank-permissive recogniser of the documented grammar rejects it; parse must return Err without panic and the CLI (three modes) must exit non-zero with empty stdout. Beyond the named categories: every single-character edit of a corpus of accepted texts must make the parser return (Ok or Err), never panic. Non-trivial: accepted texts with >= 1 binary connective or a quoted label; mutants.");
    run.assume("unquoted labels are ASCII alphanumerics (documented); texts the permissive recogniser accepts but the parser might not (blanks at undocumented places) are never asserted either way");
    let quick = run.quick();
    let phi = if quick { formulas_depth(2, 2) } else { formulas_size(2, 7) };
    let pool = label_pool();
    let pf = position_formulas();
    let sections: Vec<(usize, u64, String)> = vec![
        (0, phi.len() as u64, format!("(i) {} formulas as conditions", phi.len())),
        (1, pf.len() as u64 * (pool.len() * pool.len()) as u64, format!("(ii) {} formulas x {} ordered label pairs", pf.len(), pool.len() * pool.len())),
        (2, pf.len() as u64 * 64, format!("(iii) {} formulas x 64 layouts", pf.len())),
        (3, 48, "(iv) fact orders and repeated s facts".to_string()),
    ];
    let mut reject_corpus: Vec<String> = vec![];
    for (sec, total, name) in sections {
        let res = run.par_family(
            &format!("accept {}", name),
            total,
            || (St::default(), Vec::<String>::new()),
            |(st, rej), k| {
                let Some(doc) = accept_doc(sec, k, &phi) else { return };
                st.cases += 1;
                let text = doc.text();
                if text.contains('"') || text.contains(',') && text.matches(',').count() > doc.facts.len() {
                    st.nontrivial += 1;
                }
                st.outcomes.insert(hash64(text.as_bytes()) % 4096);
                for (kind, msg) in accept_case(&doc) {
                    run.violation(&kind, format!("{} on {:?}", msg, text), json!({"type": "accept", "section": sec, "index": k, "text": text}));
                }
                // mutants of every accepted text
                let take = true;
                if take {
                    for (cat, m) in mutants(&text) {
                        if permissive_accepts(&m) {
                            st.skipped += 1;
                            continue;
                        }
                        st.cases += 1;
                        st.nontrivial += 1;
                        for (kind, msg) in reject_case(&m) {
                            run.violation(&kind, format!("{} ({} mutant {:?})", msg, cat, m), json!({"type": "reject", "category": cat, "text": m}));
                        }
                        if rej.len() < 60 && (hash64(m.as_bytes()) % 101 == run.seed % 101) {
                            rej.push(m);
                        }
                    }
                }
            },
            &|k| json!({"type": "accept", "section": sec, "index": k, "text": accept_doc(sec, k, &phi).map(|d| d.text())}),
        );
        let mut sk = 0;
        for (st, rej) in res {
            run.add_counts(st.cases, st.cases * 3, st.cases, st.nontrivial);
            run.add_outcomes(st.outcomes);
            sk += st.skipped;
            reject_corpus.extend(rej);
        }
        run.extra(&format!("mutants_skipped_as_ambiguous[{}]", sec), json!(sk));
    }
    run.sample(json!({"type": "accept", "text": accept_doc(1, 3 * 27 * 27 + 5 * 27 + 20, &phi).map(|d| d.text())}));
    run.sample(json!({"type": "accept", "text": accept_doc(2, 7 * 64 + 37, &phi).map(|d| d.text())}));
    run.sample(json!({"type": "reject", "text": "s(a).s(b)ac(a,neg(b)).ac(b,a)."}));
    // machinery self-check: the recogniser accepts every generated document
    for (sec, n) in [(1usize, 2000u64), (2, 2000), (3, 48)] {
        for k in 0..n {
            if let Some(d) = accept_doc(sec, k * 7, &phi) {
                if !permissive_accepts(&d.text()) {
                    machinery_error(&format!("the permissive recogniser rejects a generated document: {:?}", d.text()));
                }
            }
        }
    }
    // single-character edits of accepted texts: most are neither in the documented format nor in one of the four named
    // error categories, so nothing is asserted about acceptance - only that the parser returns and does not panic
    {
        let mut texts: Vec<String> = vec![];
        for k in 0..pf.len() as u64 {
            if let Some(d) = accept_doc(2, k * 64, &phi) {
                texts.push(d.text());
            }
            if let Some(d) = accept_doc(1, k * (pool.len() * pool.len()) as u64 + (k * 31) % (pool.len() * pool.len()) as u64, &phi) {
                texts.push(d.text());
            }
        }
        for k in 0..48 {
            if let Some(d) = accept_doc(3, k, &phi) {
                texts.push(d.text());
            }
        }
        let res = run.par_family(
            &format!("all single-character edits (delete / replace / insert over 18 characters) of {} accepted texts: the parser returns, never panics", texts.len()),
            texts.len() as u64,
            || 0u64,
            |st, k| {
                for m in single_edits(&texts[k as usize]) {
                    *st += 1;
                    for (kind, msg) in no_panic_case(&m) {
                        run.violation(&kind, format!("{} on {:?}", msg, m), json!({"type": "edit", "text": m}));
                    }
                }
            },
            &|k| json!({"type": "edit", "text": texts[k as usize]}),
        );
        for st in res {
            run.add_counts(st, st, st, st);
        }
    }
    // CLI on a part of the reject corpus
    reject_corpus.sort();
    reject_corpus.dedup();
    let cli = cli_path();
    let tmp = TmpDir::new("c08");
    let take = if quick { 400 } else { 2000 };
    let corpus: Vec<String> = reject_corpus.into_iter().take(take).collect();
    let res = run.par_family(
        &format!("reject corpus through the CLI ({} texts x 3 modes)", corpus.len()),
        corpus.len() as u64,
        || 0u64,
        |st, k| {
            *st += 3;
            for (kind, msg) in reject_cli_case(&cli, &tmp.0, k, &corpus[k as usize]) {
                run.violation(&kind, format!("{} on {:?}", msg, corpus[k as usize]), json!({"type": "reject-cli", "text": corpus[k as usize]}));
            }
        },
        &|k| json!({"type": "reject-cli", "text": corpus[k as usize]}),
    );
    for st in res {
        run.add_counts(0, st, st, 0);
    }
    drop(tmp);
    run.extra("states_are", json!("input texts (accepted documents and rejected mutants)"));
    run.extra("transitions_are", json!("parser / construction / CLI executions judged"));
}

pub fn replay(c: &Value) -> Vec<(String, String)> {
    let text = c["text"].as_str().unwrap_or("").to_string();
    match c["type"].as_str().unwrap_or("") {
        "accept" => {
            let sec = c["section"].as_u64().unwrap_or(0) as usize;
            let k = c["index"].as_u64().unwrap_or(0);
            let phi = if sec == 0 { formulas_size(2, 7) } else { vec![] };
            // the index of section (i) refers to the quick list if the text matches it
            let phi_q = formulas_depth(2, 2);
            let doc = accept_doc(sec, k, &phi_q).filter(|d| d.text() == text).or_else(|| accept_doc(sec, k, &phi));
            match doc {
                Some(d) => accept_case(&d),
                None => vec![("accept:unknown-case".into(), "cannot rebuild the document".into())],
            }
        }
        "reject" => reject_case(&text),
        "edit" => no_panic_case(&text),
        _ => {
            let tmp = TmpDir::new("c08r");
            reject_cli_case(&cli_path(), &tmp.0, 0, &text)
        }
    }
}
