//! C09: compilation to diagrams (native, bridged, bridged after pre-grounding) preserves every acceptance
//! condition - validated program by program, statement by statement, exhaustively over each condition's support.

use crate::bddx::*;
use crate::fam::*;
use crate::large::*;
use crate::oracle::*;
use crate::report::*;
use crate::src_adf::*;
use adf_bdd::adf::Adf;
use adf_bdd::adfbiodivine::Adf as BdAdf;
use adf_bdd::datatypes::{Term, Var};
use adf_bdd::parser::AdfParser;
use serde_json::{json, Value};
use std::collections::BTreeSet;

/// variables on nodes reachable from handle h
fn reachable_vars(adf: &Adf, h: Term) -> Result<BTreeSet<usize>, String> {
    let mut seen = BTreeSet::new();
    let mut vars = BTreeSet::new();
    let mut todo = vec![h.value()];
    while let Some(x) = todo.pop() {
        if x >= adf.bdd.nodes.len() {
            return Err(format!("handle {} outside the node table", x));
        }
        if x < 2 || !seen.insert(x) {
            continue;
        }
        let nd = adf.bdd.nodes[x];
        vars.insert(nd.var().value());
        todo.push(nd.lo().value());
        todo.push(nd.hi().value());
    }
    Ok(vars)
}

/// one compiled object against the program. `labels`/`conds` in declaration order; `grounded`: Some(v) if the
/// object was imported after pre-grounding (v in declaration order)
fn check_object(adf: &Adf, labels: &[String], conds: &[Fm], grounded: Option<&[u8]>, what: &str, out: &mut Vec<(String, String)>) {
    let n = labels.len();
    if adf.ac.len() != n {
        out.push((format!("{}:statement-count", what), format!("{} handles for {} statements", adf.ac.len(), n)));
        return;
    }
    // variable index <-> declaration index through the labels
    let mut decl_of_var = vec![usize::MAX; n];
    for v in 0..n {
        match adf.ordering.name(Var(v)).and_then(|l| labels.iter().position(|x| *x == l)) {
            Some(d) => decl_of_var[v] = d,
            None => {
                out.push((format!("{}:ordering", what), format!("variable {} carries no declared label", v)));
                return;
            }
        }
    }
    let mut var_of_decl = vec![0usize; n];
    for (v, d) in decl_of_var.iter().enumerate() {
        var_of_decl[*d] = v;
    }
    if let Err(e) = check_structure(&adf.bdd.nodes) {
        out.push((format!("{}:store-not-canonical", what), e));
    }
    for d in 0..n {
        let h = adf.ac[var_of_decl[d]];
        let mut sup = BTreeSet::new();
        conds[d].atoms(&mut sup);
        let sup: Vec<usize> = sup.into_iter().collect();
        let free: Vec<usize> = match grounded {
            Some(g) => sup.iter().copied().filter(|x| g[*x] == U).collect(),
            None => sup.clone(),
        };
        match reachable_vars(adf, h) {
            Err(e) => {
                out.push((format!("{}:diagram", what), e));
                continue;
            }
            Ok(vars) => {
                let allowed: BTreeSet<usize> = free.iter().map(|x| var_of_decl[*x]).collect();
                if !vars.is_subset(&allowed) {
                    out.push((
                        format!("{}:foreign-variable", what),
                        format!("the diagram of {:?} tests variables {:?}, its condition only mentions {:?}", labels[d], vars, allowed),
                    ));
                    continue;
                }
            }
        }
        if free.len() > 12 {
            // too many assignments to enumerate: exact comparison with an independently built reference diagram
            let mut rb = crate::refbdd::RefBdd::new();
            let mut r = rb.compile(&conds[d], &|x| var_of_decl[x]);
            if let Some(g) = grounded {
                for x in &sup {
                    if g[*x] != U {
                        r = rb.restrict(r, var_of_decl[*x], g[*x] == T);
                    }
                }
            }
            if let Err(e) = crate::refbdd::same_function(&adf.bdd.nodes, h, &rb, r) {
                out.push((format!("{}:wrong-function", what), format!("the diagram of statement {:?} is not the diagram of its condition ({} reference nodes): {}", labels[d], rb.size_from(r), e)));
            }
            continue;
        }
        for a in 0..(1u64 << free.len()) {
            let val_decl = |x: usize| -> bool {
                if let Some(g) = grounded {
                    if g[x] != U {
                        return g[x] == T;
                    }
                }
                free.iter().position(|f| *f == x).map(|p| a >> p & 1 == 1).unwrap_or(false)
            };
            let want = conds[d].eval_with(&val_decl);
            match eval_handle(&adf.bdd.nodes, h, &|v| v < n && val_decl(decl_of_var[v])) {
                Ok(got) => {
                    if got != want {
                        out.push((
                            format!("{}:wrong-function", what),
                            format!("the diagram of statement {:?} evaluates to {} where its condition is {} (assignment #{} of its support {:?})", labels[d], got, want, a, free),
                        ));
                        break;
                    }
                }
                Err(e) => {
                    out.push((format!("{}:diagram", what), e));
                    break;
                }
            }
        }
        if let Some(g) = grounded {
            // a statement decided by the grounded interpretation must have collapsed to the constant
            if g[d] != U && !(h.is_truth_value() && h.is_true() == (g[d] == T)) {
                out.push((format!("{}:not-collapsed", what), format!("statement {:?} is {} in the grounded interpretation but its imported handle is {}", labels[d], if g[d] == T { "true" } else { "false" }, h)));
            }
        }
    }
}

/// one program through all pipelines and sortings
pub fn program_case(labels: &[String], conds: &[Fm], text: &str, sorting: usize, grounded: &[u8]) -> Vec<(String, String)> {
    program_case_sel(labels, conds, text, sorting, grounded, true)
}

pub fn program_case_sel(labels: &[String], conds: &[Fm], text: &str, sorting: usize, grounded: &[u8], native: bool) -> Vec<(String, String)> {
    let mut out = vec![];
    let parser = AdfParser::default();
    match guard(|| parser.parse()(text).is_ok()) {
        Ok(true) => {}
        other => return vec![("parse".into(), format!("well-formed program rejected: {:?}", other))],
    }
    match sorting {
        1 => {
            parser.varsort_lexi();
        }
        2 => {
            parser.varsort_alphanum();
        }
        _ => {}
    }
    let sname = ["unsorted", "lexicographic", "alphanumeric"][sorting];
    adf_bdd::verif::set_budget(Some(5_000_000));
    if native {
        match guard(|| Adf::from_parser(&parser)) {
            Ok(adf) => check_object(&adf, labels, conds, None, &format!("native[{}]", sname), &mut out),
            Err(m) => out.push((format!("native[{}]:panic", sname), m)),
        }
    }
    match guard(|| BdAdf::from_parser(&parser)) {
        Err(m) => out.push((format!("biodivine[{}]:panic", sname), m)),
        Ok(bd) => {
            match guard(|| Adf::from_biodivine(&bd)) {
                Ok(adf) => check_object(&adf, labels, conds, None, &format!("from_biodivine[{}]", sname), &mut out),
                Err(m) => out.push((format!("from_biodivine[{}]:panic", sname), m)),
            }
            match guard(|| bd.hybrid_step_opt(false)) {
                Ok(adf) => check_object(&adf, labels, conds, None, &format!("hybrid_step_opt(false)[{}]", sname), &mut out),
                Err(m) => out.push((format!("hybrid_step_opt(false)[{}]:panic", sname), m)),
            }
            match guard(|| bd.hybrid_step()) {
                Ok(adf) => check_object(&adf, labels, conds, Some(grounded), &format!("hybrid_step[{}]", sname), &mut out),
                Err(m) => out.push((format!("hybrid_step[{}]:panic", sname), m)),
            }
        }
    }
    // the same parser object is sorted AFTER it has served the instantiations above, and compiled from again
    if sorting == 0 && labels.len() <= 64 {
        for (again, how) in [("lexicographic", 1), ("alphanumeric", 2)] {
            if how == 1 {
                parser.varsort_lexi();
            } else {
                parser.varsort_alphanum();
            }
            let what = format!("re-sorted parser ({})", again);
            if native {
                match guard(|| Adf::from_parser(&parser)) {
                    Ok(adf) => check_object(&adf, labels, conds, None, &format!("native[{}]", what), &mut out),
                    Err(m) => out.push((format!("native[{}]:panic", what), m)),
                }
            }
            match guard(|| Adf::from_biodivine(&BdAdf::from_parser(&parser))) {
                Ok(adf) => check_object(&adf, labels, conds, None, &format!("from_biodivine[{}]", what), &mut out),
                Err(m) => out.push((format!("from_biodivine[{}]:panic", what), m)),
            }
        }
    }
    adf_bdd::verif::set_budget(None);
    out
}

fn small_program(c: &Case) -> (Vec<String>, Vec<Fm>, Vec<u8>) {
    (c.labels.clone(), c.fms.clone(), grounded(&c.tts))
}

pub fn run_c09(run: &Run) {
    writers_selfcheck();
    run.set_rule("programs: every formula of Phi(2) (thorough: <= 7 nodes) as a small ADF, A(2) with all writer tuples, F(3,2), and the deterministic large family L (12/24/48 statements; ladder, tree of depth 5-8 and wide shapes; three label schemes incl. quoted labels) each under no / lexicographic / alphanumeric sorting; pipelines Adf::from_parser, Adf::from_biodivine, hybrid_step_opt(false), hybrid_step(). Each compiled object is validated statement by statement, exhaustively over the condition's syntactic support (<= 10 statements, <= 1024 assignments): walking the stored handle through the public node table equals evaluating the written formula (pre-grounded import: with the definitional grounded values substituted, and decided statements collapsed to constants); every variable reachable from the handle lies in the support; the store is structurally canonical. Non-trivial: programs with >= 12 statements.");
    run.assume("per-program validation; the deciding step is complete enumeration of the assignment space of each condition's support; labels containing characters biodivine reserves are covered by known finding K2");
    let quick = run.quick();
    let phi = if quick { formulas_depth(2, 2) } else { formulas_size(2, 7) };
    let srcs = vec![
        Source::Formulas(format!("{} formulas as small ADFs", phi.len()), std::sync::Arc::new(phi)),
        Source::FamAllWriters(fam_a(2)),
        Source::Fam(fam_f(3, 2)),
        Source::Spelled,
    ];
    for src in srcs {
        let res = run.par_family(
            &format!("small programs: {} x 3 sortings", src.name()),
            src.size(),
            || 0u64,
            |st, k| {
                let c = src.get(k);
                let (labels, conds, g) = small_program(&c);
                for sorting in 0..3 {
                    *st += 1;
                    for (kind, msg) in program_case(&labels, &conds, &c.text, sorting, &g) {
                        run.violation(&kind, format!("{} on {}", msg, c.text), json!({"type": "small", "text": c.text, "tts": c.tts, "sorting": sorting, "labels": labels}));
                    }
                }
            },
            &|k| src.describe(k),
        );
        for st in res {
            run.add_counts(st, st * 4, st, 0);
        }
    }
    let nl: u64 = if quick { 270 } else { 2700 };
    let res = run.par_family(
        &format!("large family L: {} programs x 3 sortings", nl),
        nl * 3,
        || (0u64, BTreeSet::<u64>::new()),
        |st, k| {
            let idx = k / 3 + run.seed * 1000;
            let l = large(idx);
            let text = l.text(None, ("\n", "", " "));
            let g = l.grounded();
            st.0 += 1;
            st.1.insert(g.iter().filter(|x| **x != U).count() as u64 * 100 + l.labels.len() as u64);
            for (kind, msg) in program_case(&l.labels, &l.conds, &text, (k % 3) as usize, &g) {
                run.violation(&kind, format!("{} on large program #{} ({} statements, {})", msg, idx, l.labels.len(), l.shape), json!({"type": "large", "index": idx, "sorting": k % 3, "labels": l.labels}));
            }
        },
        &|k| json!({"type": "large", "index": k / 3 + run.seed * 1000, "sorting": k % 3}),
    );
    for st in res {
        run.add_counts(st.0, st.0 * 4, st.0, st.0);
        run.add_outcomes(st.1);
    }
    let l = large(4 + run.seed * 1000);
    run.sample(json!({"type": "large", "index": 4 + run.seed * 1000, "statements": l.labels.len(), "shape": l.shape, "text_prefix": l.text(None, ("", "", "")).chars().take(300).collect::<String>()}));
    for (kind, msg) in scale_programs(run) {
        run.violation(&kind, msg, json!({"type": "big"}));
    }
    // (c) labels whose concatenation with the separators of the syntax is ambiguous: two different conditions that
    // read alike once quotes are dropped, e.g. and("a,b",c) and and(a,"b,c")
    {
        let toks = ["a", "b", ",", "(", ")", " "];
        let mut labs: Vec<String> = vec![];
        for x in toks {
            labs.push(x.to_string());
            for y in toks {
                labs.push(format!("{}{}", x, y));
                for z in toks {
                    labs.push(format!("{}{}{}", x, y, z));
                }
            }
        }
        labs.sort();
        labs.dedup();
        // all pairs of label pairs with the same comma-joined reading
        let mut joined: std::collections::BTreeMap<String, Vec<(usize, usize)>> = Default::default();
        for (i, x) in labs.iter().enumerate() {
            for (j, y) in labs.iter().enumerate() {
                if i != j {
                    joined.entry(format!("{},{}", x, y)).or_default().push((i, j));
                }
            }
        }
        let mut progs: Vec<Vec<usize>> = vec![];
        for (_, v) in joined {
            for a in 0..v.len() {
                for b in a + 1..v.len() {
                    let set: BTreeSet<usize> = [v[a].0, v[a].1, v[b].0, v[b].1].into_iter().collect();
                    if set.len() == 4 {
                        progs.push(vec![v[a].0, v[a].1, v[b].0, v[b].1]);
                    }
                }
            }
        }
        let stride = if quick { (progs.len() / 400).max(1) } else { 1 };
        let chosen: Vec<Vec<usize>> = progs.iter().skip((run.seed as usize) % stride).step_by(stride).cloned().collect();
        let res = run.par_family(
            &format!("ambiguous-looking label pairs: {} programs of {} (two conditions that read alike without quotes)", chosen.len(), progs.len()),
            chosen.len() as u64,
            || 0u64,
            |st, k| {
                let q = &chosen[k as usize];
                let mut labels: Vec<String> = q.iter().map(|i| labs[*i].clone()).collect();
                labels.push("p".into());
                labels.push("q".into());
                let written: Vec<String> = labels.iter().map(|l| if l.chars().all(|c| c.is_ascii_alphanumeric()) { l.clone() } else { format!("\"{}\"", l) }).collect();
                for op in [0usize, 4] {
                    let mut conds: Vec<Fm> = (0..4).map(|i| if i % 2 == 0 { Fm::Atom(i) } else { Fm::not(Fm::Atom(i)) }).collect();
                    conds.push(Fm::bin(op, Fm::Atom(0), Fm::Atom(1)));
                    conds.push(Fm::bin(op, Fm::Atom(2), Fm::Atom(3)));
                    let l = LargeAdf { labels: labels.clone(), written: written.clone(), conds: conds.clone(), shape: "ambiguous" };
                    let text = l.text(None, ("", "", ""));
                    *st += 1;
                    for (kind, msg) in program_case(&labels, &conds, &text, 0, &l.grounded()) {
                        run.violation(&kind, format!("{} on {}", msg, text), json!({"type": "ambiguous", "text": text, "labels": labels}));
                    }
                }
            },
            &|k| json!({"type": "ambiguous", "index": k}),
        );
        for st in res {
            run.add_counts(st, st * 4, st, 0);
        }
    }
    // labels with characters biodivine reserves (known finding K2): native must work, the bridge is recorded
    let reserved = ["a (", "x&y", "p|q", "n!", "e=f", "l<r", "q?", "k:v", "u^v", "g>h", "r)", "b_", "_62_", "a_20_b", "_"];
    for (i, lab) in reserved.iter().enumerate() {
        let labels = vec![lab.to_string(), "b".to_string()];
        let conds = vec![Fm::not(Fm::Atom(1)), Fm::bin(1, Fm::Atom(0), Fm::Atom(1))];
        let written = vec![format!("\"{}\"", lab), "b".to_string()];
        let text = format!("s({}).s(b).ac({},{}).ac(b,{}).", written[0], written[0], conds[0].text(&written, ("", "")), conds[1].text(&written, ("", "")));
        let tts = vec![conds[0].tt(2), conds[1].tt(2)];
        for (kind, msg) in program_case(&labels, &conds, &text, i % 3, &grounded(&tts)) {
            run.violation(&kind, format!("{} on {}", msg, text), json!({"type": "small", "text": text, "tts": tts, "sorting": i % 3, "labels": labels}));
        }
        run.add_counts(1, 4, 1, 0);
    }
    run.extra("states_are", json!("programs (input x sorting)"));
    run.extra("transitions_are", json!("compiled objects validated (program x pipeline)"));
}

/// programs at scale (exact validation against an independent reference BDD, see refbdd.rs); returns the findings
pub fn scale_programs(run: &Run) -> Vec<(String, String)> {
    let quick = run.quick();
    let found: std::sync::Mutex<Vec<(String, String)>> = std::sync::Mutex::new(vec![]);
    // (a) z = OR_i (x_i & y_i) with all x declared before all y: the diagram of z has 2^(m+1) nodes
    // (b) a ladder of 300 statements: variable indices beyond 255 occur in conditions
    let mut big: Vec<(String, Vec<String>, Vec<Fm>, Vec<u8>, bool)> = vec![];
    for m in if quick { vec![10usize, 16] } else { vec![10, 14, 16, 17] } {
        let n = 2 * m + 1;
        let mut labels: Vec<String> = (0..m).map(|i| format!("x{}", i)).collect();
        labels.extend((0..m).map(|i| format!("y{}", i)));
        labels.push("z".into());
        let mut conds: Vec<Fm> = (0..2 * m).map(Fm::Atom).collect();
        let mut f = Fm::bin(0, Fm::Atom(0), Fm::Atom(m));
        for i in 1..m {
            f = Fm::bin(1, f, Fm::bin(0, Fm::Atom(i), Fm::Atom(m + i)));
        }
        conds.push(f);
        // native compilation of the widest instances takes minutes (the documented weakness of the naive algorithm):
        // they are validated through the bridge only
        big.push((format!("OR of {} products, bad order ({} statements)", m, n), labels, conds, vec![U; n], m <= 10));
    }
    {
        let n = 300usize;
        let labels: Vec<String> = (0..n).map(|i| format!("n{}", i)).collect();
        let mut conds = vec![];
        for i in 0..n {
            let (p, q, r) = (Fm::Atom((i + n - 1) % n), Fm::Atom((i + 7) % n), Fm::Atom((i + 150) % n));
            conds.push(match i % 5 {
                0 => Fm::bin(0, p, Fm::bin(1, q, Fm::not(r))),
                1 => Fm::bin(4, q, r),
                2 => Fm::bin(2, r, Fm::bin(3, p, q)),
                3 => Fm::not(Fm::bin(1, p, r)),
                _ => Fm::bin(1, Fm::bin(0, p.clone(), q), Fm::bin(0, Fm::not(p), r)),
            });
        }
        let l = LargeAdf { labels: labels.clone(), written: labels.clone(), conds: conds.clone(), shape: "ladder300" };
        let g = l.grounded();
        big.push(("ladder of 300 statements".into(), labels, conds, g, true));
    }
    let res = run.par_family(
        &format!("programs at scale: {} (exact comparison with a reference BDD)", big.len()),
        big.len() as u64,
        || 0u64,
        |st, k| {
            let (name, labels, conds, g, native) = &big[k as usize];
            let l = LargeAdf { labels: labels.clone(), written: labels.clone(), conds: conds.clone(), shape: "big" };
            let text = l.text(None, ("\n", "", ""));
            *st += 1;
            run.heartbeat();
            for (kind, msg) in program_case_sel(labels, conds, &text, 0, g, *native) {
                found.lock().unwrap().push((kind, format!("{} on program '{}'", msg, name)));
            }
        },
        &|k| json!({"type": "big", "index": k}),
    );
    for st in res {
        run.add_counts(st, st * 4, st, st);
    }
    found.into_inner().unwrap()
}

pub fn replay(c: &Value) -> Vec<(String, String)> {
    let sorting = c["sorting"].as_u64().unwrap_or(0) as usize;
    if c["type"] == "big" {
        let run = Run::new("C09", Tier::Quick, 0);
        return scale_programs(&run);
    }
    if c["type"] == "large" {
        let l = large(c["index"].as_u64().unwrap_or(0));
        let text = l.text(None, ("\n", "", " "));
        return program_case(&l.labels, &l.conds, &text, sorting, &l.grounded());
    }
    // small programs: conditions are re-read from the text through the independent recogniser is overkill; the
    // truth tables are stored, so rebuild DNF conditions denoting them (same functions, the text is replayed verbatim)
    let tts: Vec<TT> = c["tts"].as_array().map(|a| a.iter().map(|x| x.as_u64().unwrap_or(0) as TT).collect()).unwrap_or_default();
    let n = tts.len();
    let labels: Vec<String> = c["labels"].as_array().map(|a| a.iter().map(|x| x.as_str().unwrap_or("").to_string()).collect()).unwrap_or_else(|| names(n));
    let conds: Vec<Fm> = tts.iter().map(|t| write_fm(*t, n, 0)).collect();
    program_case(&labels, &conds, c["text"].as_str().unwrap_or(""), sorting, &grounded(&tts))
}
