//! C10: answers do not depend on presentation (fact order, sorting, layout, naming).

use crate::bddx::conv;
use crate::fam::*;
use crate::large::*;
use crate::oracle::*;
use crate::report::*;
use crate::src_adf::*;
use adf_bdd::adf::heuristics::Heuristic;
use adf_bdd::adf::Adf;
use adf_bdd::adfbiodivine::Adf as BdAdf;
use adf_bdd::datatypes::{Term, Var};
use adf_bdd::parser::AdfParser;
use serde_json::{json, Value};
use std::collections::BTreeSet;

const STEP_BUDGET: u64 = 5_000_000;

pub const RENAMINGS: usize = 9;

/// renamings of the base labels a, b, c, d: (written, label)
fn renaming(r: usize) -> Vec<(String, String)> {
    let q = |s: &str| (format!("\"{}\"", s), s.to_string());
    let p = |s: &str| (s.to_string(), s.to_string());
    match r % RENAMINGS {
        // labels that are images of each other under the escaping used for biodivine variable names
        6 => vec![q("a b"), q("a_20_b"), q("_"), q("a_5f_b")],
        // prefixes and case variants of each other
        7 => vec![p("ab"), p("a"), p("Ab"), p("aB")],
        // labels that read like formulas over the other labels (as written and as the library renders them)
        8 => vec![p("x"), q("not(x)"), q("and(x,not(x))"), q("neg(x)")],
        0 => vec![p("a"), p("b"), p("c"), p("d")],
        1 => vec![p("a10"), p("a9"), p("B"), p("b0")],
        2 => vec![p("10"), p("9"), q("x y"), p("Z")],
        3 => vec![p("c"), p("a"), p("b"), p("d")],
        4 => vec![p("and"), p("or"), p("neg"), p("c")],
        _ => vec![q("b("), q("a&"), q("?:"), q("=")],
    }
}

fn kth_perm(n: usize, mut k: u64) -> Vec<usize> {
    let mut idx: Vec<usize> = (0..n).collect();
    let mut perm = vec![];
    for r in (1..=n).rev() {
        let f: u64 = (1..r as u64).product();
        perm.push(idx.remove((k / f) as usize));
        k %= f;
    }
    perm
}

/// the fixed list of 14 permutations for larger fact lists (m facts, the first half are the s facts)
fn fixed_perm(m: usize, k: usize) -> Vec<usize> {
    let id: Vec<usize> = (0..m).collect();
    let h = m / 2;
    match k % 14 {
        0 => id,
        1 => id.into_iter().rev().collect(),
        2 => (0..m).map(|i| (i + 1) % m).collect(),
        3 => (0..m).map(|i| (i + h) % m).collect(),
        4 => (0..m).map(|i| (i + m - 1) % m).collect(),
        5 => (h..m).chain(0..h).collect(),               // all ac first
        6 => (0..h).flat_map(|i| [i, i + h]).collect(),  // interleaved s, ac
        7 => (0..h).flat_map(|i| [i + h, i]).collect(),  // interleaved ac, s
        8 => (0..h).rev().chain(h..m).collect(),         // s reversed
        9 => (0..h).chain((h..m).rev()).collect(),       // ac reversed
        10 => (0..m).map(|i| (i * 5 + 3) % m).collect::<BTreeSet<_>>().len().eq(&m).then(|| (0..m).map(|i| (i * 5 + 3) % m).collect()).unwrap_or_else(|| (0..m).rev().collect()),
        11 => (0..m).map(|i| (i * 7 + 1) % m).collect::<BTreeSet<_>>().len().eq(&m).then(|| (0..m).map(|i| (i * 7 + 1) % m).collect()).unwrap_or_else(|| (0..m).collect()),
        12 => (0..h).flat_map(|i| [h - 1 - i, m - 1 - i]).collect(),
        _ => (h..m).rev().chain((0..h).rev()).collect(),
    }
}

pub struct Answers {
    pub grounded: Vec<Interp>,      // one per back-end that was asked
    pub complete: Vec<Vec<Interp>>, // sorted multisets
    pub stable: Vec<Vec<Interp>>,
    pub twoval: Vec<Vec<Interp>>,
}

/// runs all back-ends on one presentation; models are returned in BASE order (index = base statement)
#[allow(clippy::too_many_arguments)]
fn present(text: &str, sorting: usize, base_of_label: &dyn Fn(&str) -> Option<usize>, n: usize, do_complete: bool, do_stable: bool, out: &mut Vec<(String, String)>) -> Option<Answers> {
    let parser = AdfParser::default();
    match guard(|| parser.parse()(text).is_ok()) {
        Ok(true) => {}
        other => {
            out.push(("parse".into(), format!("presentation rejected: {:?}", other)));
            return None;
        }
    }
    match sorting {
        1 => {
            parser.varsort_lexi();
            let names = parser.var_container().names().read().unwrap().clone();
            let mut sorted = names.clone();
            sorted.sort_by(|a, b| a.as_bytes().cmp(b.as_bytes()));
            if names != sorted {
                out.push(("lexi:not-bytewise".into(), format!("after varsort_lexi the statements are {:?}", names)));
            }
            for (i, nm) in names.iter().enumerate() {
                if parser.dict_value(nm) != Some(i) {
                    out.push(("lexi:dictionary".into(), format!("dict_value({:?}) = {:?} but the statement is at position {}", nm, parser.dict_value(nm), i)));
                }
            }
        }
        2 => {
            parser.varsort_alphanum();
            let names = parser.var_container().names().read().unwrap().clone();
            for (i, nm) in names.iter().enumerate() {
                if parser.dict_value(nm) != Some(i) {
                    out.push(("alphanum:dictionary".into(), format!("dict_value({:?}) = {:?} but the statement is at position {}", nm, parser.dict_value(nm), i)));
                }
            }
        }
        _ => {}
    }
    let mut ans = Answers { grounded: vec![], complete: vec![], stable: vec![], twoval: vec![] };
    // maps a model (by variable index) to base order through the labels of the object that produced it
    let to_base = |name_of: &dyn Fn(usize) -> Option<String>, m: &[Term], out: &mut Vec<(String, String)>| -> Option<Interp> {
        if m.len() != n {
            out.push(("answer:length".into(), format!("interpretation with {} entries for {} statements", m.len(), n)));
            return None;
        }
        let c = conv(m);
        let mut v = vec![9u8; n];
        for i in 0..n {
            let b = name_of(i).and_then(|l| base_of_label(&l))?;
            v[b] = c[i];
        }
        if v.contains(&9) {
            out.push(("answer:labels".into(), "the labels of the object are not the declared statements".into()));
            return None;
        }
        Some(v)
    };
    let list = |name_of: &dyn Fn(usize) -> Option<String>, ms: &[Vec<Term>], out: &mut Vec<(String, String)>| -> Option<Vec<Interp>> {
        let mut v = vec![];
        for m in ms {
            v.push(to_base(name_of, m, out)?);
        }
        v.sort();
        Some(v)
    };
    adf_bdd::verif::set_budget(Some(STEP_BUDGET));
    let r = guard(|| {
        let mut o: Vec<(String, String)> = vec![];
        let mut a = Answers { grounded: vec![], complete: vec![], stable: vec![], twoval: vec![] };
        // native
        let mut adf = Adf::from_parser(&parser);
        let ord = adf.ordering.clone();
        let nm = move |i: usize| ord.name(Var(i));
        if let Some(g) = to_base(&nm, &adf.grounded(), &mut o) {
            a.grounded.push(g);
        }
        if do_complete {
            if let Some(l) = list(&nm, &adf.complete().collect::<Vec<_>>(), &mut o) {
                a.complete.push(l);
            }
        }
        if do_stable {
            if let Some(l) = list(&nm, &adf.stable_nogood(Heuristic::Simple).collect::<Vec<_>>(), &mut o) {
                a.stable.push(l);
            }
            if do_complete {
                if let Some(l) = list(&nm, &adf.stable().collect::<Vec<_>>(), &mut o) {
                    a.stable.push(l);
                }
            }
            let (s, r) = crossbeam_channel::unbounded();
            adf.two_val_nogood_channel(Heuristic::MinModMinPathsMaxVarImp, s);
            if let Some(l) = list(&nm, &r.try_iter().collect::<Vec<_>>(), &mut o) {
                a.twoval.push(l);
            }
        }
        // biodivine (labels are those of the parser's container)
        let bd = BdAdf::from_parser(&parser);
        let vc = parser.var_container();
        let nm2 = move |i: usize| vc.name(Var(i));
        if let Some(g) = to_base(&nm2, &bd.grounded(), &mut o) {
            a.grounded.push(g);
        }
        if do_complete {
            if let Some(l) = list(&nm2, &bd.complete().collect::<Vec<_>>(), &mut o) {
                a.complete.push(l);
            }
            if do_stable {
                if let Some(l) = list(&nm2, &bd.stable().collect::<Vec<_>>(), &mut o) {
                    a.stable.push(l);
                }
            }
        }
        // single-formula rewriting variants (candidates from the rewriting built at construction time)
        if do_stable && do_complete {
            let bd2 = BdAdf::from_parser_with_stm_rewrite(&parser);
            if let Some(l) = list(&nm2, &bd2.stable_bdd_representation(), &mut o) {
                a.stable.push(l);
            }
            let mut nat = Adf::from_parser(&parser);
            let ord = nat.ordering.clone();
            let nm4 = move |i: usize| ord.name(Var(i));
            if let Some(l) = list(&nm4, &nat.stable_bdd_representation(&bd2), &mut o) {
                a.stable.push(l);
            }
            if let Some(l) = list(&nm2, &bd.stable_bdd_representation(), &mut o) {
                a.stable.push(l);
            }
        }
        // hybrid
        let mut hy = bd.hybrid_step();
        let ord = hy.ordering.clone();
        let nm3 = move |i: usize| ord.name(Var(i));
        if let Some(g) = to_base(&nm3, &hy.grounded(), &mut o) {
            a.grounded.push(g);
        }
        if do_complete {
            if let Some(l) = list(&nm3, &hy.complete().collect::<Vec<_>>(), &mut o) {
                a.complete.push(l);
            }
        }
        if do_stable {
            if let Some(l) = list(&nm3, &hy.stable_nogood(Heuristic::MinModMaxVarImpMinPaths).collect::<Vec<_>>(), &mut o) {
                a.stable.push(l);
            }
            let (s, r) = crossbeam_channel::unbounded();
            hy.two_val_nogood_channel(Heuristic::Simple, s);
            if let Some(l) = list(&nm3, &r.try_iter().collect::<Vec<_>>(), &mut o) {
                a.twoval.push(l);
            }
        }
        // the same parser object sorted again (the other way) and a new object built from it: still the same answers
        if sorting != 2 {
            parser.varsort_alphanum();
        } else {
            parser.varsort_lexi();
        }
        let mut again = Adf::from_parser(&parser);
        let ord = again.ordering.clone();
        let nm5 = move |i: usize| ord.name(Var(i));
        if let Some(g) = to_base(&nm5, &again.grounded(), &mut o) {
            a.grounded.push(g);
        }
        if do_stable && do_complete {
            if let Some(l) = list(&nm5, &again.stable().collect::<Vec<_>>(), &mut o) {
                a.stable.push(l);
            }
        }
        let bd3 = BdAdf::from_parser(&parser);
        let vc3 = parser.var_container();
        let nm6 = move |i: usize| vc3.name(Var(i));
        if let Some(g) = to_base(&nm6, &bd3.grounded(), &mut o) {
            a.grounded.push(g);
        }
        (a, o)
    });
    adf_bdd::verif::set_budget(None);
    match r {
        Err(m) => {
            out.push((if m.contains(adf_bdd::verif::BUDGET_EXHAUSTED) { "answer:nontermination" } else { "answer:panic" }.into(), m));
            None
        }
        Ok((a, o)) => {
            out.extend(o);
            ans.grounded = a.grounded;
            ans.complete = a.complete;
            ans.stable = a.stable;
            ans.twoval = a.twoval;
            Some(ans)
        }
    }
}

fn show(v: &[Interp]) -> Vec<String> {
    v.iter().map(|x| interp_str(x)).collect()
}

/// compares the answers of a presentation with the reference answers
fn compare(a: &Answers, want_g: &Interp, want_c: Option<&Vec<Interp>>, want_s: Option<&Vec<Interp>>, want_2: Option<&Vec<Interp>>, out: &mut Vec<(String, String)>) {
    for g in &a.grounded {
        if g != want_g {
            out.push(("differs:grounded".into(), format!("grounded reads {} (label by label), expected {}", interp_str(g), interp_str(want_g))));
        }
    }
    if let Some(w) = want_c {
        for c in &a.complete {
            if c != w {
                out.push(("differs:complete".into(), format!("complete models read {:?}, expected {:?}", show(c), show(w))));
            }
        }
    }
    if let Some(w) = want_s {
        for c in &a.stable {
            if c != w {
                out.push(("differs:stable".into(), format!("stable models read {:?}, expected {:?}", show(c), show(w))));
            }
        }
    }
    if let Some(w) = want_2 {
        for c in &a.twoval {
            if c != w {
                out.push(("differs:two-valued".into(), format!("two-valued models read {:?}, expected {:?}", show(c), show(w))));
            }
        }
    }
}

/// text of a small ADF under a presentation
fn small_text(fms: &[Fm], ren: &[(String, String)], perm: &[usize], ws: (&str, &str, &str)) -> String {
    let n = fms.len();
    let written: Vec<String> = ren.iter().take(n).map(|x| x.0.clone()).collect();
    let mut t = String::new();
    for k in perm {
        if *k < n {
            t += &format!("s({}).{}", written[*k], ws.0);
        } else {
            let i = k - n;
            t += &format!("ac({}{},{}{}).{}", written[i], ws.1, ws.2, fms[i].text(&written, (ws.1, ws.2)), ws.0);
        }
    }
    t
}

pub fn small_variant(fms: &[Fm], tts: &[TT], perm: &[usize], sorting: usize, r: usize, layout: usize) -> (String, Vec<(String, String)>) {
    let n = tts.len();
    let ren = renaming(r);
    let ws = if layout == 0 { ("", "", "") } else { ("\n", " ", "\t") };
    let text = small_text(fms, &ren, perm, ws);
    let mut out = vec![];
    let labels: Vec<String> = ren.iter().take(n).map(|x| x.1.clone()).collect();
    let base = |l: &str| labels.iter().position(|x| x == l);
    if let Some(a) = present(&text, sorting, &base, n, true, true, &mut out) {
        let g = grounded(tts);
        let c: Vec<Interp> = complete(tts).into_iter().collect();
        let s: Vec<Interp> = stable(tts).into_iter().collect();
        let t: Vec<Interp> = models2(tts).into_iter().collect();
        compare(&a, &g, Some(&c), Some(&s), Some(&t), &mut out);
    }
    (text, out)
}

pub fn large_variant(l: &LargeAdf, k: usize, sorting: usize, reference: &mut Option<(Interp, Option<Vec<Interp>>, Option<Vec<Interp>>, Option<Vec<Interp>>)>) -> Vec<(String, String)> {
    let n = l.labels.len();
    let perm = fixed_perm(2 * n, k);
    let ws = if k % 2 == 0 { ("", "", "") } else { ("\n", " ", " ") };
    let text = l.text(Some(&perm), ws);
    let mut out = vec![];
    let g = l.grounded();
    let u = g.iter().filter(|x| **x == U).count();
    let base = |lab: &str| l.labels.iter().position(|x| x == lab);
    let (do_c, do_s) = (u <= 5, u <= 9);
    if let Some(a) = present(&text, sorting, &base, n, do_c, do_s, &mut out) {
        if reference.is_none() {
            // the first presentation is the reference; its grounded interpretation is checked against the definition
            *reference = Some((g.clone(), a.complete.first().cloned(), a.stable.first().cloned(), a.twoval.first().cloned()));
        }
        let r = reference.as_ref().unwrap();
        compare(&a, &r.0, r.1.as_ref(), r.2.as_ref(), r.3.as_ref(), &mut out);
    }
    out
}

/// an instance whose diagram size depends on the variable order: z = OR_i (x_i & y_i), declared interleaved
/// (x01, y01, x02, ...: about 2m nodes) - sorting moves all x before all y (2^(m+1) nodes). Bridged back-ends only
/// (the naive compiler needs minutes for the sorted order). The grounded interpretation leaves everything undecided.
pub fn order_sensitive_case(m: usize) -> Vec<(String, String)> {
    let mut out = vec![];
    let mut labels = vec![];
    for i in 1..=m {
        labels.push(format!("x{:02}", i));
        labels.push(format!("y{:02}", i));
    }
    labels.push("z".to_string());
    let n = labels.len();
    let mut text = String::new();
    for l in &labels {
        text += &format!("s({}).", l);
    }
    for i in 0..m {
        text += &format!("ac(x{:02},x{:02}).ac(y{:02},y{:02}).", i + 1, i + 1, i + 1, i + 1);
    }
    let mut f = format!("and(x{:02},y{:02})", 1, 1);
    for i in 2..=m {
        f = format!("or({},and(x{:02},y{:02}))", f, i, i);
    }
    text += &format!("ac(z,{}).", f);
    for sorting in 0..3 {
        let r = guard(|| {
            let parser = AdfParser::default();
            parser.parse()(&text).expect("well-formed");
            match sorting {
                1 => {
                    parser.varsort_lexi();
                }
                2 => {
                    parser.varsort_alphanum();
                }
                _ => {}
            }
            let bd = BdAdf::from_parser(&parser);
            let g1 = bd.grounded();
            let mut hy = bd.hybrid_step();
            let g2 = hy.grounded();
            let mut h2 = bd.hybrid_step_opt(false);
            let g3 = h2.grounded();
            let names: Vec<String> = parser.var_container().names().read().unwrap().clone();
            (names, vec![g1, g2, g3], hy.bdd.nodes.len().max(h2.bdd.nodes.len()))
        });
        let sname = ["unsorted", "varsort_lexi", "varsort_alphanum"][sorting];
        match r {
            Err(m) => out.push((format!("order-sensitive[{}]:panic", sname), m)),
            Ok((names, gs, _size)) => {
                let mut sorted_names = names.clone();
                sorted_names.sort();
                let mut all = labels.clone();
                all.sort();
                if sorted_names != all {
                    out.push((format!("order-sensitive[{}]:labels", sname), "the statements of the object are not the declared ones".into()));
                }
                for g in gs {
                    if g.len() != n || g.iter().any(|t| t.is_truth_value()) {
                        out.push((format!("order-sensitive[{}]:grounded", sname), format!("grounded is {:?}, every statement is undecided by definition", conv(&g))));
                    }
                }
            }
        }
    }
    out
}

pub fn run_c10(run: &Run) {
    writers_selfcheck();
    run.set_rule("base ADFs: A(2), F(3,1), F(3,2) (thorough: + a residue class of A(3)) and the large family L (12-48 statements). Presentations: all permutations of the fact list for <= 6 facts (A(2): all 24 x 3 sortings x 9 renamings x 2 layouts; F(3,1): all 720 with sorting/renaming/layout as a fixed function of the permutation index), a fixed list of 14 permutations otherwise (identity, reverse, rotations, all ac first, interleaved, strided); sorting none / varsort_lexi / varsort_alphanum; two layouts; nine injective renamings chosen to reorder under both sortings (a10/a9/B, digits, quoted, permuted names, keywords, reserved characters, labels that are escape images of each other, prefixes and case variants of each other, labels that read like formulas over the other labels); back-ends native, biodivine, hybrid. Grounded interpretation and the multisets of complete, stable and two-valued models are read as maps label -> T/F/u, mapped back through the renaming and compared with the definition (small ADFs) or with the first presentation (large ADFs; grounded also with the definition). After varsort_lexi the labels are byte-wise sorted and dict_value(label) is the position. Non-trivial: presentations other than the identity.");
    run.assume("large instances: complete models only if the grounded interpretation leaves <= 5 statements undecided, stable/two-valued only if <= 9");
    let quick = run.quick();
    // A(2): everything
    let a2 = Source::Fam(fam_a(2));
    let per = 24 * 3 * RENAMINGS as u64 * 2;
    let res = run.par_family(
        "A(2) x 24 fact orders x 3 sortings x 9 renamings x 2 layouts",
        a2.size() * per,
        || (0u64, 0u64),
        |st, k| {
            let c = a2.get(k / per);
            let v = k % per;
            let (p, s, r, l) = (v % 24, (v / 24 % 3) as usize, (v / 72 % RENAMINGS as u64) as usize, (v / (72 * RENAMINGS as u64)) as usize);
            st.0 += 1;
            if v != 0 {
                st.1 += 1;
            }
            let (text, found) = small_variant(&c.fms, &c.tts, &kth_perm(4, p), s, r, l);
            for (kind, msg) in found {
                run.violation(&kind, format!("{} on presentation {:?} (sorting {})", msg, text, s), json!({"type": "small-variant", "tts": c.tts, "perm": kth_perm(4, p), "sorting": s, "renaming": r, "layout": l, "text": text}));
            }
        },
        &|k| json!({"type": "small-variant", "index": k}),
    );
    for st in res {
        run.add_counts(st.0, st.0 * 11, st.0, st.1);
    }
    // F(3,1): all 720 orders
    let f31 = Source::FamCompact(fam_f(3, 1));
    let res = run.par_family(
        "F(3,1) x all 720 fact orders (sorting, renaming, layout cycled with the order)",
        f31.size() * 720,
        || (0u64, 0u64),
        |st, k| {
            let c = f31.get(k / 720);
            let p = k % 720;
            let (s, r, l) = ((p % 3) as usize, (p / 3 % RENAMINGS as u64) as usize, (p / (3 * RENAMINGS as u64) % 2) as usize);
            st.0 += 1;
            st.1 += (p != 0) as u64;
            let (text, found) = small_variant(&c.fms, &c.tts, &kth_perm(6, p), s, r, l);
            for (kind, msg) in found {
                run.violation(&kind, format!("{} on presentation {:?} (sorting {})", msg, text, s), json!({"type": "small-variant", "tts": c.tts, "perm": kth_perm(6, p), "sorting": s, "renaming": r, "layout": l, "text": text}));
            }
        },
        &|k| json!({"type": "small-variant", "index": k}),
    );
    for st in res {
        run.add_counts(st.0, st.0 * 11, st.0, st.1);
    }
    // literally written conditions (bare atoms, bare negations ...) under the renamings that make labels read like
    // formulas, escape images or each other's prefixes
    {
        let src = Source::Literal3;
        let rens = [0usize, 6, 7, 8];
        let per = 4 * 3 * rens.len() as u64;
        let res = run.par_family(
            &format!("{} x 4 fact orders x 3 sortings x {} renamings", src.name(), rens.len()),
            src.size() * per,
            || (0u64, 0u64),
            |st, k| {
                let c = src.get(k / per);
                let v = k % per;
                let (p, s, r) = ([0usize, 1, 5, 9][(v % 4) as usize], (v / 4 % 3) as usize, rens[(v / 12) as usize]);
                st.0 += 1;
                st.1 += (p != 0) as u64;
                let perm = fixed_perm(6, p);
                let (text, found) = small_variant(&c.fms, &c.tts, &perm, s, r, 0);
                for (kind, msg) in found {
                    run.violation(&kind, format!("{} on presentation {:?} (sorting {})", msg, text, s), json!({"type": "small-variant", "tts": c.tts, "perm": perm, "sorting": s, "renaming": r, "layout": 0, "text": text, "literal3": k / per}));
                }
            },
            &|k| json!({"type": "small-variant", "index": k}),
        );
        for st in res {
            run.add_counts(st.0, st.0 * 11, st.0, st.1);
        }
    }
    // F(3,2) (and S_seed): 14 fixed orders
    let mut srcs = vec![Source::FamCompact(fam_f(3, 2))];
    if !quick {
        srcs.push(Source::FamCompact(fam_s(run.seed)));
        srcs.push(Source::FamCompact(fam_f(4, 1)));
    }
    for src in srcs {
        let np = if quick { 7 } else { 14 };
        let res = run.par_family(
            &format!("{} x {} fixed fact orders (sorting, renaming, layout cycled)", src.name(), np),
            src.size() * np,
            || (0u64, 0u64),
            |st, k| {
                let c = src.get(k / np);
                let p = if quick { ((k % np) * 2 + (k / np) % 2) as usize } else { (k % np) as usize };
                let (s, r, l) = (p % 3, (p + (k / np) as usize) % RENAMINGS, p / 7 % 2);
                st.0 += 1;
                st.1 += (p != 0) as u64;
                let perm = fixed_perm(2 * c.tts.len(), p);
                let (text, found) = small_variant(&c.fms, &c.tts, &perm, s, r, l);
                for (kind, msg) in found {
                    run.violation(&kind, format!("{} on presentation {:?} (sorting {})", msg, text, s), json!({"type": "small-variant", "tts": c.tts, "perm": perm, "sorting": s, "renaming": r, "layout": l, "text": text}));
                }
            },
            &|k| json!({"type": "small-variant", "index": k}),
        );
        for st in res {
            run.add_counts(st.0, st.0 * 11, st.0, st.1);
        }
    }
    // large family
    let nl: u64 = if quick { 54 } else { 540 };
    let res = run.par_family(
        &format!("large family L: {} instances x 14 fact orders x 3 sortings", nl),
        nl,
        || (0u64, 0u64, BTreeSet::<u64>::new()),
        |st, i| {
            let idx = i + run.seed * 1000;
            let l = large(idx);
            let mut reference = None;
            for k in 0..14 {
                for s in 0..3 {
                    st.0 += 1;
                    st.1 += 1;
                    for (kind, msg) in large_variant(&l, k, s, &mut reference) {
                        run.violation(&kind, format!("{} on large instance #{} ({} statements, {}), fact order {} sorting {}", msg, idx, l.labels.len(), l.shape, k, s), json!({"type": "large-variant", "index": idx, "order": k, "sorting": s}));
                    }
                }
            }
            if let Some(r) = &reference {
                st.2.insert(hash64(&r.0) ^ (r.2.as_ref().map(|x| x.len()).unwrap_or(99) as u64));
            }
        },
        &|i| json!({"type": "large-variant", "index": i + run.seed * 1000, "order": 0, "sorting": 0}),
    );
    for st in res {
        run.add_counts(st.0, st.0 * 7, st.0, st.1);
        run.add_outcomes(st.2);
    }
    // order-sensitive size
    let ms: Vec<usize> = if quick { vec![8, 16] } else { vec![8, 12, 16, 17] };
    let res = run.par_family(
        "order-sensitive instances: z = OR of m products, interleaved declaration vs. sorted order (up to 2^18 nodes), bridged back-ends",
        ms.len() as u64,
        || 0u64,
        |st, k| {
            *st += 3;
            run.heartbeat();
            for (kind, msg) in order_sensitive_case(ms[k as usize]) {
                run.violation(&kind, format!("{} (m = {})", msg, ms[k as usize]), json!({"type": "order-sensitive", "m": ms[k as usize]}));
            }
        },
        &|k| json!({"type": "order-sensitive", "m": ms[k as usize]}),
    );
    for st in res {
        run.add_counts(st, st * 3, st, st);
    }
    let c = a2.get(97);
    run.sample(json!({"type": "small-variant", "text": small_variant(&c.fms, &c.tts, &kth_perm(4, 17), 1, 1, 1).0, "sorting": "lexicographic"}));
    run.sample(json!({"type": "large-variant", "index": run.seed * 1000 + 5, "order": 5, "sorting": 2}));
    run.extra("states_are", json!("presentations (text x sorting) executed on all back-ends"));
    run.extra("transitions_are", json!("semantics calls whose answers were read label by label and compared"));
}

pub fn replay(c: &Value) -> Vec<(String, String)> {
    if c["type"] == "order-sensitive" {
        return order_sensitive_case(c["m"].as_u64().unwrap_or(8) as usize);
    }
    if c["type"] == "large-variant" {
        let l = large(c["index"].as_u64().unwrap_or(0));
        let mut reference = None;
        let mut out = large_variant(&l, 0, 0, &mut reference);
        out.extend(large_variant(&l, c["order"].as_u64().unwrap_or(0) as usize, c["sorting"].as_u64().unwrap_or(0) as usize, &mut reference));
        return out;
    }
    let tts: Vec<TT> = c["tts"].as_array().map(|a| a.iter().map(|x| x.as_u64().unwrap_or(0) as TT).collect()).unwrap_or_default();
    let n = tts.len();
    let fms: Vec<Fm> = match c["literal3"].as_u64() {
        Some(idx) => Source::Literal3.get(idx).fms,
        None => tts.iter().map(|t| write_fm(*t, n, 5)).collect(),
    };
    let perm: Vec<usize> = c["perm"].as_array().map(|a| a.iter().map(|x| x.as_u64().unwrap_or(0) as usize).collect()).unwrap_or_default();
    small_variant(&fms, &tts, &perm, c["sorting"].as_u64().unwrap_or(0) as usize, c["renaming"].as_u64().unwrap_or(0) as usize, c["layout"].as_u64().unwrap_or(0) as usize).1
}
