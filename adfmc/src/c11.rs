//! C11: cache transparency, handle stability and determinism across call histories.

use crate::adfcalls::*;
use crate::fam::*;
use crate::oracle::*;
use crate::report::*;
use crate::src_adf::*;
use crate::store::*;
use adf_bdd::adf::heuristics::Heuristic;
use adf_bdd::adf::Adf;
use adf_bdd::datatypes::Term;
use adf_bdd::adfbiodivine::Adf as BdAdf;
use adf_bdd::parser::AdfParser;
use serde_json::{json, Value};

const STEP_BUDGET: u64 = 200_000;

fn build(parser: &AdfParser, bridged: bool) -> Adf {
    if bridged {
        BdAdf::from_parser(parser).hybrid_step_opt(false)
    } else {
        Adf::from_parser(parser)
    }
}

fn run_seq(parser: &AdfParser, bridged: bool, seq: &[usize], n: usize) -> Result<(Adf, Vec<Raw>, Vec<Norm>), String> {
    adf_bdd::verif::set_budget(Some(STEP_BUDGET));
    let r = guard(|| {
        let mut adf = build(parser, bridged);
        let mut raws = vec![];
        let mut norms = vec![];
        for c in seq {
            let raw = exec(&mut adf, *c);
            let nm = normalise(&adf, &raw, n);
            raws.push(raw);
            norms.push(nm);
        }
        (adf, raws, norms)
    });
    adf_bdd::verif::set_budget(None);
    let (adf, raws, norms) = r?;
    let mut ns = vec![];
    for nm in norms {
        ns.push(nm?);
    }
    Ok((adf, raws, ns))
}

pub fn seq_case(text: &str, tts: &[TT], bridged: bool, seq: &[usize], fresh: &mut Vec<Option<Norm>>, double: bool) -> Vec<(String, String)> {
    seq_case_n(text, tts.len(), bridged, seq, fresh, double)
}

/// the same for any number of statements (functions of handles are identified by structural signatures beyond five)
pub fn seq_case_n(text: &str, n: usize, bridged: bool, seq: &[usize], fresh: &mut Vec<Option<Norm>>, double: bool) -> Vec<(String, String)> {
    let mut out = vec![];
    let parser = AdfParser::default();
    if !crate::fam::parse_into(&parser, text) {
        return vec![("parse".into(), "well-formed input rejected".into())];
    }
    let names: Vec<&str> = seq.iter().map(|c| CALL_NAMES[*c]).collect();
    let (adf, raws, norms) = match run_seq(&parser, bridged, seq, n) {
        Ok(x) => x,
        Err(m) => {
            let kind = if m.contains(adf_bdd::verif::BUDGET_EXHAUSTED) { "sequence:nontermination" } else { "sequence:panic" };
            return vec![(kind.into(), format!("{} in call sequence {:?}", m, names))];
        }
    };
    // handles issued earlier still denote the same functions
    for (i, raw) in raws.iter().enumerate() {
        match normalise(&adf, raw, n) {
            Ok(now) => {
                if now != norms[i] {
                    out.push(("history:handle-changed".into(), format!("the answer of call #{} ({}) reads differently after the later calls of {:?}", i, names[i], names)));
                }
            }
            Err(e) => out.push(("history:handle-lost".into(), e)),
        }
    }
    // the last answer equals the answer of a fresh object
    if let Some(last) = seq.last() {
        if fresh[*last].is_none() {
            match run_seq(&parser, bridged, &[*last], n) {
                Ok((_, _, mut nm)) => fresh[*last] = Some(nm.remove(0)),
                Err(m) => return vec![("fresh:panic".into(), format!("{} in {} on a fresh object", m, CALL_NAMES[*last]))],
            }
        }
        let want = fresh[*last].as_ref().unwrap();
        let got = norms.last().unwrap().clone();
        if &got != want {
            out.push((
                "history:answer-differs".into(),
                format!("{} after {:?} answers {:?}, a fresh object answers {:?}", CALL_NAMES[*last], &names[..names.len() - 1], got, want),
            ));
        }
    }
    // memo tables of the object after the sequence
    {
        let fl = Flags { canonical: true, functions: false, memo: true, queries: false };
        let mut o2 = vec![];
        if n <= 5 {
            check_state(&adf.bdd, n, &fl, &mut o2);
        } else if let Err(e) = crate::bddx::check_structure(&adf.bdd.nodes) {
            o2.push(("store:not-canonical".to_string(), e));
        }
        for (k, m) in o2 {
            out.push((k, format!("{} after call sequence {:?}", m, names)));
        }
    }
    // determinism: the same sequence on a second fresh object, element by element incl. raw handles and order
    if double {
        match run_seq(&parser, bridged, seq, n) {
            Ok((adf2, raws2, _)) => {
                if raws2 != raws {
                    out.push(("determinism:answers".into(), format!("two runs of {:?} on fresh objects differ: {:?} vs {:?}", names, raws, raws2)));
                }
                if adf2.bdd.nodes != adf.bdd.nodes {
                    out.push(("determinism:node-table".into(), format!("two runs of {:?} on fresh objects leave different node tables", names)));
                }
            }
            Err(m) => out.push(("determinism:panic".into(), format!("second run of {:?} failed: {}", names, m))),
        }
    }
    out
}

/// The seed is part of the object's state: `seed(S)` followed by the seeded Rand search gives the same models in the
/// same order on a fresh object, on a re-imported object seeded after the repair step, and on a re-imported object
/// seeded BEFORE the repair step (import, seed, fix_import, search).
pub fn rand_order_case(text: &str) -> Vec<(String, String)> {
    let parser = AdfParser::default();
    if !crate::fam::parse_into(&parser, text) {
        return vec![("parse".into(), "well-formed input rejected".into())];
    }
    let mut out = vec![];
    adf_bdd::verif::set_budget(Some(STEP_BUDGET));
    let r = guard(|| {
        let mut fresh = Adf::from_parser(&parser);
        let json = serde_json::to_string(&fresh).expect("export must work");
        fresh.seed([7; 32]);
        let a: Vec<Vec<Term>> = fresh.stable_nogood(Heuristic::Rand).collect();
        let mut late: Adf = serde_json::from_str(&json).expect("import of an export must work");
        late.fix_import();
        late.seed([7; 32]);
        let b: Vec<Vec<Term>> = late.stable_nogood(Heuristic::Rand).collect();
        let mut early: Adf = serde_json::from_str(&json).expect("import of an export must work");
        early.seed([7; 32]);
        early.fix_import();
        let c: Vec<Vec<Term>> = early.stable_nogood(Heuristic::Rand).collect();
        (a, b, c)
    });
    adf_bdd::verif::set_budget(None);
    match r {
        Err(m) => out.push(("rand-order:panic".into(), m)),
        Ok((a, b, c)) => {
            if a != b {
                out.push(("rand-order:reimported".into(), format!("seeded Rand search on a re-imported object (seeded after the repair step) yields {:?}, on a fresh object {:?}", b, a)));
            }
            if a != c {
                out.push(("rand-order:seed-lost".into(), format!("import, seed, fix_import, seeded Rand search yields {:?}; a fresh object with the same seed {:?}", c, a)));
            }
        }
    }
    out
}


/// ADFs for the determinism clause: two open statements first, then 3-4 statements the grounded propagation decides
/// (constants, or chains hanging off a constant), and open conditions that mention all of them
pub fn det_order_family() -> Vec<(String, usize)> {
    use crate::oracle::Fm;
    let mut out = vec![];
    for k in [3usize, 4] {
        for vals in 0..(1u32 << k) {
            for chain in 0..2 {
                for shape in 0..4 {
                    for u1kind in 0..2 {
                        let n = 2 + k;
                        let d = |j: usize| Fm::Atom(2 + j);
                        let mut conds: Vec<Fm> = vec![];
                        let inner = match shape {
                            0 => (1..k).fold(d(0), |acc, j| Fm::bin(4, acc, d(j))),
                            1 => Fm::bin(1, Fm::bin(0, d(0), d(1)), (2..k).fold(Fm::not(d(0)), |acc, j| Fm::bin(4, acc, d(j)))),
                            2 => (1..k).fold(d(0), |acc, j| Fm::bin(if j % 2 == 0 { 3 } else { 2 }, d(j), acc)),
                            _ => Fm::bin(0, Fm::bin(1, d(0), d(k - 1)), Fm::bin(3, d(1), d(k - 2))),
                        };
                        conds.push(match shape {
                            0 => Fm::bin(4, Fm::Atom(1), inner),
                            1 => Fm::bin(1, Fm::bin(0, Fm::Atom(1), inner.clone()), Fm::bin(0, Fm::not(Fm::Atom(1)), Fm::not(inner))),
                            2 => Fm::bin(3, Fm::Atom(1), inner),
                            _ => Fm::bin(2, inner, Fm::Atom(1)),
                        });
                        conds.push(if u1kind == 0 { Fm::not(Fm::Atom(0)) } else { Fm::bin(4, Fm::Atom(0), Fm::bin(0, d(0), d(k - 1))) });
                        for j in 0..k {
                            let v = (vals >> j) & 1 == 1;
                            if chain == 1 && j > 0 {
                                let prev = (vals >> (j - 1)) & 1 == 1;
                                conds.push(if v == prev { d(j - 1) } else { Fm::not(d(j - 1)) });
                            } else {
                                conds.push(if v { Fm::Top } else { Fm::Bot });
                            }
                        }
                        let labels: Vec<String> = (0..n).map(|i| if i < 2 { format!("u{}", i) } else { format!("w{}", i - 2) }).collect();
                        out.push((crate::large::LargeAdf { labels: labels.clone(), written: labels, conds, shape: "det-order" }.text(None, ("", "", "")), n));
                    }
                }
            }
        }
    }
    out
}

fn decode_seq(k: u64, len: usize) -> Vec<usize> {
    decode_seq_a(k, len, CALLS)
}

fn decode_seq_a(mut k: u64, len: usize, alphabet: usize) -> Vec<usize> {
    let mut s = vec![];
    for _ in 0..len {
        s.push((k % alphabet as u64) as usize);
        k /= alphabet as u64;
    }
    s
}

pub fn run_c11(run: &Run) {
    writers_selfcheck();
    run.set_rule("(a) store level: the breadth-first exploration of the store (see C06) with the memo invariant evaluated on every transition through the cfg(adf_obdd_verif) dump: every ite/restrict memo entry, variable list and cached count must be semantically right. (b) ADF level: for every ADF of A(2) and F(3,1), native and bridged, EVERY sequence of public calls up to the stated length from a 15-call alphabet (all semantics, counting, nogood search with four heuristics incl. seeded Rand, formula building and restriction on the shared diagram); the last answer must equal the answer of the same call on a fresh object (truth values, and functions of returned handles), every earlier answer must still read the same at the end, the memo tables must be right, and a second run of the sequence on another fresh object must reproduce all raw answers and the node table exactly. Non-trivial: sequences of length >= 2.");
    run.assume("call sequences up to length 3 (quick) / 4 on A(2) (thorough); model lists are compared with the fresh object's element by element, in the order in which they are produced");
    // (a)
    // an operation's answer must not depend on the history either: the result function is judged on every transition
    let flags = Flags { canonical: false, functions: true, memo: true, queries: false };
    let plan: Vec<(usize, usize, bool)> = if run.quick() { vec![(2, 6, false), (3, 5, false), (2, 4, true)] } else { vec![(2, 7, false), (3, 6, false), (2, 5, true)] };
    for (vars, depth, memo_key) in plan {
        let cfg = Explore { vars, depth, with_memo_key: memo_key, reimports: true, flags, init: Init::Empty, name: format!("store V={}{} with memo audit", vars, if memo_key { " (keyed by node table + memo tables)" } else { "" }) };
        let st = explore(run, &cfg);
        run.add_counts(st.states, st.transitions, st.transitions, st.states.saturating_sub(1));
    }
    if cfg!(feature = "frontend") {
        let (vars, depth) = if run.quick() { (2, 5) } else { (3, 5) };
        let cfg = Explore { vars, depth, with_memo_key: false, reimports: true, flags, init: Init::GoneListener, name: format!("store V={} streaming to a listener that has gone away, with memo audit", vars) };
        let st = explore(run, &cfg);
        run.add_counts(st.states, st.transitions, st.transitions, st.states.saturating_sub(1));
    }
    // (b)
    let quick = run.quick();
    let plan: Vec<(Source, usize, bool)> = if quick {
        // deeper diagrams (conditions with two parents): one residue class modulo 8 of F(3,2), sequences of length <= 2
        let mut f32 = fam_f(3, 2);
        f32.first = run.seed % 8;
        f32.step = 8;
        f32.name = format!("F(3,2) class {} mod 8", run.seed % 8);
        vec![(Source::FamCompact(fam_a(0)), 3, false), (Source::FamCompact(fam_a(0)), 2, true), (Source::FamCompact(fam_a(2)), 3, false), (Source::FamCompact(fam_f(3, 1)), 3, false), (Source::FamCompact(fam_a(2)), 2, true), (Source::FamCompact(fam_f(3, 1)), 2, true), (Source::FamCompact(f32.clone()), 2, false), (Source::FamCompact(f32), 1, true)]
    } else {
        vec![(Source::FamCompact(fam_a(0)), 3, false), (Source::FamCompact(fam_a(0)), 2, true), (Source::FamCompact(fam_a(2)), 4, false), (Source::FamCompact(fam_f(3, 1)), 3, false), (Source::FamCompact(fam_a(2)), 3, true), (Source::FamCompact(fam_f(3, 1)), 3, true), (Source::FamCompact(fam_f(3, 2)), 2, false)]
    };
    for (src, maxlen, bridged) in plan {
        let per_adf: u64 = (0..=maxlen as u32).map(|l| (CALLS as u64).pow(l)).sum();
        let name = format!("call sequences of length <= {} on {} ({})", maxlen, src.name(), if bridged { "bridged" } else { "native" });
        let res = run.par_family(
            &name,
            src.size(),
            || (0u64, 0u64, 0u64, std::collections::BTreeSet::<u64>::new()),
            |st, k| {
                let c = src.get(k);
                let mut fresh: Vec<Option<Norm>> = vec![None; CALLS_EXT];
                st.0 += 1;
                for len in 0..=maxlen {
                    for sk in 0..(CALLS as u64).pow(len as u32) {
                        if run.violations_so_far() > 200 {
                            return;
                        }
                        let seq = decode_seq(sk, len);
                        st.1 += 1;
                        st.2 += len as u64;
                        // determinism double run: all sequences of length <= 2, and longer ones that contain the seeded Rand search
                        let double = len <= 2 || seq.contains(&10);
                        for (kind, msg) in seq_case(&c.text, &c.tts, bridged, &seq, &mut fresh, double) {
                            run.violation(&kind, format!("{} on {}", msg, c.text), json!({"type": "call_seq", "text": c.text, "tts": c.tts, "bridged": bridged, "calls": seq}));
                        }
                    }
                }
                for f in fresh.iter().flatten() {
                    st.3.insert(hash64(format!("{:?}", f).as_bytes()));
                }
            },
            &|k| src.describe(k),
        );
        for st in res {
            run.add_counts(st.0, st.2, st.1, st.1.saturating_sub(st.0 * (1 + CALLS as u64)));
            run.add_outcomes(st.3);
        }
        run.extra(&format!("sequences_per_adf[{}]", name), json!(per_adf));
    }
    // abandoned enumerations and the repair step: all sequences over the alphabet extended by "first model only"
    // variants of the lazy enumerations and by fix_import() on a live object that contain at least one of them (what an
    // abandoned enumeration leaves behind in the shared tables must not matter later; the repair step is a public call
    // like any other and must leave a healthy object healthy)
    {
        let plan: Vec<(Source, usize, bool)> = if quick {
            vec![(Source::FamCompact(fam_a(2)), 3, false), (Source::FamCompact(fam_f(3, 1)), 2, false), (Source::FamCompact(fam_f(3, 1)), 2, true)]
        } else {
            vec![(Source::FamCompact(fam_a(2)), 3, false), (Source::FamCompact(fam_f(3, 1)), 3, false), (Source::FamCompact(fam_a(2)), 3, true), (Source::FamCompact(fam_f(3, 1)), 2, true)]
        };
        for (src, maxlen, bridged) in plan {
            let name = format!("call sequences of length <= {} with abandoned enumerations / the repair step on {} ({})", maxlen, src.name(), if bridged { "bridged" } else { "native" });
            let res = run.par_family(
                &name,
                src.size(),
                || (0u64, 0u64),
                |st, k| {
                    let c = src.get(k);
                    let mut fresh: Vec<Option<Norm>> = vec![None; CALLS_EXT];
                    for len in 1..=maxlen {
                        for sk in 0..(CALLS_EXT as u64).pow(len as u32) {
                            if run.violations_so_far() > 200 {
                                return;
                            }
                            let seq = decode_seq_a(sk, len, CALLS_EXT);
                            if !seq.iter().any(|c| *c >= CALLS) {
                                continue;
                            }
                            st.0 += 1;
                            st.1 += len as u64;
                            for (kind, msg) in seq_case(&c.text, &c.tts, bridged, &seq, &mut fresh, len <= 2) {
                                run.violation(&kind, format!("{} on {}", msg, c.text), json!({"type": "call_seq", "text": c.text, "tts": c.tts, "bridged": bridged, "calls": seq}));
                            }
                        }
                    }
                },
                &|k| src.describe(k),
            );
            for st in res {
                run.add_counts(0, st.1, st.0, st.0);
            }
        }
    }
    // the seed survives the repair step
    {
        let mut texts: Vec<String> = vec![];
        for k in [3usize, 5, 6] {
            let n = 2 * k;
            let labels: Vec<String> = (0..n).map(|i| format!("p{}", i)).collect();
            let conds: Vec<crate::oracle::Fm> = (0..n).map(|i| crate::oracle::Fm::not(crate::oracle::Fm::Atom(i ^ 1))).collect();
            texts.push(crate::large::LargeAdf { labels: labels.clone(), written: labels, conds, shape: "pairs" }.text(None, ("", "", "")));
        }
        let a2 = Source::FamCompact(fam_a(2));
        for k in 0..a2.size() {
            texts.push(a2.get(k).text);
        }
        let ring = Source::Ring(6, run.seed % 4096, 4096);
        for k in 0..ring.size() {
            texts.push(ring.get(k).text);
        }
        let res = run.par_family(
            &format!("seeded Rand search on fresh and re-imported objects, seeded before / after the repair step: {} ADFs (3-6 negation pairs, A(2), a class of R(6))", texts.len()),
            texts.len() as u64,
            || 0u64,
            |st, k| {
                *st += 3;
                for (kind, msg) in rand_order_case(&texts[k as usize]) {
                    run.violation(&kind, format!("{} on {}", msg.chars().take(600).collect::<String>(), texts[k as usize]), json!({"type": "rand_order", "text": texts[k as usize]}));
                }
            },
            &|k| json!({"type": "rand_order", "text": texts[k as usize]}),
        );
        for st in res {
            run.add_counts(0, st, st, st);
        }
    }
    // determinism where it is at risk: undecided statements whose conditions mention SEVERAL statements that the grounded
    // propagation decides and that stand BELOW them in the variable order, so that substituting them rebuilds upper nodes -
    // the order of the substitutions then decides which nodes are created in which order. Two fresh objects must return
    // the same raw answers (handles included) and leave the same node table; every pair is built three times.
    {
        let texts = det_order_family();
        let calls = [0usize, 1, 2, 4, 6, 9];
        let res = run.par_family(
            &format!("determinism of raw answers and node tables on {} ADFs whose open conditions mention 3-4 decided statements below them (native and bridged, {} calls, three repetitions)", texts.len(), calls.len()),
            texts.len() as u64 * 2,
            || (0u64, 0u64),
            |st, k| {
                let (text, n) = &texts[(k / 2) as usize];
                let bridged = k % 2 == 1;
                for c in calls {
                    for _rep in 0..3 {
                        let mut fresh: Vec<Option<Norm>> = vec![None; CALLS_EXT];
                        st.0 += 1;
                        st.1 += 2;
                        for (kind, msg) in seq_case_n(text, *n, bridged, &[c], &mut fresh, true) {
                            run.violation(&kind, format!("{} on {}", msg.chars().take(500).collect::<String>(), text), json!({"type": "call_seq_mid", "text": text, "n": n, "bridged": bridged, "calls": [c]}));
                        }
                    }
                }
            },
            &|k| json!({"type": "call_seq_mid", "text": texts[(k / 2) as usize].0, "n": texts[(k / 2) as usize].1, "bridged": k % 2 == 1, "calls": [0]}),
        );
        for st in res {
            run.add_counts(0, st.1, st.0, st.0);
        }
    }
    // restrictions on a diagram with more than 4096 nodes in one store (a later answer must not depend on the memo entries
    // the earlier requests left behind)
    crate::c06_07::big_restrict_family(run);
    // statements that SHARE a condition: five statements, the first three with self-referential ternary conditions, the
    // last two with one and the same condition over the first three - the place where a memo keyed by the condition's
    // handle alone (without the statement it is asked for) collides. The counting searches one after the other in both
    // orders, three calls deep, on one object vs. fresh objects.
    {
        let shared: Vec<Fm> = {
            use crate::oracle::Fm as F;
            let a = |i| F::Atom(i);
            vec![
                a(0), F::not(a(0)), F::bin(4, F::Top, a(0)), F::bin(0, a(0), a(1)), F::bin(1, a(1), F::not(a(2))), F::bin(3, a(0), a(2)), F::bin(2, a(2), a(1)), F::bin(4, a(1), a(2)),
                // ... and conditions that mention the two statements that share them
                a(3), F::not(a(4)), F::bin(4, a(0), a(3)), F::bin(0, a(0), a(4)), F::bin(1, a(3), F::not(a(4))), F::bin(3, a(3), a(4)), F::bin(2, a(4), a(1)), F::bin(0, a(3), F::bin(1, a(4), a(2))),
            ]
        };
        let nsh = shared.len() as u64;
        let total = 12u64.pow(3) * nsh;
        let class = 1u64;
        let seqs: [&[usize]; 4] = [&[5, 4], &[4, 5], &[5, 4, 5], &[4, 5, 4]];
        let res = run.par_family(
            &format!("statements sharing a condition: {} ADFs with 5 statements (12^3 ternary conditions over the first three x {} shared conditions, half of which mention the sharing statements{}) x 4 orders of the two counting searches", total / class, nsh, if quick { ", one class mod 2" } else { "" }),
            total / class,
            || (0u64, 0u64),
            |st, k| {
                let k = k * class + run.seed % class;
                let sh = (k % nsh) as usize;
                let mut idx = k / nsh;
                let mut conds: Vec<Fm> = vec![];
                for i in 0..3 {
                    conds.push(crate::mid::tern_cond((idx % 12) as usize, i, 5));
                    idx /= 12;
                }
                conds.push(shared[sh].clone());
                conds.push(shared[sh].clone());
                let labels: Vec<String> = (0..5).map(|i| format!("t{}", i)).collect();
                let text = crate::large::LargeAdf { labels: labels.clone(), written: labels, conds, shape: "twins" }.text(None, ("", "", ""));
                let mut fresh: Vec<Option<Norm>> = vec![None; CALLS_EXT];
                for seq in seqs {
                    st.0 += 1;
                    st.1 += seq.len() as u64;
                    for (kind, msg) in seq_case_n(&text, 5, false, seq, &mut fresh, false) {
                        run.violation(&kind, format!("{} on {}", msg.chars().take(500).collect::<String>(), text), json!({"type": "call_seq_mid", "text": text, "n": 5, "bridged": false, "calls": seq}));
                    }
                }
            },
            &|k| json!({"type": "twins", "index": k}),
        );
        for st in res {
            run.add_counts(0, st.1, st.0, st.0);
        }
    }
    // four statements with conditions over at most two of them: the two counting searches one after the other, both orders
    // (quick: one residue class modulo 256 of F(4,2), thorough: modulo 16)
    {
        let mut f = fam_f(4, 2);
        let m = if quick { 256 } else { 16 };
        f.first = run.seed % m;
        f.step = m;
        f.name = format!("F(4,2) class {} mod {}", run.seed % m, m);
        let src = Source::FamCompact(f);
        let seqs: [&[usize]; 2] = [&[5, 4], &[4, 5]];
        let res = run.par_family(
            &format!("the two counting searches in both orders on {} (native)", src.name()),
            src.size(),
            || (0u64, 0u64),
            |st, k| {
                let c = src.get(k);
                let mut fresh: Vec<Option<Norm>> = vec![None; CALLS_EXT];
                for seq in seqs {
                    st.0 += 1;
                    st.1 += 2;
                    for (kind, msg) in seq_case(&c.text, &c.tts, false, seq, &mut fresh, false) {
                        run.violation(&kind, format!("{} on {}", msg.chars().take(500).collect::<String>(), c.text), json!({"type": "call_seq", "text": c.text, "tts": c.tts, "bridged": false, "calls": seq}));
                    }
                }
            },
            &|k| src.describe(k),
        );
        for st in res {
            run.add_counts(0, st.1, st.0, st.0);
        }
    }
    // the verbosity of the process is not part of the input: the seeded Rand search must yield the same models in the same
    // order whether or not a logger accepts TRACE records (sequential: the log level is a global of the process)
    {
        let mut texts: Vec<String> = vec![];
        for k in [3usize, 5] {
            let n = 2 * k;
            let labels: Vec<String> = (0..n).map(|i| format!("p{}", i)).collect();
            let conds: Vec<crate::oracle::Fm> = (0..n).map(|i| crate::oracle::Fm::not(crate::oracle::Fm::Atom(i ^ 1))).collect();
            texts.push(crate::large::LargeAdf { labels: labels.clone(), written: labels, conds, shape: "pairs" }.text(None, ("", "", "")));
        }
        let a2 = Source::FamCompact(fam_a(2));
        for k in 0..a2.size() {
            texts.push(a2.get(k).text);
        }
        let ring = Source::Ring(6, run.seed % 4096, 4096);
        for k in 0..ring.size().min(if quick { 64 } else { 4096 }) {
            texts.push(ring.get(k).text);
        }
        let mut execs = 0u64;
        for text in &texts {
            let parser = AdfParser::default();
            if !crate::fam::parse_into(&parser, text) {
                continue;
            }
            let n = parser.dict_size();
            let mut answers = vec![];
            for on in [false, true, false] {
                crate::report::trace_logging(on);
                answers.push(run_seq(&parser, false, &[10, 9], n).map(|(_, raws, _)| raws));
                execs += 2;
            }
            crate::report::trace_logging(false);
            match (&answers[0], &answers[1], &answers[2]) {
                (Ok(a), Ok(b), Ok(c)) => {
                    if a != c {
                        run.violation("determinism:answers", format!("two runs of the seeded Rand search on fresh objects differ on {}", text), json!({"type": "rand_verbosity", "text": text}));
                    } else if a != b {
                        run.violation("determinism:log-verbosity", format!("the seeded Rand search yields {:?} while a logger accepts TRACE records and {:?} otherwise, on {}", b, a, text), json!({"type": "rand_verbosity", "text": text}));
                    }
                }
                _ => run.violation("determinism:panic", format!("the seeded Rand search failed on {}", text), json!({"type": "rand_verbosity", "text": text})),
            }
        }
        run.add_counts(0, execs, texts.len() as u64, texts.len() as u64);
        run.add_family(crate::report::FamilyCov { name: format!("seeded Rand search with and without a logger that accepts TRACE records: {} ADFs", texts.len()), size: texts.len() as u64, done: texts.len() as u64, exhaustive: true, note: String::new() });
    }
    // mid-size objects: ring ADFs with 6 and 7 statements and large sparse ADFs, sequences of length <= 2 (<= 1)
    {
        let mid: Vec<(Source, usize)> = if quick {
            vec![(Source::Ring(6, run.seed % 4096, 4096), 2), (Source::Ring(7, run.seed % 65536, 65536), 2), (Source::Sparse(run.seed * 1000, 6), 1)]
        } else {
            vec![(Source::Ring(6, run.seed % 256, 256), 2), (Source::Ring(7, run.seed % 4096, 4096), 2), (Source::Sparse(run.seed * 1000, 60), 1)]
        };
        for (src, maxlen) in mid {
            let name = format!("call sequences of length <= {} on {} (native and bridged)", maxlen, src.name());
            let res = run.par_family(
                &name,
                src.size() * 2,
                || (0u64, 0u64),
                |st, k| {
                    let c = src.get(k / 2);
                    let bridged = k % 2 == 1;
                    let n = c.labels.len();
                    let mut fresh: Vec<Option<Norm>> = vec![None; CALLS_EXT];
                    run.heartbeat();
                    for len in 0..=maxlen {
                        for sk in 0..(CALLS as u64).pow(len as u32) {
                            if run.violations_so_far() > 200 {
                                return;
                            }
                            let seq = decode_seq(sk, len);
                            // the full enumeration of complete models is exponential in the undecided statements: the
                            // large sparse objects skip the calls that would print thousands of models twice
                            st.0 += 1;
                            st.1 += len as u64;
                            for (kind, msg) in seq_case_n(&c.text, n, bridged, &seq, &mut fresh, len <= 1) {
                                let mut case = src.describe(k / 2);
                                case["type"] = json!("call_seq_mid");
                                case["bridged"] = json!(bridged);
                                case["calls"] = json!(seq);
                                run.violation(&kind, format!("{} on {}", msg, c.text.chars().take(300).collect::<String>()), case);
                            }
                        }
                    }
                },
                &|k| src.describe(k / 2),
            );
            for st in res {
                run.add_counts(0, st.1, st.0, st.0);
            }
        }
    }
    run.sample(json!({"type": "call_seq", "text": "s(a).s(b).ac(a,neg(b)).ac(b,neg(a)).", "bridged": false, "calls": [13, 4, 1], "call_names": [CALL_NAMES[13], CALL_NAMES[4], CALL_NAMES[1]]}));
    // once more with a logger that accepts TRACE records: all call sequences of length <= 2 on A(2)
    {
        crate::report::trace_logging(true);
        let src = Source::FamCompact(fam_a(2));
        let res = run.par_family(
            "call sequences of length <= 2 on A(2) (native) with trace logging switched on",
            src.size(),
            || 0u64,
            |st, k| {
                let c = src.get(k);
                let mut fresh: Vec<Option<Norm>> = vec![None; CALLS_EXT];
                for len in 1..=2usize {
                    for sk in 0..(CALLS as u64).pow(len as u32) {
                        let seq = decode_seq(sk, len);
                        *st += 1;
                        for (kind, msg) in seq_case(&c.text, &c.tts, false, &seq, &mut fresh, false) {
                            run.violation(&format!("trace-logging:{}", kind), format!("{} on {} (a logger accepting TRACE records is installed)", msg, c.text), json!({"type": "call_seq", "text": c.text, "tts": c.tts, "bridged": false, "calls": seq, "trace_logging": true}));
                        }
                    }
                }
            },
            &|k| src.describe(k),
        );
        for st in res {
            run.add_counts(0, st, st, 0);
        }
        crate::report::trace_logging(false);
    }
    run.extra("states_are", json!("store states (a) and ADF objects with their call history (b)"));
    run.extra("transitions_are", json!("store operations (a) and public calls executed inside call sequences (b)"));
}

pub fn replay(c: &Value) -> Vec<(String, String)> {
    if c["type"] == "rand_order" {
        return rand_order_case(c["text"].as_str().unwrap_or(""));
    }
    if c["type"] == "rand_verbosity" {
        let text = c["text"].as_str().unwrap_or("");
        let parser = AdfParser::default();
        if !crate::fam::parse_into(&parser, text) {
            return vec![("parse".into(), "well-formed input rejected".into())];
        }
        let n = parser.dict_size();
        let mut answers = vec![];
        for on in [false, true] {
            crate::report::trace_logging(on);
            answers.push(run_seq(&parser, false, &[10, 9], n).map(|(_, raws, _)| raws));
        }
        crate::report::trace_logging(false);
        return match (&answers[0], &answers[1]) {
            (Ok(a), Ok(b)) if a == b => vec![],
            (Ok(a), Ok(b)) => vec![("determinism:log-verbosity".into(), format!("the seeded Rand search yields {:?} while a logger accepts TRACE records and {:?} otherwise", b, a))],
            _ => vec![("determinism:panic".into(), "the seeded Rand search failed".into())],
        };
    }
    if c["type"] == "call_seq_mid" {
        let seq: Vec<usize> = c["calls"].as_array().map(|a| a.iter().map(|x| x.as_u64().unwrap_or(0) as usize).collect()).unwrap_or_default();
        let n = c["n"].as_u64().map(|x| x as usize).or_else(|| c["labels"].as_array().map(|a| a.len())).unwrap_or(6);
        let mut fresh: Vec<Option<Norm>> = vec![None; CALLS_EXT];
        return seq_case_n(c["text"].as_str().unwrap_or(""), n, c["bridged"].as_bool().unwrap_or(false), &seq, &mut fresh, true);
    }
    if c["type"] == "call_seq" {
        let tts: Vec<TT> = c["tts"].as_array().map(|a| a.iter().map(|x| x.as_u64().unwrap_or(0) as TT).collect()).unwrap_or_default();
        let seq: Vec<usize> = c["calls"].as_array().map(|a| a.iter().map(|x| x.as_u64().unwrap_or(0) as usize).collect()).unwrap_or_default();
        let mut fresh: Vec<Option<Norm>> = vec![None; CALLS];
        return seq_case(c["text"].as_str().unwrap_or(""), &tts, c["bridged"].as_bool().unwrap_or(false), &seq, &mut fresh, true);
    }
    crate::c06_07::replay("C11", c)
}
