//! C12: the same battery under every cargo feature combination of the library.
//!
//! `adfmc featdigest` is compiled once per feature set (same sources, `--no-default-features --features ..`);
//! each build runs the battery in-process against the definitional oracle and prints its findings and digests;
//! the C12 check (default build) runs all of them and compares.

use crate::report::*;
use crate::src_adf::*;
use crate::store::*;
use crate::{c05, c11, c13, c14, fam::*, oracle::*, sem};
use adf_bdd::datatypes::Term;
use adf_bdd::obdd::Bdd;
use serde_json::{json, Value};

fn feature_string() -> String {
    let mut v = vec![];
    if cfg!(feature = "adhoccountmodels") {
        v.push("adhoccountmodels");
    } else if cfg!(feature = "adhoccounting") {
        v.push("adhoccounting");
    }
    if cfg!(feature = "variablelist") {
        v.push("variablelist");
    }
    if cfg!(feature = "frontend") {
        v.push("frontend");
    }
    v.join(",")
}

/// every query as the FIRST query on a store that has never been counted (fresh build, and a freshly restricted
/// diagram), compared with independent recounts
fn cold_query_case(tt: TT, n: usize) -> Vec<(String, String)> {
    use crate::bddx::*;
    let mut out = vec![];
    for which in 0..6 {
        for restricted in [false, true] {
            let r = guard(|| {
                let mut b = Bdd::new();
                let mut h = crate::c06_07::build_fm(&mut b, &write_fm(tt, n, 5));
                if restricted {
                    // a diagram nobody has asked anything about yet
                    let g = crate::c06_07::build_fm(&mut b, &write_fm(tt.rotate_left(3) & full(n), n, 0));
                    let x = b.xor(h, g);
                    h = b.restrict(x, var(0), true);
                }
                let rc = recount(&b.nodes);
                let tts = all_tts(&b.nodes, n).unwrap_or_default();
                let mut found: Vec<(String, String)> = vec![];
                let w = rc[h.value()];
                match which {
                    0 => {
                        let d = b.max_depth(h);
                        if d != w.2 {
                            found.push(("cold:depth".into(), format!("max_depth as first query is {} but the longest path has {} decisions", d, w.2)));
                        }
                    }
                    1 | 2 => {
                        let p = b.paths(h, which == 2);
                        if p.cmodels as u128 != w.0 || p.models as u128 != w.1 {
                            found.push(("cold:paths".into(), format!("paths(memo={}) as first query is ({},{}) instead of ({},{})", which == 2, p.cmodels, p.models, w.0, w.1)));
                        }
                        // and the depth right afterwards
                        let d = b.max_depth(h);
                        if d != w.2 {
                            found.push(("cold:depth".into(), format!("max_depth after one paths query is {} instead of {}", d, w.2)));
                        }
                    }
                    3 | 4 => {
                        let f = features();
                        if which == 4 && f.adhoccounting && !f.adhoccountmodels {
                            // documented exception
                        } else if !tts.is_empty() {
                            let m = b.models(h, which == 4);
                            let sat = tts[h.value()].count_ones() as u128;
                            let unsat = (1u128 << n) - sat;
                            if (m.models as u128) * unsat != (m.cmodels as u128) * sat || m.models + m.cmodels == 0 {
                                found.push(("cold:models".into(), format!("models(memo={}) as first query is ({},{}) for {} counter-models / {} models", which == 4, m.cmodels, m.models, unsat, sat)));
                            }
                        }
                    }
                    _ => {
                        if !tts.is_empty() {
                            let mut have: Vec<usize> = b.var_dependencies(h).iter().map(|v| v.value()).collect();
                            have.sort();
                            if have != support(tts[h.value()], n) {
                                found.push(("cold:dependencies".into(), format!("var_dependencies as first query is {:?}", have)));
                            }
                        }
                    }
                }
                // after this one first query: every query on every node of the store (a query must not spoil what later
                // queries read), then once more after further diagrams were built on top
                let mut b = b;
                for stage in 0..2 {
                    let rc = recount(&b.nodes);
                    let tts = all_tts(&b.nodes, n).unwrap_or_default();
                    let f = features();
                    for x in 0..b.nodes.len() {
                        let t = Term(x);
                        let d = b.max_depth(t);
                        if d != rc[x].2 {
                            found.push(("cold:depth".into(), format!("max_depth({}) is {} but the longest path has {} decisions (stage {} after first query #{})", x, d, rc[x].2, stage, which)));
                            break;
                        }
                        for memo in [true, false] {
                            let p = b.paths(t, memo);
                            if p.cmodels as u128 != rc[x].0 || p.models as u128 != rc[x].1 {
                                found.push(("cold:paths-later".into(), format!("paths({}, memo={}) is ({},{}) instead of ({},{}) (stage {} after first query #{})", x, memo, p.cmodels, p.models, rc[x].0, rc[x].1, stage, which)));
                                break;
                            }
                            if (memo && f.adhoccounting && !f.adhoccountmodels) || tts.is_empty() {
                                continue;
                            }
                            let m = b.models(t, memo);
                            let sat = tts[x].count_ones() as u128;
                            let unsat = (1u128 << n) - sat;
                            if (m.models as u128) * unsat != (m.cmodels as u128) * sat || (m.models == 0 && m.cmodels == 0) {
                                found.push(("cold:models-later".into(), format!("models({}, memo={}) is ({},{}) for {} counter-models / {} models (stage {} after first query #{})", x, memo, m.cmodels, m.models, unsat, sat, stage, which)));
                                break;
                            }
                        }
                    }
                    if stage == 0 {
                        let v = b.variable(var(n - 1));
                        let a = b.and(h, v);
                        let o = b.xor(a, h);
                        let _ = b.not(o);
                    }
                }
                found
            });
            match r {
                Ok(f) => out.extend(f),
                Err(m) => out.push(("cold:panic".into(), m)),
            }
        }
    }
    out
}

/// runs the battery in this build and prints FD- lines
pub fn featdigest(tier: Tier, seed: u64) {
    writers_selfcheck();
    let feats = feature_string();
    let run = Run::new("C12", tier, seed);
    let quick = tier == Tier::Quick;
    let mut cases = 0u64;
    // S1: semantics
    let mut f32 = fam_f(3, 2);
    if quick {
        // one residue class modulo 4 of F(3,2), selected by the seed (a complete slice, nothing is drawn at random)
        f32.first = seed % 4;
        f32.step = 4;
        f32.name = format!("F(3,2) class {} mod 4", seed % 4);
    }
    let mut srcs = vec![Source::FamCompact(fam_a(2)), Source::FamCompact(fam_f(3, 1)), Source::FamCompact(f32)];
    if !quick {
        srcs.push(Source::FamCompact(fam_s(0)));
    }
    for src in &srcs {
        let (res, _) = run.par_for(
            "sem",
            src.size(),
            sem::Stats::default,
            |st, k| {
                let c = src.get(k);
                for p in ["C01", "C02", "C03", "C04"] {
                    let mut out = vec![];
                    sem::sem_case(p, &c.text, &c.tts, &mut out, st);
                    for (kind, msg) in out {
                        run.violation(&format!("{}:{}", p, kind), format!("{} on {}", msg, c.text), json!({"inner_property": p, "inner_case": src.describe(k)}));
                    }
                }
                let mut st5 = Default::default();
                for h in 0..3 {
                    for (kind, msg) in c05::builtin_case(&c.text, &c.tts, h, None, &mut st5) {
                        run.violation(&format!("C05:{}", kind), format!("{} on {}", msg, c.text), json!({"inner_property": "C05", "inner_case": {"type": "builtin", "text": c.text, "tts": c.tts, "heuristic": h}}));
                    }
                }
            },
            &|k| src.describe(k),
        );
        cases += res.iter().map(|s| s.cases).sum::<u64>();
    }
    println!("FD-DIGEST sem-cases {}", cases);
    // S2: functions, warm and cold queries
    let mut fcases = 0u64;
    for n in 1..=4usize {
        let total = full(n) as u64 + 1;
        let stride = if n == 4 && quick { 16 } else { 1 };
        let (res, _) = run.par_for(
            "functions",
            total / stride,
            || 0u64,
            |st, k| {
                let tt = (k * stride + if stride > 1 { seed % stride } else { 0 }) as TT;
                *st += 1;
                for (kind, msg) in c13::replay(&json!({"type": "function", "tt": tt, "vars": n, "writer": (k % 2) * 5})) {
                    run.violation(&format!("C13:{}", kind), format!("{} (function {:#x} over {} variables)", msg, tt, n), json!({"inner_property": "C13", "inner_case": {"type": "function", "tt": tt, "vars": n, "writer": (k % 2) * 5}}));
                }
                if n >= 3 {
                    // the same function once more, queried after every restriction of it was made in its store
                    for (kind, msg) in c13::replay(&json!({"type": "function", "tt": tt, "vars": n, "writer": 5, "store": 5})) {
                        run.violation(&format!("C13:{}", kind), format!("{} (function {:#x} over {} variables, queried after its restrictions)", msg, tt, n), json!({"inner_property": "C13", "inner_case": {"type": "function", "tt": tt, "vars": n, "writer": 5, "store": 5}}));
                    }
                }
                if n <= 3 {
                    for (kind, msg) in cold_query_case(tt, n) {
                        run.violation(&format!("C13:{}", kind), format!("{} (function {:#x} over {} variables)", msg, tt, n), json!({"inner_property": "C12-cold", "inner_case": {"type": "cold", "tt": tt, "vars": n}}));
                    }
                }
            },
            &|k| json!({"type": "function", "tt": k, "vars": n}),
        );
        fcases += res.iter().sum::<u64>();
    }
    // deep diagrams (8 and 11 variables) and re-imported stores under this feature set
    let (res, _) = run.par_for(
        "deep",
        4096,
        || 0u64,
        |st, k| {
            *st += 1;
            let (n, idx) = if k % 2 == 0 { (8usize, (k / 2) * 8 + seed % 8) } else { (11usize, (k / 2) * 512 + seed % 512) };
            for (kind, msg) in crate::c06_07::deep_case(n, idx) {
                run.violation(&format!("C07:{}", kind), format!("{} (chain #{} over {} variables)", msg, idx, n), json!({"inner_property": "C07", "inner_case": {"type": "deep", "vars": n, "index": idx}}));
            }
            // every query on every node of diagrams with 17, 20 and 33 levels (eight formula shapes; parity at 17 and 20)
            if k < 24 {
                let (kind, n) = ((k % 8) as usize, [17usize, 20, 33][(k / 8) as usize]);
                if !(kind == 2 && n > 22) {
                    for (kd, msg) in crate::c13::deep_fn_case(kind, n, 0) {
                        run.violation(&format!("C13:{}", kd), format!("{} (formula shape {} over {} variables)", msg, kind, n), json!({"inner_property": "C13", "inner_case": {"type": "deep-fn", "kind": kind, "vars": n, "store": 0, "levels_65_or_more": false}}));
                    }
                }
            }
            // chains whose support has 64 ... 130 variables: restrictions and connectives vs. the reference BDD
            if (24..30).contains(&k) {
                // a build that counts models ad hoc cannot hold a diagram of 65 or more levels at all (known finding K3:
                // the counts are machine words) - it gets the sizes up to 64
                let n = if crate::bddx::features().adhoccountmodels { [40usize, 56, 60, 62, 63, 64][(k - 24) as usize] } else { [64usize, 65, 66, 70, 100, 130][(k - 24) as usize] };
                for (kd, msg) in crate::c06_07::wide_support_case(n, seed % 3) {
                    run.violation(&format!("C07:{}", kd), format!("{} (chain #{} over {} variables)", msg, seed % 3, n), json!({"inner_property": "C07", "inner_case": {"type": "wide-support", "vars": n, "index": seed % 3}}));
                }
            }
            if k < 256 {
                for (kind, msg) in crate::c06_07::reimport_restrict_case(k as TT, 3, 5) {
                    run.violation(&format!("C07:{}", kind), format!("{} (function {:#x})", msg, k), json!({"inner_property": "C07", "inner_case": {"type": "reimport-restrict", "tt": k, "vars": 3, "writer": 5}}));
                }
            }
        },
        &|k| json!({"type": "deep", "index": k}),
    );
    fcases += res.iter().sum::<u64>();
    println!("FD-DIGEST function-cases {}", fcases);
    // streaming (only builds with the `frontend` feature have it; reported, not compared between builds)
    #[cfg(feature = "frontend")]
    println!("FD-DIGEST streaming-schedules {}", crate::c19::feature_battery(&run));
    // S3: store exploration with every invariant
    let flags = Flags { canonical: true, functions: true, memo: true, queries: true };
    let mut states = 0;
    for (vars, depth) in if quick { vec![(2usize, 4usize), (3, 3)] } else { vec![(2, 5), (3, 4)] } {
        let cfg = Explore { vars, depth, with_memo_key: false, reimports: true, flags, init: Init::Empty, name: "store".into() };
        let st = explore(&run, &cfg);
        states += st.states;
    }
    println!("FD-DIGEST store-states {}", states);
    // S4/S5: ADF level: impact measures, persistence followed by all semantics, call histories
    let src = Source::FamCompact(fam_a(2));
    let src31 = Source::FamCompact(fam_f(3, 1));
    let mut seqs = 0u64;
    for s in [&src, &src31] {
        let (res, _) = run.par_for(
            "adf-level",
            s.size(),
            || 0u64,
            |st, k| {
                let c = s.get(k);
                for (kind, msg) in c13::replay(&json!({"type": "adf", "text": c.text, "tts": c.tts})) {
                    run.violation(&format!("C13:{}", kind), format!("{} on {}", msg, c.text), json!({"inner_property": "C13", "inner_case": {"type": "adf", "text": c.text, "tts": c.tts}}));
                }
                let maxlen = if s.n() == 2 { 2 } else { 1 };
                let mut fresh: Vec<Option<crate::adfcalls::Norm>> = vec![None; crate::adfcalls::CALLS];
                for len in 0..=maxlen {
                    for sk in 0..(crate::adfcalls::CALLS as u64).pow(len as u32) {
                        let mut seq = vec![];
                        let mut x = sk;
                        for _ in 0..len {
                            seq.push((x % crate::adfcalls::CALLS as u64) as usize);
                            x /= crate::adfcalls::CALLS as u64;
                        }
                        *st += 1;
                        for bridged in [false, true] {
                            if len <= 1 {
                                for (kind, msg) in c14::state_case(&c.text, &c.tts, bridged, &seq) {
                                    run.violation(&format!("C14:{}", kind), format!("{} on {}", msg, c.text), json!({"inner_property": "C14", "inner_case": {"type": "persist", "text": c.text, "tts": c.tts, "bridged": bridged, "calls": seq}}));
                                }
                            }
                            for (kind, msg) in c11::seq_case(&c.text, &c.tts, bridged, &seq, &mut fresh, len <= 1) {
                                run.violation(&format!("C11:{}", kind), format!("{} on {}", msg, c.text), json!({"inner_property": "C11", "inner_case": {"type": "call_seq", "text": c.text, "tts": c.tts, "bridged": bridged, "calls": seq}}));
                            }
                            fresh = vec![None; crate::adfcalls::CALLS];
                        }
                    }
                }
            },
            &|k| s.describe(k),
        );
        seqs += res.iter().sum::<u64>();
    }
    println!("FD-DIGEST adf-level-sequences {}", seqs);
    // raw answers of the derived queries (facet counts, impact measures, counts and supports of the conditions) on ADFs
    // with if-then-else shaped and with repeated conditions: no oracle, the parent compares the hashes between builds
    {
        use crate::src_adf::Source;
        // conditions over four statements that mention more variables than their longest path tests (an if-then-else
        // below a fourth variable) and have more than two models / counter-models: all 6^4 assignments of 6 shapes
        {
            use crate::oracle::Fm;
            let a = Fm::Atom;
            let ite = |i: usize, t: usize, e: usize| Fm::bin(1, Fm::bin(0, a(i), a(t)), Fm::bin(0, Fm::not(a(i)), a(e)));
            let shapes: Vec<Fm> = vec![
                Fm::bin(0, a(3), ite(0, 1, 2)),
                Fm::bin(1, a(3), ite(1, 2, 0)),
                Fm::bin(4, a(0), ite(1, 2, 3)),
                Fm::bin(1, Fm::bin(0, a(3), Fm::bin(0, a(0), a(1))), Fm::bin(0, Fm::not(a(3)), a(2))),
                Fm::bin(0, Fm::not(a(2)), ite(3, 0, 1)),
                ite(0, 1, 2),
            ];
            let mut h: u64 = 0xcbf29ce484222325;
            let mut mix = |x: u64| {
                h = (h ^ x).wrapping_mul(0x100000001b3);
            };
            for k in 0..6usize.pow(4) {
                let fms: Vec<Fm> = (0..4).map(|i| shapes[k / 6usize.pow(i as u32) % 6].clone()).collect();
                let text = crate::fam::adf_text_fm(&fms, &crate::fam::names(4));
                let parser = adf_bdd::parser::AdfParser::default();
                if parser.parse()(&text).is_err() {
                    mix(0xdead);
                    continue;
                }
                match guard(|| {
                    let adf = adf_bdd::adf::Adf::from_parser(&parser);
                    let mut v: Vec<u64> = vec![];
                    for (m, f) in adf.facet_count(&adf.ac) {
                        v.extend([m.cmodels as u64, m.models as u64, f.0 as u64, f.1 as u64]);
                    }
                    for i in 0..4 {
                        v.push(adf.bdd.passive_var_impact(adf_bdd::datatypes::Var(i), &adf.ac) as u64);
                        v.push(adf.bdd.active_var_impact(adf_bdd::datatypes::Var(i), &adf.ac) as u64);
                    }
                    v
                }) {
                    Ok(v) => v.into_iter().for_each(&mut mix),
                    Err(_) => mix(0xbad),
                }
            }
            println!("FD-RAW if-then-else_below_a_fourth_variable {:016x}", h);
        }
        let sources = [Source::Tern(4, seed % 16, 16), Source::Literal3, Source::FamAllWriters(crate::fam::fam_a(2))];
        for src in sources {
            let mut h: u64 = 0xcbf29ce484222325;
            let mut mix = |x: u64| {
                h = (h ^ x).wrapping_mul(0x100000001b3);
            };
            for k in 0..src.size() {
                let c = src.get(k);
                let parser = adf_bdd::parser::AdfParser::default();
                if parser.parse()(&c.text).is_err() {
                    mix(0xdead);
                    continue;
                }
                let r = guard(|| {
                    let mut adf = adf_bdd::adf::Adf::from_parser(&parser);
                    let ac = adf.ac.clone();
                    let g = adf.grounded();
                    let mut v: Vec<u64> = vec![];
                    for list in [&ac, &g] {
                        for (m, f) in adf.facet_count(list) {
                            v.extend([m.cmodels as u64, m.models as u64, f.0 as u64, f.1 as u64]);
                        }
                        for i in 0..ac.len() {
                            v.push(adf.bdd.passive_var_impact(adf_bdd::datatypes::Var(i), list) as u64);
                            v.push(adf.bdd.active_var_impact(adf_bdd::datatypes::Var(i), list) as u64);
                        }
                    }
                    for m in adf.formulacounts(false) {
                        v.extend([m.cmodels as u64, m.models as u64]);
                    }
                    for t in &ac {
                        let p = adf.bdd.paths(*t, false);
                        v.extend([p.cmodels as u64, p.models as u64, adf.bdd.max_depth(*t) as u64, adf.bdd.var_dependencies(*t).len() as u64]);
                    }
                    v
                });
                match r {
                    Ok(v) => v.into_iter().for_each(&mut mix),
                    Err(_) => mix(0xbad),
                }
            }
            println!("FD-RAW {} {:016x}", src.name().split(':').next().unwrap_or("?").replace(' ', "_"), h);
        }
    }
    let total = run.violations_so_far();
    for v in run.take_violations().into_iter().take(60) {
        println!("FD-VIOLATION {}", json!({"kind": v.kind, "msg": v.msg, "case": v.case, "features": feats}));
    }
    println!("FD-DONE features=[{}] violations={} wall={:.1}", feats, total, run.start.elapsed().as_secs_f64());
}

pub fn run_c12(run: &Run) {
    run.set_rule("the same harness is compiled against the library under each feature combination (quick: default + 4 corner sets, thorough: all 12); every build runs, in-process and against the definitional oracle: all semantics incl. counting-guided and nogood searches on A(2) and F(3,2) (thorough: + a residue class of A(3)); every query (paths, models, depth, dependencies, cubes) on every node of every function of <= 3 variables (4 variables strided in quick), each query also as the FIRST query on a never-counted and on a freshly restricted diagram; a store exploration with all invariants incl. serde re-import followed by restrictions; persistence round trips and all call histories of length <= 2 on A(2). The CLI binary is built under the same feature sets and run directly (naive, hybrid) and through --export followed by --import on fixed files and ring ADFs. The case counts of all builds must agree, and no build may deviate from the oracle; the documented exception (memoised model counts with adhoccounting but without adhoccountmodels) is masked by name. Non-trivial: (feature set, section) pairs other than the default build.");
    run.assume("the feature sets are the 12 combinations of {none, adhoccounting, adhoccountmodels} x {variablelist} x {frontend}; HashSet/importexport/benchmark are aliases or empty features");
    let bins: std::collections::BTreeMap<String, String> = match std::env::var("ADFMC_FEATURE_BINS").ok().and_then(|s| serde_json::from_str(&s).ok()) {
        Some(b) => b,
        None => machinery_error("ADFMC_FEATURE_BINS is not set (the run script builds the feature variants)"),
    };
    let tier = if run.quick() { "quick" } else { "thorough" };
    let me = std::env::current_exe().unwrap_or_else(|_| machinery_error("cannot find own executable"));
    let mut all: Vec<(String, String)> = vec![("(default)".to_string(), me.to_string_lossy().to_string())];
    all.extend(bins.iter().map(|(k, v)| (if k.is_empty() { "(none)".to_string() } else { k.clone() }, v.clone())));
    let mut reference: Option<Vec<String>> = None;
    let mut reference_raw: Option<Vec<String>> = None;
    let mut sections = 0u64;
    for (fs, exe) in &all {
        let t0 = std::time::Instant::now();
        let o = std::process::Command::new(exe).args(["featdigest", "--tier", tier, "--seed", &run.seed.to_string()]).output();
        let Ok(o) = o else { machinery_error(&format!("cannot run feature build {}", fs)) };
        let so = String::from_utf8_lossy(&o.stdout).to_string();
        if !so.contains("FD-DONE") {
            run.violation("feature-build:crash", format!("the battery under features [{}] ended abnormally (status {:?}): {}", fs, o.status.code(), String::from_utf8_lossy(&o.stderr).chars().take(300).collect::<String>()), json!({"features": fs, "inner_property": "none", "inner_case": {}}));
            continue;
        }
        let digests: Vec<String> = so.lines().filter(|l| l.starts_with("FD-DIGEST")).map(String::from).collect();
        sections += digests.len() as u64;
        // the number of distinct store states depends on the feature set by construction (the state key holds the
        // bookkeeping tables, which some feature sets do not have), so it is reported but not compared
        let comparable = |d: &Vec<String>| -> Vec<String> { d.iter().filter(|l| !l.starts_with("FD-DIGEST store-states") && !l.starts_with("FD-DIGEST streaming-schedules")).cloned().collect() };
        match &reference {
            None => reference = Some(digests.clone()),
            Some(r) => {
                if comparable(r) != comparable(&digests) {
                    run.violation("feature-build:coverage-differs", format!("features [{}] ran {:?}, the default build {:?}", fs, digests, r), json!({"features": fs, "inner_property": "none", "inner_case": {}}));
                }
            }
        }
        // raw answers of derived queries: every build must print what the default build prints
        let raws: Vec<String> = so.lines().filter(|l| l.starts_with("FD-RAW")).map(String::from).collect();
        match &reference_raw {
            None => reference_raw = Some(raws.clone()),
            Some(r) => {
                for (a, b) in r.iter().zip(raws.iter()) {
                    if a != b {
                        run.violation("feature-build:raw-answers-differ", format!("features [{}]: the raw answers of facet_count / impact measures / counts / supports hash to {:?}, under the default build to {:?}", fs, b, a), json!({"features": fs, "inner_property": "none", "inner_case": {}}));
                    }
                }
                if r.len() != raws.len() {
                    run.violation("feature-build:raw-answers-differ", format!("features [{}]: {} raw-answer sections instead of {}", fs, raws.len(), r.len()), json!({"features": fs, "inner_property": "none", "inner_case": {}}));
                }
            }
        }
        let mut nv = 0;
        for l in so.lines().filter(|l| l.starts_with("FD-VIOLATION ")) {
            if let Ok(v) = serde_json::from_str::<Value>(&l["FD-VIOLATION ".len()..]) {
                nv += 1;
                let mut case = v["case"].clone();
                case["features"] = json!(fs);
                run.violation(&format!("[{}] {}", fs, v["kind"].as_str().unwrap_or("?")), v["msg"].as_str().unwrap_or("").to_string(), case);
            }
        }
        run.add_family(FamilyCov { name: format!("features [{}]", fs), size: digests.len() as u64, done: digests.len() as u64, exhaustive: true, note: format!("{:.1}s, {} finding(s); {}", t0.elapsed().as_secs_f64(), nv, digests.join("; ").replace("FD-DIGEST ", "")) });
        let nums: Vec<u64> = digests.iter().filter_map(|d| d.split(' ').last().and_then(|x| x.parse().ok())).collect();
        run.add_counts(nums.iter().sum::<u64>(), nums.iter().sum::<u64>() * 4, nums.iter().sum::<u64>(), if fs == "(default)" { 0 } else { digests.len() as u64 });
        run.add_outcomes([hash64(fs.as_bytes())]);
    }
    cli_under_features(run);
    run.extra("feature_sets", json!(all.iter().map(|x| x.0.clone()).collect::<Vec<_>>()));
    run.extra("sections_compared", json!(sections));
    run.sample(json!({"features": "(none)", "inner_property": "C12-cold", "inner_case": {"type": "cold", "tt": 0x96, "vars": 3}}));
    run.extra("states_are", json!("cases (ADFs, functions, store states, call sequences) executed over all feature builds"));
    run.extra("transitions_are", json!("approximate number of API calls judged against the oracle over all feature builds"));
}

/// the CLI binary built under each feature set: direct runs, and export followed by import with the same binary, on
/// the fixed files and on ring ADFs (whose searches create nodes that did not exist at export time)
fn cli_under_features(run: &Run) {
    use crate::c15::{cli_case_x, fixed_inputs, Extra, Input};
    use crate::cli::run_cli;
    let clis: std::collections::BTreeMap<String, String> = match std::env::var("ADFMC_FEATURE_CLIS").ok().and_then(|s| serde_json::from_str(&s).ok()) {
        Some(b) => b,
        None => {
            run.add_family(FamilyCov { name: "CLI under each feature set".into(), size: 1, done: 0, exhaustive: false, note: "ADFMC_FEATURE_CLIS not set: skipped".into() });
            return;
        }
    };
    let mut all: Vec<(String, String)> = vec![];
    if let Ok(c) = std::env::var("ADF_BDD_CLI") {
        all.push(("(default)".to_string(), c));
    }
    all.extend(clis.iter().map(|(k, v)| (if k.is_empty() { "(none)".to_string() } else { k.clone() }, v.clone())));
    let mut inputs: Vec<Input> = fixed_inputs();
    for k in 0..(if run.quick() { 8u64 } else { 40 }) {
        let n = 6 + (k % 2) as usize;
        let idx = (k * 104729 + run.seed * 17 + 5) % crate::mid::ring_size(n);
        let l = crate::mid::ring(n, idx);
        inputs.push(Input { labels: l.labels.clone(), text: l.text(None, ("\n", "", "")), tts: vec![], ring: Some((n, idx)) });
    }
    let tmp = crate::cli::TmpDir::new("c12-cli");
    for (i, inp) in inputs.iter().enumerate() {
        std::fs::write(format!("{}/in_{}.adf", tmp.0, i), &inp.text).unwrap_or_else(|_| machinery_error("cannot write input file"));
    }
    // jobs: (feature set, input, kind) - kind 0: direct naive, 1: direct hybrid, 2: export + import with the same binary
    let mut jobs: Vec<(usize, usize, usize)> = vec![];
    for f in 0..all.len() {
        for i in 0..inputs.len() {
            for kind in 0..3 {
                jobs.push((f, i, kind));
            }
            // kind 3: exported by this binary, imported by the binary of the NEXT feature set, with the naive counter
            if !inputs[i].tts.is_empty() {
                jobs.push((f, i, 3));
            }
        }
    }
    let res = run.par_family(
        &format!("the CLI built under {} feature sets x {} inputs x {{naive, hybrid, export + import}} x {{grd+com+stm, grd+stmng+twoval}}; exports of every binary imported by the binary of the next feature set with the naive counter", all.len(), inputs.len()),
        jobs.len() as u64,
        || 0u64,
        |st, j| {
            let (f, i, kind) = jobs[j as usize];
            let (fs, cli) = &all[f];
            let inp = &inputs[i];
            let path = format!("{}/in_{}.adf", tmp.0, i);
            if kind == 3 {
                *st += 1;
                let (fs2, cli2) = &all[(f + 1) % all.len()];
                let exp = format!("{}/xexp_{}_{}.json", tmp.0, f, i);
                let _ = std::fs::remove_file(&exp);
                let mut found: Vec<(String, String)> = vec![];
                let o = run_cli(cli, &["--lib".into(), "naive".into(), "-q".into(), "--export".into(), exp.clone(), path.clone()]);
                if o.code != Some(0) {
                    found.push(("export:exit".to_string(), format!("--export exits with {:?}", o.code)));
                } else {
                    let o = run_cli(cli2, &["--lib".into(), "naive".into(), "-q".into(), "--import".into(), "--counter".into(), "nai".into(), "--grd".into(), exp.clone()]);
                    if o.code != Some(0) {
                        found.push(("cross-import:exit".to_string(), format!("--import --counter nai --grd exits with {:?}: {}", o.code, o.stderr.lines().last().unwrap_or("").chars().take(160).collect::<String>())));
                    } else {
                        let first = o.stdout.lines().next().unwrap_or("").to_string();
                        let nums: Vec<u128> = first.split(|c: char| !c.is_ascii_digit()).filter(|t| !t.is_empty()).filter_map(|t| t.parse().ok()).collect();
                        if nums.len() != 2 * inp.tts.len() {
                            found.push(("cross-import:counter-line".to_string(), format!("the counter line is {:?}", first)));
                        } else {
                            let n = inp.tts.len();
                            for (sidx, tt) in inp.tts.iter().enumerate() {
                                let sat = (tt & full(n)).count_ones() as u128;
                                let unsat = (1u128 << n) - sat;
                                let (cm, m) = (nums[2 * sidx], nums[2 * sidx + 1]);
                                if m * unsat != cm * sat || m + cm == 0 {
                                    found.push(("cross-import:counts".to_string(), format!("statement #{}: the counter prints {} counter-models and {} models, the condition has them in the ratio {}:{}", sidx, cm, m, unsat, sat)));
                                }
                            }
                        }
                        // the grounded line that follows
                        let want = crate::oracle::grounded(&inp.tts);
                        match o.stdout.lines().nth(1).and_then(crate::cli::parse_line).and_then(|l| crate::cli::to_interp(&l, &inp.labels)) {
                            Some(g) if g == want => {}
                            other => found.push(("cross-import:grounded".to_string(), format!("grounded after the import is {:?}, the definition gives {}", other.map(|g| interp_str(&g)), interp_str(&want)))),
                        }
                    }
                }
                let _ = std::fs::remove_file(&exp);
                for (kind_s, msg) in found {
                    run.violation(
                        &format!("[{} -> {}] cli:{}", fs, fs2, kind_s),
                        format!("{} [exported by the binary built with features [{}], imported by the one built with [{}]] on {}", msg, fs, fs2, inp.text.replace('\n', "")),
                        json!({"features": fs, "inner_property": "none", "inner_case": {"cross_import": [fs, fs2], "text": inp.text}}),
                    );
                }
                return;
            }
            for flags in [0b111u32, (1 << 8) | (1 << 9) | 1] {
                *st += 1;
                let found = if kind < 2 {
                    cli_case_x(cli, &path, inp, ["naive", "hybrid"][kind], i % 3, flags, None, Extra::default())
                } else {
                    let exp = format!("{}/exp_{}_{}_{}.json", tmp.0, f, i, flags);
                    let _ = std::fs::remove_file(&exp);
                    let o = run_cli(cli, &["--lib".into(), "naive".into(), "-q".into(), "--export".into(), exp.clone(), path.clone()]);
                    if o.code != Some(0) {
                        vec![("export:exit".to_string(), format!("--export exits with {:?}", o.code))]
                    } else {
                        let r = cli_case_x(cli, &exp, inp, "naive", 0, flags, None, Extra { import: true, ..Extra::default() });
                        let _ = std::fs::remove_file(&exp);
                        r
                    }
                };
                for (kind_s, msg) in found {
                    let fl: Vec<&str> = (0..10).filter(|b| flags >> b & 1 == 1).map(|b| crate::c15::FLAGS[b]).collect();
                    run.violation(
                        &format!("[{}] cli:{}{}", fs, if kind == 2 { "import:" } else { "" }, kind_s),
                        format!("{} [binary built with features [{}], {} {}] on {}", msg, fs, ["--lib naive", "--lib hybrid", "--lib naive --export, then --import with"][kind], fl.join(" "), inp.text.replace('\n', "")),
                        json!({"features": fs, "inner_property": "C12-cli", "inner_case": {"text": inp.text, "labels": inp.labels, "tts": inp.tts, "ring": inp.ring.map(|r| vec![r.0 as u64, r.1]), "kind": kind, "flags": flags, "sort": i % 3}}),
                    );
                }
            }
        },
        &|j| json!({"features": all[jobs[j as usize].0].0, "inner_property": "C12-cli", "inner_case": {"job": j}}),
    );
    for st in res {
        run.add_counts(0, st, st, st);
    }
    drop(tmp);
}

/// replay of a C12 record: re-run the inner case with the binary of the feature set
pub fn replay(c: &Value) -> Vec<(String, String)> {
    let fs = c["features"].as_str().unwrap_or("(default)");
    let inner_prop = c["inner_property"].as_str().unwrap_or("none");
    if inner_prop == "none" {
        return vec![("feature-build".into(), "re-run the check".into())];
    }
    if inner_prop == "C12-cli" {
        use crate::c15::{cli_case_x, Extra, Input};
        let ic = &c["inner_case"];
        let name = if fs == "(none)" { "none".to_string() } else { fs.replace(',', "+") };
        let cli = if fs == "(default)" { crate::cli::cli_path() } else { format!("{}/.build/clifeat/{}/debug/adf-bdd", VERIF_DIR, name) };
        let tmp = crate::cli::TmpDir::new("c12-cli-replay");
        let inp = Input {
            labels: ic["labels"].as_array().map(|a| a.iter().map(|x| x.as_str().unwrap_or("").to_string()).collect()).unwrap_or_default(),
            text: ic["text"].as_str().unwrap_or("").to_string(),
            tts: ic["tts"].as_array().map(|a| a.iter().map(|x| x.as_u64().unwrap_or(0) as TT).collect()).unwrap_or_default(),
            ring: ic.get("ring").and_then(|r| Some((r[0].as_u64()? as usize, r[1].as_u64()?))),
        };
        let path = format!("{}/in.adf", tmp.0);
        let _ = std::fs::write(&path, &inp.text);
        let (kind, flags, sort) = (ic["kind"].as_u64().unwrap_or(0) as usize, ic["flags"].as_u64().unwrap_or(7) as u32, ic["sort"].as_u64().unwrap_or(0) as usize);
        if kind < 2 {
            return cli_case_x(&cli, &path, &inp, ["naive", "hybrid"][kind], sort, flags, None, Extra::default());
        }
        let exp = format!("{}/exp.json", tmp.0);
        let o = crate::cli::run_cli(&cli, &["--lib".into(), "naive".into(), "-q".into(), "--export".into(), exp.clone(), path.clone()]);
        if o.code != Some(0) {
            return vec![("export:exit".to_string(), format!("--export exits with {:?}", o.code))];
        }
        return cli_case_x(&cli, &exp, &inp, "naive", 0, flags, None, Extra { import: true, ..Extra::default() });
    }
    let own = feature_string();
    let wanted = if fs == "(default)" { "adhoccounting,variablelist,frontend".to_string() } else if fs == "(none)" { String::new() } else { fs.to_string() };
    if own == wanted || std::env::var("ADFMC_INNER").is_ok() {
        if inner_prop == "C12-cold" {
            return cold_query_case(c["inner_case"]["tt"].as_u64().unwrap_or(0) as TT, c["inner_case"]["vars"].as_u64().unwrap_or(3) as usize);
        }
        return crate::replay_dispatch(inner_prop, &c["inner_case"]);
    }
    // delegate to the binary of the feature set
    let exe = format!("{}/.build/feat/{}/release/adfmc", VERIF_DIR, if wanted.is_empty() { "none".to_string() } else { wanted.replace(',', "+") });
    let tmp = format!("{}/.build/c12-replay-{}.json", VERIF_DIR, std::process::id());
    let _ = std::fs::write(&tmp, serde_json::to_string(&json!({"property": "C12", "case": c})).unwrap());
    let o = std::process::Command::new(&exe).args(["replay", &tmp]).env("ADFMC_INNER", "1").output();
    let _ = std::fs::remove_file(&tmp);
    match o {
        Err(_) => machinery_error(&format!("feature binary {} not built (run ./run setup)", exe)),
        Ok(o) => String::from_utf8_lossy(&o.stdout)
            .lines()
            .filter(|l| l.contains("verdict=violation"))
            .map(|l| ("feature-replay".to_string(), l.to_string()))
            .collect(),
    }
}
