//! C13: counts, depth, supports, impact measures and path cubes of diagrams against independent recounts.

use crate::bddx::*;
use crate::c06_07::build_fm;
use crate::fam::*;
use crate::oracle::*;
use crate::report::*;
use crate::src_adf::*;
use crate::store::*;
use adf_bdd::adf::Adf;
use adf_bdd::datatypes::{ModelCounts, Term, Var};
use adf_bdd::obdd::Bdd;
use adf_bdd::parser::AdfParser;
use serde_json::{json, Value};

/// cubes of `interpretations` for one handle: pairwise disjoint, consistent, and covering exactly the
/// (counter-)models where the goal variable has the goal value
pub fn cube_checks(b: &Bdd, h: Term, tt: TT, n: usize, out: &mut Vec<(String, String)>) {
    if h.is_truth_value() {
        return; // pinned by the repository's own unit test: no cube for the constant diagrams
    }
    for goal in [false, true] {
        for gv in 0..=n {
            let cubes = match guard(|| b.interpretations(h, goal, Var(gv), &[], &[])) {
                Ok(c) => c,
                Err(m) => {
                    out.push(("cubes:panic".into(), format!("interpretations({},{},{}) panicked: {}", h, goal, gv, m)));
                    continue;
                }
            };
            // as assignment sets over n variables (+ the goal variable if it is outside)
            let nn = n.max(gv + 1);
            let mut sets: Vec<u64> = vec![];
            for (neg, pos) in &cubes {
                if neg.iter().any(|v| pos.contains(v)) {
                    out.push(("cubes:inconsistent".into(), format!("a cube of interpretations({},{},{}) has a variable on both sides: {:?}", h, goal, gv, (neg, pos))));
                }
                // documented: "it is ensured that the goal is consistent with the respective interpretation"
                if (goal && neg.iter().any(|v| v.value() == gv)) || (!goal && pos.iter().any(|v| v.value() == gv)) {
                    out.push(("cubes:contradict-goal".into(), format!("a cube of interpretations({},{},{}) gives the goal variable the opposite value: {:?}", h, goal, gv, (neg, pos))));
                }
                if neg.iter().chain(pos.iter()).any(|v| v.value() >= nn) {
                    out.push(("cubes:unknown-variable".into(), format!("a cube mentions a variable outside the diagram: {:?}", (neg, pos))));
                    continue;
                }
                let mut s = 0u64;
                for a in 0..(1u32 << nn) {
                    if neg.iter().all(|v| a >> v.value() & 1 == 0) && pos.iter().all(|v| a >> v.value() & 1 == 1) {
                        s |= 1 << a;
                    }
                }
                sets.push(s);
            }
            for i in 0..sets.len() {
                for j in 0..i {
                    if sets[i] & sets[j] != 0 {
                        out.push(("cubes:overlap".into(), format!("cubes {:?} and {:?} of interpretations({},{},{}) overlap", cubes[j], cubes[i], h, goal, gv)));
                    }
                }
            }
            let union: u64 = sets.iter().fold(0, |a, b| a | b);
            let mut want = 0u64;
            let mut gvmask = 0u64;
            for a in 0..(1u32 << nn) {
                if (a >> gv & 1 == 1) == goal {
                    gvmask |= 1 << a;
                    if eval(tt, a & ((1u32 << n) - 1)) == goal {
                        want |= 1 << a;
                    }
                }
            }
            if union & gvmask != want {
                out.push((
                    "cubes:wrong-cover".into(),
                    format!("cubes of interpretations({},{},{}) cover {:#x} where the goal variable has the goal value, the (counter-)models there are {:#x} (function {:#x})", h, goal, gv, union & gvmask, want, tt),
                ));
            }
        }
    }
}

fn fn_case(tt: TT, n: usize, w: usize) -> Vec<(String, String)> {
    let mut out = vec![];
    let built = guard(|| {
        let mut b = Bdd::new();
        let h = build_fm(&mut b, &write_fm(tt, n, w));
        (b, h)
    });
    let (b, h) = match built {
        Ok(x) => x,
        Err(m) => return vec![("build:panic".into(), m)],
    };
    let Ok(tts) = all_tts(&b.nodes, n) else {
        return vec![("store:malformed".into(), "unreadable node table".into())];
    };
    if tts[h.value()] != tt {
        out.push(("build:wrong-function".into(), format!("built handle denotes {:#x} instead of {:#x}", tts[h.value()], tt)));
        return out;
    }
    query_checks(&b, &tts, n, &mut out);
    for hh in 0..b.nodes.len() {
        cube_checks(&b, Term(hh), tts[hh], n, &mut out);
    }
    out
}

fn impact_case(text: &str, tts: &[TT]) -> Vec<(String, String)> {
    let n = tts.len();
    let mut out = vec![];
    let parser = AdfParser::default();
    if parser.parse()(text).is_err() {
        return vec![("parse".into(), "well-formed input rejected".into())];
    }
    let r = guard(|| {
        let mut adf = Adf::from_parser(&parser);
        let mut lists: Vec<Vec<Term>> = vec![adf.ac.clone(), adf.grounded()];
        lists.extend(adf.complete().collect::<Vec<_>>());
        (adf, lists)
    });
    let (adf, lists) = match r {
        Ok(x) => x,
        Err(m) => return vec![("adf:panic".into(), m)],
    };
    let Ok(ntts) = all_tts(&adf.bdd.nodes, n) else {
        return vec![("store:malformed".into(), "unreadable node table".into())];
    };
    for list in &lists {
        for v in 0..n {
            let want_p = list.iter().filter(|t| depends(ntts[t.value()], n, v)).count();
            match guard(|| adf.bdd.passive_var_impact(Var(v), list)) {
                Ok(got) => {
                    if got != want_p {
                        out.push(("impact:passive".into(), format!("passive_var_impact({}, {:?}) = {} but {} terms depend on the variable", v, list, got, want_p)));
                    }
                }
                Err(m) => out.push(("impact:panic".into(), m)),
            }
            let want_a = (0..list.len()).filter(|i| depends(ntts[list[v].value()], n, *i)).count();
            match guard(|| adf.bdd.active_var_impact(Var(v), list)) {
                Ok(got) => {
                    if got != want_a {
                        out.push(("impact:active".into(), format!("active_var_impact({}, {:?}) = {} but term {} depends on {} of the listed statements", v, list, got, v, want_a)));
                    }
                }
                Err(m) => out.push(("impact:panic".into(), m)),
            }
        }
    }
    // formulacounts / facet_count model counts
    let ratio_ok = |m: &ModelCounts, tt: TT| {
        let sat = tt.count_ones() as u128;
        let unsat = (1u128 << n) - sat;
        (m.models as u128) * unsat == (m.cmodels as u128) * sat && m.models + m.cmodels > 0
    };
    match guard(|| adf.formulacounts(false)) {
        Ok(c) => {
            for (s, m) in c.iter().enumerate() {
                if !ratio_ok(m, tts[s]) {
                    out.push(("adf:formulacounts".into(), format!("formulacounts(false)[{}] = {:?} for a condition with {} models of {}", s, m, tts[s].count_ones(), 1 << n)));
                }
            }
            if c.len() != n {
                out.push(("adf:formulacounts".into(), "wrong number of counts".into()));
            }
        }
        Err(m) => out.push(("adf:panic".into(), m)),
    }
    let f = features();
    if !(f.adhoccounting && !f.adhoccountmodels) {
        if let Ok(c) = guard(|| adf.formulacounts(true)) {
            for (s, m) in c.iter().enumerate() {
                if !ratio_ok(m, tts[s]) {
                    out.push(("adf:formulacounts".into(), format!("formulacounts(true)[{}] = {:?}", s, m)));
                }
            }
        }
    }
    for list in &lists {
        match guard(|| adf.facet_count(list)) {
            Ok(c) => {
                for (i, (m, _)) in c.iter().enumerate() {
                    if !ratio_ok(m, ntts[list[i].value()]) {
                        out.push(("adf:facet_count".into(), format!("facet_count({:?})[{}] model counts {:?} are not in the ratio of the term's function {:#x}", list, i, m, ntts[list[i].value()])));
                    }
                }
            }
            Err(m) => out.push(("adf:panic".into(), m)),
        }
    }
    out
}

/// `adf-bdd --counter nai` for one ADF in naive and hybrid mode
fn cli_counter_case(cli: &str, dir: &str, idx: u64, text: &str, tts: &[TT]) -> Vec<(String, String)> {
    let n = tts.len();
    let mut out = vec![];
    let path = format!("{}/c13_{}.adf", dir, idx);
    if std::fs::write(&path, text).is_err() {
        machinery_error("cannot write CLI input file");
    }
    for mode in ["naive", "hybrid"] {
        let o = std::process::Command::new(cli).args(["--lib", mode, "--counter", "nai", "-q", &path]).output();
        let Ok(o) = o else { machinery_error("cannot run the CLI binary") };
        let so = String::from_utf8_lossy(&o.stdout).to_string();
        if !o.status.success() {
            out.push((format!("cli:{}:exit", mode), format!("--counter nai exits with {:?}", o.status.code())));
            continue;
        }
        // ModelCounts { cmodels: 1, models: 3 }
        let mut counts = vec![];
        for part in so.split("ModelCounts").skip(1) {
            let nums: Vec<u128> = part
                .split(|c: char| !c.is_ascii_digit())
                .filter(|x| !x.is_empty())
                .take(2)
                .filter_map(|x| x.parse().ok())
                .collect();
            if nums.len() == 2 {
                counts.push((nums[0], nums[1]));
            }
        }
        if counts.len() != n {
            out.push((format!("cli:{}:format", mode), format!("expected {} counts, stdout is {:?}", n, so)));
            continue;
        }
        for (s, (cm, m)) in counts.iter().enumerate() {
            let sat = tts[s].count_ones() as u128;
            let unsat = (1u128 << n) - sat;
            if m * unsat != cm * sat || m + cm == 0 {
                out.push((format!("cli:{}:counts", mode), format!("statement {} printed cmodels {} models {} for a condition with {} models / {} counter-models", s, cm, m, sat, unsat)));
            }
        }
    }
    let _ = std::fs::remove_file(&path);
    out
}

pub fn run_c13(run: &Run) {
    writers_selfcheck();
    run.set_rule("every Boolean function of <= 4 variables (all 65536 + the smaller ones, two writers) is built and every node of the resulting store is queried: paths / models (naive, memoised where documented) / max_depth / var_dependencies against independent recounts from the public node table, interpretations() cubes for both goals and every goal variable incl. one outside the diagram (disjoint, consistent, exact cover); the store exploration of C06 with the same queries in every state; impact measures, formulacounts and facet_count on the term lists of every ADF of A(2) and F(3,2); more_models/minimum on all pairs in [0,16]^2; adf-bdd --counter nai on A(2). Non-trivial: functions depending on >= 2 variables.");
    run.assume("memoised model counts are exempt exactly under the documented feature combination (adhoccounting without adhoccountmodels); cubes are checked on non-constant diagrams only (pinned by the repository's own unit test)");
    // more_models / minimum
    let mut pairs = 0u64;
    for c in 0..=16usize {
        for m in 0..=16usize {
            let mc: ModelCounts = (c, m).into();
            pairs += 1;
            if mc.more_models() != (m >= c) {
                run.violation("counts:more_models", format!("more_models of cmodels {} models {} is {}", c, m, mc.more_models()), json!({"type": "pair", "cmodels": c, "models": m}));
            }
            if mc.minimum() != c.min(m) {
                run.violation("counts:minimum", format!("minimum of cmodels {} models {} is {}", c, m, mc.minimum()), json!({"type": "pair", "cmodels": c, "models": m}));
            }
        }
    }
    run.add_counts(pairs, pairs, pairs, 0);
    for n in 1..=4usize {
        let total = (full(n) as u64 + 1) * 2;
        let res = run.par_family(
            &format!("all functions of {} variables x 2 writers, every node queried", n),
            total,
            || (0u64, 0u64, std::collections::BTreeSet::<u64>::new()),
            |st, k| {
                let tt = (k / 2) as TT;
                let w = if k % 2 == 0 { 0 } else { 5 };
                st.0 += 1;
                if support(tt, n).len() >= 2 {
                    st.1 += 1;
                }
                st.2.insert(tt.count_ones() as u64 * 8 + support(tt, n).len() as u64);
                for (kind, msg) in fn_case(tt, n, w) {
                    run.violation(&kind, format!("{} (function {:#x} over {} variables, writer {})", msg, tt, n, WRITER_NAMES[w]), json!({"type": "function", "tt": tt, "vars": n, "writer": w}));
                }
            },
            &|k| json!({"type": "function", "tt": k / 2, "vars": n, "writer": if k % 2 == 0 { 0 } else { 5 }}),
        );
        for st in res {
            run.add_counts(st.0, st.0 * 20, st.0, st.1);
            run.add_outcomes(st.2);
        }
    }
    if !run.quick() {
        // five variables: one residue class modulo 4099 of all 2^32 functions (about one million)
        let n = 5usize;
        let step = 4099u64;
        let first = run.seed % step;
        let total = ((1u64 << 32) - first + step - 1) / step;
        let res = run.par_family(
            &format!("functions of 5 variables, residue class {} mod {} ({} functions), every node queried", first, step, total),
            total,
            || (0u64, 0u64),
            |st, k| {
                let tt = (first + step * k) as TT;
                st.0 += 1;
                st.1 += (support(tt, n).len() >= 2) as u64;
                for (kind, msg) in fn_case(tt, n, 5) {
                    run.violation(&kind, format!("{} (function {:#x} over 5 variables)", msg, tt), json!({"type": "function", "tt": tt, "vars": n, "writer": 5}));
                }
            },
            &|k| json!({"type": "function", "tt": first + step * k, "vars": n, "writer": 5}),
        );
        for st in res {
            run.add_counts(st.0, st.0 * 30, st.0, st.1);
        }
    }
    run.sample(json!({"type": "function", "tt": 0x6996, "vars": 4, "writer": 0}));
    // exploration with queries in every state
    let flags = Flags { canonical: false, functions: false, memo: false, queries: true };
    let plan: Vec<(usize, usize)> = if run.quick() { vec![(2, 5), (3, 4)] } else { vec![(2, 6), (3, 5)] };
    for (vars, depth) in plan {
        let cfg = Explore { vars, depth, with_memo_key: false, reimports: true, flags, init: Init::Empty, name: format!("store V={} with queries", vars) };
        let st = explore(run, &cfg);
        run.add_counts(st.states, st.transitions, st.transitions, 0);
    }
    // impact measures and ADF-level counts
    let mut srcs = vec![Source::Fam(fam_a(2)), Source::Fam(fam_f(3, 2))];
    if !run.quick() {
        srcs.push(Source::Fam(fam_s(run.seed)));
    }
    for src in srcs {
        let res = run.par_family(
            &format!("impact measures, formulacounts, facet_count on the term lists of {}", src.name()),
            src.size(),
            || 0u64,
            |st, k| {
                let c = src.get(k);
                *st += 1;
                for (kind, msg) in impact_case(&c.text, &c.tts) {
                    run.violation(&kind, format!("{} on {}", msg, c.text), json!({"type": "adf", "text": c.text, "tts": c.tts}));
                }
            },
            &|k| src.describe(k),
        );
        for st in res {
            run.add_counts(st, st * 10, st, 0);
        }
    }
    // CLI
    if let Ok(cli) = std::env::var("ADF_BDD_CLI") {
        let dir = format!("{}/.build/tmp-c13-{}", VERIF_DIR, std::process::id());
        let _ = std::fs::create_dir_all(&dir);
        let src = Source::Fam(fam_a(2));
        let res = run.par_family(
            "adf-bdd --counter nai (naive and hybrid mode) on A(2)",
            src.size(),
            || 0u64,
            |st, k| {
                let c = src.get(k);
                *st += 2;
                for (kind, msg) in cli_counter_case(&cli, &dir, k, &c.text, &c.tts) {
                    run.violation(&kind, format!("{} on {}", msg, c.text), json!({"type": "cli-counter", "text": c.text, "tts": c.tts}));
                }
            },
            &|k| src.describe(k),
        );
        for st in res {
            run.add_counts(0, st, st, 0);
        }
        let _ = std::fs::remove_dir_all(&dir);
    } else {
        run.add_family(FamilyCov { name: "adf-bdd --counter nai".into(), size: 256, done: 0, exhaustive: false, note: "ADF_BDD_CLI not set: CLI clause skipped".into() });
    }
    run.extra("states_are", json!("diagram stores / functions / ADFs whose nodes are queried"));
    run.extra("transitions_are", json!("public queries compared with independent recounts (approximate count for the per-function sweep)"));
}

pub fn replay(c: &Value) -> Vec<(String, String)> {
    match c["type"].as_str().unwrap_or("") {
        "function" => fn_case(c["tt"].as_u64().unwrap_or(0) as TT, c["vars"].as_u64().unwrap_or(3) as usize, c["writer"].as_u64().unwrap_or(0) as usize),
        "pair" => {
            let (cm, m) = (c["cmodels"].as_u64().unwrap_or(0) as usize, c["models"].as_u64().unwrap_or(0) as usize);
            let mc: ModelCounts = (cm, m).into();
            let mut out = vec![];
            if mc.more_models() != (m >= cm) {
                out.push(("counts:more_models".into(), format!("more_models of cmodels {} models {} is {}", cm, m, mc.more_models())));
            }
            if mc.minimum() != cm.min(m) {
                out.push(("counts:minimum".into(), "minimum wrong".into()));
            }
            out
        }
        "adf" => {
            let tts: Vec<TT> = c["tts"].as_array().map(|a| a.iter().map(|x| x.as_u64().unwrap_or(0) as TT).collect()).unwrap_or_default();
            impact_case(c["text"].as_str().unwrap_or(""), &tts)
        }
        "cli-counter" => {
            let tts: Vec<TT> = c["tts"].as_array().map(|a| a.iter().map(|x| x.as_u64().unwrap_or(0) as TT).collect()).unwrap_or_default();
            let Ok(cli) = std::env::var("ADF_BDD_CLI") else { machinery_error("ADF_BDD_CLI not set") };
            let dir = format!("{}/.build/tmp-c13-replay", VERIF_DIR);
            let _ = std::fs::create_dir_all(&dir);
            cli_counter_case(&cli, &dir, 0, c["text"].as_str().unwrap_or(""), &tts)
        }
        _ => crate::c06_07::replay("C13", c),
    }
}
