//! C13: counts, depth, supports, impact measures and path cubes of diagrams against independent recounts.

use crate::bddx::*;
use crate::c06_07::build_fm;
use crate::fam::*;
use crate::oracle::*;
use crate::report::*;
use crate::src_adf::*;
use crate::store::*;
use adf_bdd::adf::Adf;
use adf_bdd::datatypes::{ModelCounts, Term, Var};
use adf_bdd::obdd::Bdd;
use adf_bdd::parser::AdfParser;
use serde_json::{json, Value};

/// cubes of `interpretations` for one handle: pairwise disjoint, consistent, and covering exactly the
/// (counter-)models where the goal variable has the goal value
pub fn cube_checks(b: &Bdd, h: Term, tt: TT, n: usize, out: &mut Vec<(String, String)>) {
    if h.is_truth_value() {
        return; // pinned by the repository's own unit test: no cube for the constant diagrams
    }
    for goal in [false, true] {
        for gv in 0..=n {
            let cubes = match guard(|| b.interpretations(h, goal, Var(gv), &[], &[])) {
                Ok(c) => c,
                Err(m) => {
                    out.push(("cubes:panic".into(), format!("interpretations({},{},{}) panicked: {}", h, goal, gv, m)));
                    continue;
                }
            };
            // the two list arguments are carried into every cube in front of what the walk adds
            if let Ok(with_prefix) = guard(|| b.interpretations(h, goal, Var(gv), &[Var(n + 3)], &[Var(n + 4), Var(n + 5)])) {
                let want: Vec<(Vec<Var>, Vec<Var>)> = cubes.iter().map(|(ng, ps)| ([vec![Var(n + 3)], ng.clone()].concat(), [vec![Var(n + 4), Var(n + 5)], ps.clone()].concat())).collect();
                if with_prefix != want {
                    out.push(("cubes:prefix-arguments".into(), format!("interpretations({},{},{}) with the list arguments [Var({})] / [Var({}),Var({})] is not the plain answer with these lists in front: {:?} vs {:?}", h, goal, gv, n + 3, n + 4, n + 5, with_prefix, cubes)));
                }
            }
            // as assignment sets over n variables (+ the goal variable if it is outside)
            let nn = n.max(gv + 1);
            let mut sets: Vec<u64> = vec![];
            for (neg, pos) in &cubes {
                if neg.iter().any(|v| pos.contains(v)) {
                    out.push(("cubes:inconsistent".into(), format!("a cube of interpretations({},{},{}) has a variable on both sides: {:?}", h, goal, gv, (neg, pos))));
                }
                // documented: "it is ensured that the goal is consistent with the respective interpretation"
                if (goal && neg.iter().any(|v| v.value() == gv)) || (!goal && pos.iter().any(|v| v.value() == gv)) {
                    out.push(("cubes:contradict-goal".into(), format!("a cube of interpretations({},{},{}) gives the goal variable the opposite value: {:?}", h, goal, gv, (neg, pos))));
                }
                if neg.iter().chain(pos.iter()).any(|v| v.value() >= nn) {
                    out.push(("cubes:unknown-variable".into(), format!("a cube mentions a variable outside the diagram: {:?}", (neg, pos))));
                    continue;
                }
                let mut s = 0u64;
                for a in 0..(1u32 << nn) {
                    if neg.iter().all(|v| a >> v.value() & 1 == 0) && pos.iter().all(|v| a >> v.value() & 1 == 1) {
                        s |= 1 << a;
                    }
                }
                sets.push(s);
            }
            for i in 0..sets.len() {
                for j in 0..i {
                    if sets[i] & sets[j] != 0 {
                        out.push(("cubes:overlap".into(), format!("cubes {:?} and {:?} of interpretations({},{},{}) overlap", cubes[j], cubes[i], h, goal, gv)));
                    }
                }
            }
            let union: u64 = sets.iter().fold(0, |a, b| a | b);
            let mut want = 0u64;
            let mut gvmask = 0u64;
            for a in 0..(1u32 << nn) {
                if (a >> gv & 1 == 1) == goal {
                    gvmask |= 1 << a;
                    if eval(tt, a & ((1u32 << n) - 1)) == goal {
                        want |= 1 << a;
                    }
                }
            }
            if union & gvmask != want {
                out.push((
                    "cubes:wrong-cover".into(),
                    format!("cubes of interpretations({},{},{}) cover {:#x} where the goal variable has the goal value, the (counter-)models there are {:#x} (function {:#x})", h, goal, gv, union & gvmask, want, tt),
                ));
            }
        }
    }
}

fn fn_case(tt: TT, n: usize, w: usize) -> Vec<(String, String)> {
    fn_case_in(tt, n, w, 0)
}

/// `store`: 0 = plain store, 1 = store with a sender whose receiver lives, 2 = store with a sender whose receiver goes
/// away after the variables were made (a failed send is only logged; the store must keep working)
fn fn_case_in(tt: TT, n: usize, w: usize, store: usize) -> Vec<(String, String)> {
    let mut out = vec![];
    let built = guard(|| {
        #[cfg(feature = "frontend")]
        let (mut b, keep) = match store {
            0 => (Bdd::new(), None),
            _ => {
                let (s, r) = crossbeam_channel::unbounded();
                (Bdd::with_sender(s), Some(r))
            }
        };
        #[cfg(not(feature = "frontend"))]
        let (mut b, keep) = (Bdd::new(), None::<()>);
        if store > 0 {
            for i in 0..n {
                b.variable(Var(i));
            }
        }
        // the receiving end goes away now (a shadowed binding would keep it alive)
        let keep = if store == 2 {
            drop(keep);
            None
        } else {
            keep
        };
        let h = build_fm(&mut b, &write_fm(tt, n, w));
        drop(keep);
        // 3 = the store is exported, imported and repaired before it is queried; 4 = the repair step on the live store
        if store == 3 {
            let text = serde_json::to_string(&b).expect("a store must be serialisable");
            b = serde_json::from_str(&text).expect("an exported store must be importable");
            b.fix_import();
        } else if store == 4 {
            b.fix_import();
        } else if store == 5 {
            // every restriction of the function (and of each result by the next variable) is made first: the queries below
            // then also read the bookkeeping of nodes that `restrict` created
            for v in 0..n {
                for val in [false, true] {
                    let r = b.restrict(h, Var(v), val);
                    let _ = b.restrict(r, Var((v + 1) % n), !val);
                }
            }
        }
        (b, h)
    });
    let (b, h) = match built {
        Ok(x) => x,
        Err(m) => return vec![("build:panic".into(), m)],
    };
    let Ok(tts) = all_tts(&b.nodes, n) else {
        return vec![("store:malformed".into(), "unreadable node table".into())];
    };
    if tts[h.value()] != tt {
        out.push(("build:wrong-function".into(), format!("built handle denotes {:#x} instead of {:#x}", tts[h.value()], tt)));
        return out;
    }
    query_checks(&b, &tts, n, &mut out);
    for hh in 0..b.nodes.len() {
        cube_checks(&b, Term(hh), tts[hh], n, &mut out);
    }
    out
}

fn impact_case(text: &str, tts: &[TT]) -> Vec<(String, String)> {
    let n = tts.len();
    let mut out = vec![];
    let parser = AdfParser::default();
    if !crate::fam::parse_into(&parser, text) {
        return vec![("parse".into(), "well-formed input rejected".into())];
    }
    let r = guard(|| {
        let mut adf = Adf::from_parser(&parser);
        let mut lists: Vec<Vec<Term>> = vec![adf.ac.clone(), adf.grounded()];
        lists.extend(adf.complete().collect::<Vec<_>>());
        (adf, lists)
    });
    let (adf, lists) = match r {
        Ok(x) => x,
        Err(m) => return vec![("adf:panic".into(), m)],
    };
    let Ok(ntts) = all_tts(&adf.bdd.nodes, n) else {
        return vec![("store:malformed".into(), "unreadable node table".into())];
    };
    for list in &lists {
        for v in 0..n {
            let want_p = list.iter().filter(|t| depends(ntts[t.value()], n, v)).count();
            match guard(|| adf.bdd.passive_var_impact(Var(v), list)) {
                Ok(got) => {
                    if got != want_p {
                        out.push(("impact:passive".into(), format!("passive_var_impact({}, {:?}) = {} but {} terms depend on the variable", v, list, got, want_p)));
                    }
                }
                Err(m) => out.push(("impact:panic".into(), m)),
            }
            let want_a = (0..list.len()).filter(|i| depends(ntts[list[v].value()], n, *i)).count();
            match guard(|| adf.bdd.active_var_impact(Var(v), list)) {
                Ok(got) => {
                    if got != want_a {
                        out.push(("impact:active".into(), format!("active_var_impact({}, {:?}) = {} but term {} depends on {} of the listed statements", v, list, got, v, want_a)));
                    }
                }
                Err(m) => out.push(("impact:panic".into(), m)),
            }
        }
    }
    // formulacounts / facet_count model counts
    let ratio_ok = |m: &ModelCounts, tt: TT| {
        let sat = tt.count_ones() as u128;
        let unsat = (1u128 << n) - sat;
        (m.models as u128) * unsat == (m.cmodels as u128) * sat && m.models + m.cmodels > 0
    };
    match guard(|| adf.formulacounts(false)) {
        Ok(c) => {
            for (s, m) in c.iter().enumerate() {
                if !ratio_ok(m, tts[s]) {
                    out.push(("adf:formulacounts".into(), format!("formulacounts(false)[{}] = {:?} for a condition with {} models of {}", s, m, tts[s].count_ones(), 1 << n)));
                }
            }
            if c.len() != n {
                out.push(("adf:formulacounts".into(), "wrong number of counts".into()));
            }
        }
        Err(m) => out.push(("adf:panic".into(), m)),
    }
    let f = features();
    if !(f.adhoccounting && !f.adhoccountmodels) {
        if let Ok(c) = guard(|| adf.formulacounts(true)) {
            for (s, m) in c.iter().enumerate() {
                if !ratio_ok(m, tts[s]) {
                    out.push(("adf:formulacounts".into(), format!("formulacounts(true)[{}] = {:?}", s, m)));
                }
            }
        }
    }
    for list in &lists {
        match guard(|| adf.facet_count(list)) {
            Ok(c) => {
                for (i, (m, _)) in c.iter().enumerate() {
                    if !ratio_ok(m, ntts[list[i].value()]) {
                        out.push(("adf:facet_count".into(), format!("facet_count({:?})[{}] model counts {:?} are not in the ratio of the term's function {:#x}", list, i, m, ntts[list[i].value()])));
                    }
                }
            }
            Err(m) => out.push(("adf:panic".into(), m)),
        }
    }
    out
}


// ---------------------------------------------------------------------------------------------------------------
// diagrams with more variables than a truth table holds: the expected values are recomputed from the public node table

pub const DEEP_KINDS: usize = 8;
pub const DEEP_KIND_NAMES: [&str; DEEP_KINDS] = [
    "conjunction",
    "disjunction",
    "parity",
    "alternating nest x0&(x1|(x2&...))",
    "implication chain",
    "conjunction with every third atom negated",
    "two blocks (x0&..&xk)|(xk+1&..&xn-1)",
    "if-then-else ladder",
];

pub fn deep_fm(kind: usize, n: usize) -> Fm {
    let a = Fm::Atom;
    let fold_right = |op: usize, items: Vec<Fm>| -> Fm {
        let mut it = items.into_iter().rev();
        let mut acc = it.next().unwrap();
        for x in it {
            acc = Fm::bin(op, x, acc);
        }
        acc
    };
    match kind % DEEP_KINDS {
        0 => fold_right(0, (0..n).map(a).collect()),
        1 => fold_right(1, (0..n).map(a).collect()),
        2 => fold_right(4, (0..n).map(a).collect()),
        3 => {
            let mut acc = a(n - 1);
            for i in (0..n - 1).rev() {
                acc = Fm::bin(i % 2, a(i), acc);
            }
            acc
        }
        4 => fold_right(0, (0..n.max(2) - 1).map(|i| Fm::bin(2, a(i), a(i + 1))).collect()),
        5 => fold_right(0, (0..n).map(|i| if i % 3 == 2 { Fm::not(a(i)) } else { a(i) }).collect()),
        6 => {
            let k = (n / 2).max(1);
            if n < 2 {
                return a(0);
            }
            Fm::bin(1, fold_right(0, (0..k).map(a).collect()), fold_right(0, (k..n).map(a).collect()))
        }
        _ => {
            // ite(x0, x1, ite(x2, x3, ...))
            let mut acc = a(n - 1);
            let mut i = n as i64 - 3;
            while i >= 0 {
                let (c, t) = (a(i as usize), a(i as usize + 1));
                acc = Fm::bin(1, Fm::bin(0, c.clone(), t), Fm::bin(0, Fm::not(c), acc));
                i -= 2;
            }
            acc
        }
    }
}

fn pow2_reduce(a: u128, b: u128) -> (u128, u128) {
    let z = if a == 0 { b.trailing_zeros() } else if b == 0 { a.trailing_zeros() } else { a.trailing_zeros().min(b.trailing_zeros()) };
    (a >> z, b >> z)
}

/// all queries on the given handles of a store over `nvars` variables (nvars <= 100)
pub fn structural_query_checks(b: &Bdd, handles: &[usize], nvars: usize, with_cubes: bool, out: &mut Vec<(String, String)>) {
    let nodes = &b.nodes;
    let rc = recount(nodes);
    let sup = supports(nodes);
    let f = features();
    // satisfying assignments over nvars variables
    let mut sat: Vec<u128> = Vec::with_capacity(nodes.len());
    for (i, nd) in nodes.iter().enumerate() {
        sat.push(match i {
            0 => 0,
            1 => 1u128 << nvars,
            _ => (sat[nd.lo().value()] + sat[nd.hi().value()]) / 2,
        });
    }
    for &h in handles {
        let t = Term(h);
        for memo in [false, true] {
            match guard(|| b.paths(t, memo)) {
                Err(m) => out.push(("deepq:panic".into(), format!("paths({},{}) panicked: {}", h, memo, m))),
                Ok(p) => {
                    if p.cmodels as u128 != rc[h].0 || p.models as u128 != rc[h].1 {
                        out.push(("deepq:paths".into(), format!("paths({}, memo={}) = ({},{}) but the diagram has ({},{}) paths to bottom/top", h, memo, p.cmodels, p.models, rc[h].0, rc[h].1)));
                    }
                }
            }
            if memo && f.adhoccounting && !f.adhoccountmodels {
                continue;
            }
            let (unsat_r, sat_r) = pow2_reduce((1u128 << nvars) - sat[h], sat[h]);
            match guard(|| b.models(t, memo)) {
                Err(m) => out.push(("deepq:models".into(), format!("models({},{}) panicked: {}", h, memo, m))),
                Ok(m) => {
                    let ok = match ((m.models as u128).checked_mul(unsat_r), (m.cmodels as u128).checked_mul(sat_r)) {
                        (Some(x), Some(y)) => x == y && (m.models > 0 || m.cmodels > 0),
                        _ => false,
                    };
                    if !ok {
                        out.push(("deepq:models".into(), format!("models({}, memo={}) = ({},{}) is not in the ratio {}:{} of counter-models to models (diagram of depth {})", h, memo, m.cmodels, m.models, unsat_r, sat_r, rc[h].2)));
                    }
                }
            }
        }
        match guard(|| b.max_depth(t)) {
            Err(m) => out.push(("deepq:panic".into(), format!("max_depth({}) panicked: {}", h, m))),
            Ok(d) => {
                if d != rc[h].2 {
                    out.push(("deepq:depth".into(), format!("max_depth({}) = {} but the longest path has {} decisions", h, d, rc[h].2)));
                }
            }
        }
        match guard(|| b.var_dependencies(t)) {
            Err(m) => out.push(("deepq:panic".into(), format!("var_dependencies({}) panicked: {}", h, m))),
            Ok(s) => {
                let mut have: Vec<usize> = s.iter().map(|v| v.value()).collect();
                have.sort();
                if have != sup[h] {
                    out.push(("deepq:dependencies".into(), format!("var_dependencies({}) = {:?} but the diagram tests {:?}", h, have, sup[h])));
                }
            }
        }
        if with_cubes && h >= 2 {
            structural_cube_checks(b, h, nvars, &rc, out);
        }
        if out.len() > 30 {
            return;
        }
    }
}

/// does every assignment in the cube (with the goal variable at the goal value) lead from `h` to the leaf `goal`?
fn cube_implies(b: &Bdd, h: usize, neg: &[Var], pos: &[Var], gv: usize, goal: bool) -> bool {
    if h < 2 {
        return (h == 1) == goal;
    }
    let nd = b.nodes[h];
    let v = nd.var();
    if pos.contains(&v) {
        cube_implies(b, nd.hi().value(), neg, pos, gv, goal)
    } else if neg.contains(&v) {
        cube_implies(b, nd.lo().value(), neg, pos, gv, goal)
    } else if v.value() == gv {
        cube_implies(b, if goal { nd.hi().value() } else { nd.lo().value() }, neg, pos, gv, goal)
    } else {
        cube_implies(b, nd.lo().value(), neg, pos, gv, goal) && cube_implies(b, nd.hi().value(), neg, pos, gv, goal)
    }
}

fn structural_cube_checks(b: &Bdd, h: usize, nvars: usize, rc: &[(u128, u128, usize)], out: &mut Vec<(String, String)>) {
    for goal in [false, true] {
        let paths = if goal { rc[h].1 } else { rc[h].0 };
        if paths > 600 {
            continue;
        }
        for gv in [0, nvars / 2, nvars - 1, nvars] {
            let cubes = match guard(|| b.interpretations(Term(h), goal, Var(gv), &[], &[])) {
                Ok(c) => c,
                Err(m) => {
                    out.push(("deepcubes:panic".into(), format!("interpretations({},{},{}) panicked: {}", h, goal, gv, m)));
                    continue;
                }
            };
            let nn = nvars.max(gv + 1);
            // (counter-)models in the region where the goal variable has the goal value, over nn variables
            let mut q: Vec<u128> = Vec::with_capacity(h + 1);
            for (i, nd) in b.nodes.iter().enumerate().take(h + 1) {
                q.push(match i {
                    0 => 0,
                    1 => 1u128 << (nn - 1),
                    _ => {
                        if nd.var().value() == gv {
                            q[if goal { nd.hi().value() } else { nd.lo().value() }]
                        } else {
                            (q[nd.lo().value()] + q[nd.hi().value()]) / 2
                        }
                    }
                });
            }
            let want = if goal { q[h] } else { (1u128 << (nn - 1)) - q[h] };
            let mut covered: u128 = 0;
            let mut bad = false;
            for (neg, pos) in &cubes {
                if neg.iter().any(|v| pos.contains(v)) {
                    out.push(("deepcubes:inconsistent".into(), format!("a cube of interpretations({},{},{}) has a variable on both sides", h, goal, gv)));
                    bad = true;
                }
                if (goal && neg.iter().any(|v| v.value() == gv)) || (!goal && pos.iter().any(|v| v.value() == gv)) {
                    out.push(("deepcubes:contradict-goal".into(), format!("a cube of interpretations({},{},{}) gives the goal variable the opposite value", h, goal, gv)));
                    bad = true;
                }
                if neg.iter().chain(pos.iter()).any(|v| v.value() >= nn) {
                    out.push(("deepcubes:unknown-variable".into(), format!("a cube of interpretations({},{},{}) mentions a variable outside the diagram", h, goal, gv)));
                    bad = true;
                }
                if bad {
                    break;
                }
                if !cube_implies(b, h, neg, pos, gv, goal) {
                    out.push(("deepcubes:wrong-cover".into(), format!("a cube of interpretations({},{},{}) contains an assignment that is not a {}: {:?}", h, goal, gv, if goal { "model" } else { "counter-model" }, (neg, pos))));
                    bad = true;
                    break;
                }
                let mut vars: Vec<usize> = neg.iter().chain(pos.iter()).map(|v| v.value()).collect();
                vars.push(gv);
                vars.sort();
                vars.dedup();
                covered += 1u128 << (nn - vars.len());
            }
            if bad {
                continue;
            }
            for i in 0..cubes.len() {
                for j in 0..i {
                    let (a, c) = (&cubes[i], &cubes[j]);
                    let clash = a.0.iter().any(|v| c.1.contains(v)) || a.1.iter().any(|v| c.0.contains(v));
                    if !clash {
                        out.push(("deepcubes:overlap".into(), format!("cubes {:?} and {:?} of interpretations({},{},{}) overlap", c, a, h, goal, gv)));
                        bad = true;
                        break;
                    }
                }
                if bad {
                    break;
                }
            }
            if !bad && covered != want {
                out.push(("deepcubes:wrong-cover".into(), format!("the {} cubes of interpretations({},{},{}) cover {} assignments where the goal variable has the goal value, there are {} {}", cubes.len(), h, goal, gv, covered, want, if goal { "models" } else { "counter-models" })));
            }
        }
    }
}

pub const STORE_KINDS: [&str; 6] = ["plain store", "store with a sender whose receiver lives", "store with a sender whose receiver went away after the variables were made", "store exported, imported and repaired before the queries", "store repaired (fix_import) before the queries", "store in which every restriction of the function was made before the queries"];

/// one deep formula, built in one of three kinds of store, every node queried
pub fn deep_fn_case(kind: usize, n: usize, store: usize) -> Vec<(String, String)> {
    let mut out = vec![];
    let fm = deep_fm(kind, n);
    let built = guard(|| {
        #[cfg(feature = "frontend")]
        let (mut b, keep) = match store {
            0 => (Bdd::new(), None),
            _ => {
                let (s, r) = crossbeam_channel::unbounded();
                (Bdd::with_sender(s), Some(r))
            }
        };
        #[cfg(not(feature = "frontend"))]
        let (mut b, keep) = (Bdd::new(), None::<()>);
        for i in 0..n {
            b.variable(Var(i));
        }
        // the receiving end goes away now (a shadowed binding would keep it alive)
        let keep = if store == 2 {
            drop(keep);
            None
        } else {
            keep
        };
        let h = build_fm(&mut b, &fm);
        drop(keep);
        (b, h)
    });
    let (b, h) = match built {
        Ok(x) => x,
        Err(m) => return vec![("build:panic".into(), m)],
    };
    // the diagram under query is the function it is meant to be (exact comparison with the reference package)
    let mut rb = crate::refbdd::RefBdd::new();
    let r = rb.compile(&fm, &|i| i);
    if let Err(e) = crate::refbdd::same_function(&b.nodes, h, &rb, r) {
        out.push(("build:wrong-function".into(), e));
        return out;
    }
    let handles: Vec<usize> = (0..b.nodes.len()).collect();
    structural_query_checks(&b, &handles, n, true, &mut out);
    out
}

/// an ADF with wide acceptance conditions: formulacounts / facet_count of the object and the CLI's --counter output
pub fn deep_adf(n: usize) -> crate::large::LargeAdf {
    let labels: Vec<String> = (0..n).map(|i| format!("w{:02}", i)).collect();
    let mut conds = vec![];
    for i in 0..n {
        conds.push(match i {
            0 => deep_fm(0, n),
            1 => deep_fm(1, n),
            2 => deep_fm(3, n),
            3 => deep_fm(2, n.min(16)),
            4 => deep_fm(7, n),
            5 => deep_fm(6, n),
            _ => match i % 3 {
                0 => Fm::Atom(i - 1),
                1 => Fm::not(Fm::Atom(i - 2)),
                _ => Fm::bin(0, Fm::Atom(i - 1), Fm::Atom((i + 1) % n)),
            },
        });
    }
    crate::large::LargeAdf { written: labels.clone(), labels, conds, shape: "wide conditions" }
}

fn count_ok(models: u128, cmodels: u128, sat: u128, nvars: usize) -> bool {
    let (unsat_r, sat_r) = pow2_reduce((1u128 << nvars) - sat, sat);
    match (models.checked_mul(unsat_r), cmodels.checked_mul(sat_r)) {
        (Some(x), Some(y)) => x == y && models + cmodels > 0,
        _ => false,
    }
}

pub fn deep_adf_case(n: usize, cli: Option<&str>) -> Vec<(String, String)> {
    let mut out = vec![];
    let l = deep_adf(n);
    let text = l.text(None, ("\n", "", ""));
    let parser = AdfParser::default();
    if parser.parse()(&text).is_err() {
        return vec![("parse".into(), "well-formed input rejected".into())];
    }
    let adf = match guard(|| Adf::from_parser(&parser)) {
        Ok(a) => a,
        Err(m) => return vec![("adf:panic".into(), m)],
    };
    let nodes = &adf.bdd.nodes;
    let mut sat: Vec<u128> = Vec::with_capacity(nodes.len());
    for (i, nd) in nodes.iter().enumerate() {
        sat.push(match i {
            0 => 0,
            1 => 1u128 << n,
            _ => (sat[nd.lo().value()] + sat[nd.hi().value()]) / 2,
        });
    }
    // the acceptance conditions are the functions they are meant to be
    let mut rb = crate::refbdd::RefBdd::new();
    for (i, c) in l.conds.iter().enumerate() {
        let r = rb.compile(c, &|x| x);
        if let Err(e) = crate::refbdd::same_function(nodes, adf.ac[i], &rb, r) {
            return vec![("adf:wrong-function".into(), format!("acceptance condition {}: {}", i, e))];
        }
    }
    match guard(|| adf.formulacounts(false)) {
        Ok(c) => {
            for (s, m) in c.iter().enumerate() {
                if !count_ok(m.models as u128, m.cmodels as u128, sat[adf.ac[s].value()], n) {
                    out.push(("deepadf:formulacounts".into(), format!("formulacounts(false)[{}] = {:?} for a condition with {} models of 2^{}", s, m, sat[adf.ac[s].value()], n)));
                }
            }
            if c.len() != n {
                out.push(("deepadf:formulacounts".into(), "wrong number of counts".into()));
            }
        }
        Err(m) => out.push(("deepadf:panic".into(), format!("formulacounts(false): {}", m))),
    }
    let ac = adf.ac.clone();
    match guard(|| adf.facet_count(&ac)) {
        Ok(c) => {
            for (s, (m, _)) in c.iter().enumerate() {
                if !count_ok(m.models as u128, m.cmodels as u128, sat[ac[s].value()], n) {
                    out.push(("deepadf:facet_count".into(), format!("facet_count(ac)[{}] model counts {:?} for a condition with {} models of 2^{}", s, m, sat[ac[s].value()], n)));
                }
            }
        }
        Err(m) => out.push(("deepadf:panic".into(), format!("facet_count: {}", m))),
    }
    let handles: Vec<usize> = ac.iter().map(|t| t.value()).collect();
    structural_query_checks(&adf.bdd, &handles, n, false, &mut out);
    if let Some(cli) = cli {
        let dir = format!("{}/.build/tmp-c13-{}", VERIF_DIR, std::process::id());
        let _ = std::fs::create_dir_all(&dir);
        let path = format!("{}/deep_{}.adf", dir, n);
        if std::fs::write(&path, &text).is_err() {
            machinery_error("cannot write CLI input file");
        }
        for mode in ["naive", "hybrid"] {
            let o = std::process::Command::new(cli).args(["--lib", mode, "--counter", "nai", "-q", &path]).output();
            let Ok(o) = o else { machinery_error("cannot run the CLI binary") };
            let so = String::from_utf8_lossy(&o.stdout).to_string();
            if !o.status.success() {
                out.push((format!("cli:{}:exit", mode), format!("--counter nai exits with {:?}", o.status.code())));
                continue;
            }
            let mut counts = vec![];
            for part in so.split("ModelCounts").skip(1) {
                let nums: Vec<u128> = part.split(|c: char| !c.is_ascii_digit()).filter(|x| !x.is_empty()).take(2).filter_map(|x| x.parse().ok()).collect();
                if nums.len() == 2 {
                    counts.push((nums[0], nums[1]));
                }
            }
            if counts.len() != n {
                out.push((format!("cli:{}:format", mode), format!("expected {} counts, got {}", n, counts.len())));
                continue;
            }
            for (s, (cm, m)) in counts.iter().enumerate() {
                if !count_ok(*m, *cm, sat[ac[s].value()], n) {
                    out.push((format!("cli:{}:counts", mode), format!("statement {} printed cmodels {} models {} for a condition with {} models of 2^{}", s, cm, m, sat[ac[s].value()], n)));
                }
            }
        }
        let _ = std::fs::remove_file(&path);
    }
    out
}

/// `adf-bdd --counter nai` for one ADF in naive and hybrid mode
fn cli_counter_case(cli: &str, dir: &str, idx: u64, text: &str, tts: &[TT]) -> Vec<(String, String)> {
    let n = tts.len();
    let mut out = vec![];
    let path = format!("{}/c13_{}.adf", dir, idx);
    if std::fs::write(&path, text).is_err() {
        machinery_error("cannot write CLI input file");
    }
    for mode in ["naive", "hybrid"] {
        let o = std::process::Command::new(cli).args(["--lib", mode, "--counter", "nai", "-q", &path]).output();
        let Ok(o) = o else { machinery_error("cannot run the CLI binary") };
        let so = String::from_utf8_lossy(&o.stdout).to_string();
        if !o.status.success() {
            out.push((format!("cli:{}:exit", mode), format!("--counter nai exits with {:?}", o.status.code())));
            continue;
        }
        // ModelCounts { cmodels: 1, models: 3 }
        let mut counts = vec![];
        for part in so.split("ModelCounts").skip(1) {
            let nums: Vec<u128> = part
                .split(|c: char| !c.is_ascii_digit())
                .filter(|x| !x.is_empty())
                .take(2)
                .filter_map(|x| x.parse().ok())
                .collect();
            if nums.len() == 2 {
                counts.push((nums[0], nums[1]));
            }
        }
        if counts.len() != n {
            out.push((format!("cli:{}:format", mode), format!("expected {} counts, stdout is {:?}", n, so)));
            continue;
        }
        for (s, (cm, m)) in counts.iter().enumerate() {
            let sat = tts[s].count_ones() as u128;
            let unsat = (1u128 << n) - sat;
            if m * unsat != cm * sat || m + cm == 0 {
                out.push((format!("cli:{}:counts", mode), format!("statement {} printed cmodels {} models {} for a condition with {} models / {} counter-models", s, cm, m, sat, unsat)));
            }
        }
    }
    let _ = std::fs::remove_file(&path);
    out
}

pub fn run_c13(run: &Run) {
    writers_selfcheck();
    run.set_rule("every Boolean function of <= 4 variables (all 65536 + the smaller ones, two writers) is built and every node of the resulting store is queried: paths / models (naive, memoised where documented) / max_depth / var_dependencies against independent recounts from the public node table, interpretations() cubes for both goals and every goal variable incl. one outside the diagram (disjoint, consistent, exact cover); the store exploration of C06 with the same queries in every state; impact measures, formulacounts and facet_count on the term lists of every ADF of A(2) and F(3,2); more_models/minimum on all pairs in [0,16]^2; adf-bdd --counter nai on A(2); the same functions in stores that stream their nodes (receiver alive / gone); deep diagrams (8 formula shapes, up to 64 variables, 3 kinds of store) and ADFs with wide conditions with the expected values recomputed from the node table. Non-trivial: functions depending on >= 2 variables.");
    run.assume("memoised model counts are exempt exactly under the documented feature combination (adhoccounting without adhoccountmodels); cubes are checked on non-constant diagrams only (pinned by the repository's own unit test)");
    // more_models / minimum
    let mut pairs = 0u64;
    for c in 0..=16usize {
        for m in 0..=16usize {
            let mc: ModelCounts = (c, m).into();
            pairs += 1;
            if mc.more_models() != (m >= c) {
                run.violation("counts:more_models", format!("more_models of cmodels {} models {} is {}", c, m, mc.more_models()), json!({"type": "pair", "cmodels": c, "models": m}));
            }
            if mc.minimum() != c.min(m) {
                run.violation("counts:minimum", format!("minimum of cmodels {} models {} is {}", c, m, mc.minimum()), json!({"type": "pair", "cmodels": c, "models": m}));
            }
        }
    }
    run.add_counts(pairs, pairs, pairs, 0);
    for n in 1..=4usize {
        let total = (full(n) as u64 + 1) * 2;
        let res = run.par_family(
            &format!("all functions of {} variables x 2 writers, every node queried", n),
            total,
            || (0u64, 0u64, std::collections::BTreeSet::<u64>::new()),
            |st, k| {
                let tt = (k / 2) as TT;
                let w = if k % 2 == 0 { 0 } else { 5 };
                st.0 += 1;
                if support(tt, n).len() >= 2 {
                    st.1 += 1;
                }
                st.2.insert(tt.count_ones() as u64 * 8 + support(tt, n).len() as u64);
                for (kind, msg) in fn_case(tt, n, w) {
                    run.violation(&kind, format!("{} (function {:#x} over {} variables, writer {})", msg, tt, n, WRITER_NAMES[w]), json!({"type": "function", "tt": tt, "vars": n, "writer": w}));
                }
            },
            &|k| json!({"type": "function", "tt": k / 2, "vars": n, "writer": if k % 2 == 0 { 0 } else { 5 }}),
        );
        for st in res {
            run.add_counts(st.0, st.0 * 20, st.0, st.1);
            run.add_outcomes(st.2);
        }
    }
    if !run.quick() {
        // five variables: one residue class modulo 4099 of all 2^32 functions (about one million)
        let n = 5usize;
        let step = 4099u64;
        let first = run.seed % step;
        let total = ((1u64 << 32) - first + step - 1) / step;
        let res = run.par_family(
            &format!("functions of 5 variables, residue class {} mod {} ({} functions), every node queried", first, step, total),
            total,
            || (0u64, 0u64),
            |st, k| {
                let tt = (first + step * k) as TT;
                st.0 += 1;
                st.1 += (support(tt, n).len() >= 2) as u64;
                for (kind, msg) in fn_case(tt, n, 5) {
                    run.violation(&kind, format!("{} (function {:#x} over 5 variables)", msg, tt), json!({"type": "function", "tt": tt, "vars": n, "writer": 5}));
                }
            },
            &|k| json!({"type": "function", "tt": first + step * k, "vars": n, "writer": 5}),
        );
        for st in res {
            run.add_counts(st.0, st.0 * 30, st.0, st.1);
        }
    }
    // the same functions in stores whose bookkeeping was REBUILT by the repair step (after a serde round trip / on the
    // live store): all functions of <= 4 variables (the variable lists of nodes whose successors test the same variable
    // but depend on different variables need four)
    {
        for n in [3usize, 4] {
            let total = (full(n) as u64 + 1) * 3;
            let res = run.par_family(
                &format!("all functions of {} variables in stores whose bookkeeping was rebuilt by the repair step (re-imported / live) or extended by restrictions, every node queried", n),
                total,
                || 0u64,
                |st, k| {
                    let tt = (k / 3) as TT;
                    let store = 3 + (k % 3) as usize;
                    *st += 1;
                    for (kind, msg) in fn_case_in(tt, n, if tt % 3 == 0 { 0 } else { 5 }, store) {
                        run.violation(&kind, format!("{} (function {:#x} over {} variables, {})", msg, tt, n, STORE_KINDS[store]), json!({"type": "function", "tt": tt, "vars": n, "writer": if tt % 3 == 0 { 0 } else { 5 }, "store": store}));
                    }
                },
                &|k| json!({"type": "function", "tt": k / 3, "vars": n, "writer": 5, "store": 3 + k % 3}),
            );
            for st in res {
                run.add_counts(st, st * 20, st, 0);
            }
        }
    }
    if cfg!(feature = "frontend") {
        let plan: Vec<usize> = if run.quick() { vec![1, 2, 3] } else { vec![1, 2, 3, 4] };
        for n in plan {
            let total = (full(n) as u64 + 1) * 2;
            let res = run.par_family(
                &format!("all functions of {} variables in stores that stream their nodes (receiver alive / gone after the variables), every node queried", n),
                total,
                || 0u64,
                |st, k| {
                    let tt = (k / 2) as TT;
                    let store = 1 + (k % 2) as usize;
                    *st += 1;
                    for (kind, msg) in fn_case_in(tt, n, 5, store) {
                        run.violation(&kind, format!("{} (function {:#x} over {} variables, {})", msg, tt, n, STORE_KINDS[store]), json!({"type": "function", "tt": tt, "vars": n, "writer": 5, "store": store}));
                    }
                },
                &|k| json!({"type": "function", "tt": k / 2, "vars": n, "writer": 5, "store": 1 + k % 2}),
            );
            for st in res {
                run.add_counts(st, st * 20, st, 0);
            }
        }
    }
    // deep diagrams (up to 64 levels: all counts fit the library's machine words)
    let ns: Vec<usize> = if run.quick() { vec![6, 13, 20, 21, 22, 25, 32, 33, 47, 63, 64] } else { (2..=64).collect() };
    let stores: Vec<usize> = if cfg!(feature = "frontend") { vec![0, 1, 2] } else { vec![0] };
    let mut items: Vec<(usize, usize, usize)> = vec![];
    for &n in &ns {
        for kind in 0..DEEP_KINDS {
            if kind == 2 && n > if run.quick() { 22 } else { 24 } {
                continue;
            }
            for &st in &stores {
                items.push((kind, n, st));
            }
        }
    }
    let res = run.par_family(
        &format!("deep diagrams: {} formula shapes x {} sizes up to 64 variables x {} kinds of store, every node queried (expected values recomputed from the node table, the function checked against the reference package)", DEEP_KINDS, ns.len(), stores.len()),
        items.len() as u64,
        || 0u64,
        |st, i| {
            let (kind, n, store) = items[i as usize];
            *st += 1;
            run.heartbeat();
            for (k, msg) in deep_fn_case(kind, n, store) {
                run.violation(&k, format!("{} ({} of {} variables, {})", msg, DEEP_KIND_NAMES[kind], n, STORE_KINDS[store]), json!({"type": "deep-fn", "kind": kind, "vars": n, "store": store, "levels_65_or_more": false}));
            }
        },
        &|i| json!({"type": "deep-fn", "kind": items[i as usize].0, "vars": items[i as usize].1, "store": items[i as usize].2, "levels_65_or_more": false}),
    );
    for st in res {
        run.add_counts(st, st * 200, st, st);
    }
    // 65 and more levels: the model counts no longer fit a machine word (recorded finding K3); everything else must hold
    let beyond: Vec<(usize, usize)> = [65usize, 66, 70, 100].iter().flat_map(|n| [0usize, 1, 3, 5].map(|k| (k, *n))).collect();
    let res = run.par_family(
        "deep diagrams of 65..100 levels (conjunction, disjunction, alternating nest, mixed literals), plain store",
        beyond.len() as u64,
        || 0u64,
        |st, i| {
            let (kind, n) = beyond[i as usize];
            *st += 1;
            for (k, msg) in deep_fn_case(kind, n, 0) {
                run.violation(&k, format!("{} ({} of {} variables)", msg, DEEP_KIND_NAMES[kind], n), json!({"type": "deep-fn", "kind": kind, "vars": n, "store": 0, "levels_65_or_more": true}));
            }
        },
        &|i| json!({"type": "deep-fn", "kind": beyond[i as usize].0, "vars": beyond[i as usize].1, "store": 0, "levels_65_or_more": true}),
    );
    for st in res {
        run.add_counts(st, st * 200, st, st);
    }
    // ADFs with wide conditions
    let cli = std::env::var("ADF_BDD_CLI").ok();
    let sizes: Vec<usize> = if run.quick() { vec![24, 32] } else { vec![8, 16, 24, 32, 40, 48, 60] };
    let res = run.par_family(
        "ADFs with wide acceptance conditions: formulacounts(false), facet_count, queries on the conditions, adf-bdd --counter nai (naive and hybrid)",
        sizes.len() as u64,
        || 0u64,
        |st, i| {
            let n = sizes[i as usize];
            *st += 1;
            run.heartbeat();
            for (k, msg) in deep_adf_case(n, cli.as_deref()) {
                run.violation(&k, format!("{} (ADF with wide conditions over {} statements)", msg, n), json!({"type": "deep-adf", "statements": n}));
            }
        },
        &|i| json!({"type": "deep-adf", "statements": sizes[i as usize]}),
    );
    for st in res {
        run.add_counts(st, st * 100, st, st);
    }
    run.sample(json!({"type": "function", "tt": 0x6996, "vars": 4, "writer": 0}));
    // exploration with queries in every state
    let flags = Flags { canonical: false, functions: false, memo: false, queries: true };
    let plan: Vec<(usize, usize)> = if run.quick() { vec![(2, 5), (3, 4)] } else { vec![(2, 6), (3, 5)] };
    for (vars, depth) in plan {
        let cfg = Explore { vars, depth, with_memo_key: false, reimports: true, flags, init: Init::Empty, name: format!("store V={} with queries", vars) };
        let st = explore(run, &cfg);
        run.add_counts(st.states, st.transitions, st.transitions, 0);
    }
    // impact measures and ADF-level counts
    let mut srcs = vec![Source::Fam(fam_a(0)), Source::Fam(fam_a(2)), Source::Fam(fam_f(3, 2))];
    if !run.quick() {
        srcs.push(Source::Fam(fam_s(run.seed)));
    }
    for src in srcs {
        let res = run.par_family(
            &format!("impact measures, formulacounts, facet_count on the term lists of {}", src.name()),
            src.size(),
            || 0u64,
            |st, k| {
                let c = src.get(k);
                *st += 1;
                for (kind, msg) in impact_case(&c.text, &c.tts) {
                    run.violation(&kind, format!("{} on {}", msg, c.text), json!({"type": "adf", "text": c.text, "tts": c.tts}));
                }
            },
            &|k| src.describe(k),
        );
        for st in res {
            run.add_counts(st, st * 10, st, 0);
        }
    }
    // CLI
    if let Ok(cli) = std::env::var("ADF_BDD_CLI") {
        let dir = format!("{}/.build/tmp-c13-{}", VERIF_DIR, std::process::id());
        let _ = std::fs::create_dir_all(&dir);
        let src = Source::Fam(fam_a(2));
        let res = run.par_family(
            "adf-bdd --counter nai (naive and hybrid mode) on A(2)",
            src.size(),
            || 0u64,
            |st, k| {
                let c = src.get(k);
                *st += 2;
                for (kind, msg) in cli_counter_case(&cli, &dir, k, &c.text, &c.tts) {
                    run.violation(&kind, format!("{} on {}", msg, c.text), json!({"type": "cli-counter", "text": c.text, "tts": c.tts}));
                }
            },
            &|k| src.describe(k),
        );
        for st in res {
            run.add_counts(0, st, st, 0);
        }
        let _ = std::fs::remove_dir_all(&dir);
    } else {
        run.add_family(FamilyCov { name: "adf-bdd --counter nai".into(), size: 256, done: 0, exhaustive: false, note: "ADF_BDD_CLI not set: CLI clause skipped".into() });
    }
    // once more with a logger that accepts TRACE records
    crate::report::trace_logging(true);
    for n in 1..=3usize {
        let total = (full(n) as u64 + 1) * 2;
        let res = run.par_family(
            &format!("all functions of {} variables x 2 writers with trace logging switched on", n),
            total,
            || 0u64,
            |st, k| {
                let tt = (k / 2) as TT;
                let w = if k % 2 == 0 { 0 } else { 5 };
                *st += 1;
                for (kind, msg) in fn_case(tt, n, w) {
                    run.violation(&format!("trace-logging:{}", kind), format!("{} (function {:#x} over {} variables; a logger accepting TRACE records is installed)", msg, tt, n), json!({"type": "function", "tt": tt, "vars": n, "writer": w, "trace_logging": true}));
                }
            },
            &|k| json!({"type": "function", "tt": k / 2, "vars": n, "writer": if k % 2 == 0 { 0 } else { 5 }, "trace_logging": true}),
        );
        for st in res {
            run.add_counts(st, st * 20, st, 0);
        }
    }
    crate::report::trace_logging(false);
    run.extra("states_are", json!("diagram stores / functions / ADFs whose nodes are queried"));
    run.extra("transitions_are", json!("public queries compared with independent recounts (approximate count for the per-function sweep)"));
}

pub fn replay(c: &Value) -> Vec<(String, String)> {
    match c["type"].as_str().unwrap_or("") {
        "function" => fn_case_in(c["tt"].as_u64().unwrap_or(0) as TT, c["vars"].as_u64().unwrap_or(3) as usize, c["writer"].as_u64().unwrap_or(0) as usize, c["store"].as_u64().unwrap_or(0) as usize),
        "deep-fn" => deep_fn_case(c["kind"].as_u64().unwrap_or(0) as usize, c["vars"].as_u64().unwrap_or(20) as usize, c["store"].as_u64().unwrap_or(0) as usize),
        "deep-adf" => deep_adf_case(c["statements"].as_u64().unwrap_or(24) as usize, std::env::var("ADF_BDD_CLI").ok().as_deref()),
        "pair" => {
            let (cm, m) = (c["cmodels"].as_u64().unwrap_or(0) as usize, c["models"].as_u64().unwrap_or(0) as usize);
            let mc: ModelCounts = (cm, m).into();
            let mut out = vec![];
            if mc.more_models() != (m >= cm) {
                out.push(("counts:more_models".into(), format!("more_models of cmodels {} models {} is {}", cm, m, mc.more_models())));
            }
            if mc.minimum() != cm.min(m) {
                out.push(("counts:minimum".into(), "minimum wrong".into()));
            }
            out
        }
        "adf" => {
            let tts: Vec<TT> = c["tts"].as_array().map(|a| a.iter().map(|x| x.as_u64().unwrap_or(0) as TT).collect()).unwrap_or_default();
            impact_case(c["text"].as_str().unwrap_or(""), &tts)
        }
        "cli-counter" => {
            let tts: Vec<TT> = c["tts"].as_array().map(|a| a.iter().map(|x| x.as_u64().unwrap_or(0) as TT).collect()).unwrap_or_default();
            let Ok(cli) = std::env::var("ADF_BDD_CLI") else { machinery_error("ADF_BDD_CLI not set") };
            let dir = format!("{}/.build/tmp-c13-replay", VERIF_DIR);
            let _ = std::fs::create_dir_all(&dir);
            cli_counter_case(&cli, &dir, 0, c["text"].as_str().unwrap_or(""), &tts)
        }
        _ => crate::c06_07::replay("C13", c),
    }
}
