//! C14: persistence round trips (serde JSON + fix_import; node list + ordering + roots as the web service's
//! database layer stores them; CLI --export / --import) at every point of an object's life.

use crate::adfcalls::*;
use crate::bddx::*;
use crate::cli::*;
use crate::fam::*;
use crate::oracle::*;
use crate::report::*;
use crate::sem::cmp_models;
use crate::src_adf::*;
use crate::store::{check_state, Flags};
use adf_bdd::adf::heuristics::Heuristic;
use adf_bdd::adf::Adf;
use adf_bdd::adfbiodivine::Adf as BdAdf;
use adf_bdd::datatypes::adf::VarContainer;
use adf_bdd::datatypes::{BddNode, Term, Var};
use adf_bdd::obdd::Bdd;
use adf_bdd::parser::AdfParser;
use serde_json::{json, Value};
use std::collections::HashMap;
use std::sync::{Arc, RwLock};

const STEP_BUDGET: u64 = 200_000;

/// round trip (a): serde JSON export, import, documented repair step
pub fn roundtrip_serde(adf: &Adf) -> Adf {
    let text = serde_json::to_string(adf).expect("export must work");
    let mut back: Adf = serde_json::from_str(&text).expect("import of an export must work");
    back.fix_import();
    back
}

/// round trip (b): exactly the encoding of the web service's SimplifiedAdf: everything as strings
pub fn roundtrip_dblayer(adf: &Adf) -> Adf {
    let names: Vec<String> = adf.ordering.names().read().unwrap().clone();
    let mapping: HashMap<String, String> = adf.ordering.mappings().read().unwrap().iter().map(|(k, v)| (k.clone(), v.to_string())).collect();
    let nodes: Vec<(String, String, String)> = adf.bdd.nodes.iter().map(|n| (n.var().0.to_string(), n.lo().0.to_string(), n.hi().0.to_string())).collect();
    let ac: Vec<String> = adf.ac.iter().map(|t| t.0.to_string()).collect();
    // ... and back
    let bdd = Bdd::from(
        nodes
            .into_iter()
            .map(|(v, l, h)| BddNode::new(Var(v.parse().unwrap()), Term(l.parse().unwrap()), Term(h.parse().unwrap())))
            .collect::<Vec<BddNode>>(),
    );
    let vc = VarContainer::from_parser(
        Arc::new(RwLock::new(names)),
        Arc::new(RwLock::new(mapping.into_iter().map(|(k, v)| (k, v.parse().unwrap())).collect())),
    );
    Adf::from((vc, bdd, ac.into_iter().map(|t| Term(t.parse().unwrap())).collect()))
}

/// answers whose ORDER is compared between the original and the restored object (same node table, so raw handles too)
fn ordered_answers(adf: &mut Adf) -> Vec<(&'static str, Vec<Vec<Term>>)> {
    let mut v = semantics(adf);
    v.push(("stable_nogood(MinModMinPathsMaxVarImp)", adf.stable_nogood(Heuristic::MinModMinPathsMaxVarImp).collect()));
    v.push(("stable_nogood(MinModMaxVarImpMinPaths)", adf.stable_nogood(Heuristic::MinModMaxVarImpMinPaths).collect()));
    v.push(("stable_count_optimisation_heu_b", adf.stable_count_optimisation_heu_b().collect()));
    v
}

fn semantics(adf: &mut Adf) -> Vec<(&'static str, Vec<Vec<Term>>)> {
    let mut v = vec![];
    v.push(("grounded", vec![adf.grounded()]));
    v.push(("complete", adf.complete().collect()));
    v.push(("stable", adf.stable().collect()));
    v.push(("stable_count_optimisation_heu_a", adf.stable_count_optimisation_heu_a().collect()));
    v.push(("stable_nogood(Simple)", adf.stable_nogood(Heuristic::Simple).collect()));
    let (s, r) = crossbeam_channel::unbounded();
    adf.two_val_nogood_channel(Heuristic::MinModMinPathsMaxVarImp, s);
    v.push(("two_val_nogood_channel", r.try_iter().collect()));
    v
}

pub fn state_case(text: &str, tts: &[TT], bridged: bool, seq: &[usize]) -> Vec<(String, String)> {
    state_case_g(text, tts, bridged, seq, false)
}

/// `grown`: before the export a second parser that shares the object's dictionary (AdfParser::with_var_container)
/// parses a further module, so the shared ordering lists more statements than the object has conditions
pub fn state_case_g(text: &str, tts: &[TT], bridged: bool, seq: &[usize], grown: bool) -> Vec<(String, String)> {
    let n = tts.len();
    let mut out = vec![];
    let parser = AdfParser::default();
    if !crate::fam::parse_into(&parser, text) {
        return vec![("parse".into(), "well-formed input rejected".into())];
    }
    adf_bdd::verif::set_budget(Some(STEP_BUDGET));
    let orig = guard(|| {
        let mut adf = if bridged { BdAdf::from_parser(&parser).hybrid_step_opt(false) } else { Adf::from_parser(&parser) };
        for c in seq {
            let _ = exec(&mut adf, *c);
        }
        if grown {
            let p2 = AdfParser::with_var_container(adf.ordering.clone());
            if p2.parse()("s(zz8).s(zz9).ac(zz8,neg(zz9)).ac(zz9,zz8).").is_err() {
                panic!("the second module is rejected");
            }
        }
        adf
    });
    adf_bdd::verif::set_budget(None);
    let orig = match orig {
        Ok(a) => a,
        Err(m) => return vec![("original:panic".into(), m)],
    };
    let names: Vec<&str> = seq.iter().map(|c| CALL_NAMES[*c]).collect();
    let wants = [
        ("grounded", [grounded(tts)].into_iter().collect::<std::collections::BTreeSet<_>>()),
        ("complete", complete(tts)),
        ("stable", stable(tts)),
        ("stable_count_optimisation_heu_a", stable(tts)),
        ("stable_nogood(Simple)", stable(tts)),
        ("two_val_nogood_channel", models2(tts)),
    ];
    for (rt, f) in [("serde+fix_import", roundtrip_serde as fn(&Adf) -> Adf), ("node-list rebuild", roundtrip_dblayer as fn(&Adf) -> Adf)] {
        adf_bdd::verif::set_budget(Some(STEP_BUDGET));
        let back = guard(|| f(&orig));
        adf_bdd::verif::set_budget(None);
        let mut back = match back {
            Ok(b) => b,
            Err(m) => {
                out.push((format!("{}:panic", rt), format!("{} (export after {:?})", m, names)));
                continue;
            }
        };
        if back.bdd.nodes != orig.bdd.nodes {
            out.push((format!("{}:renumbered", rt), format!("node table differs after the round trip (export after {:?}): {} vs {}", names, nodes_json(&back.bdd.nodes), nodes_json(&orig.bdd.nodes))));
            continue;
        }
        if back.ac != orig.ac {
            out.push((format!("{}:roots", rt), format!("root handles differ: {:?} vs {:?}", back.ac, orig.ac)));
        }
        let (bn, on) = (back.ordering.names().read().unwrap().clone(), orig.ordering.names().read().unwrap().clone());
        if bn != on || (0..n).any(|i| back.ordering.variable(&on[i]) != Some(Var(i))) {
            out.push((format!("{}:ordering", rt), format!("statement ordering differs: {:?} vs {:?}", bn, on)));
        }
        // bookkeeping of the re-imported store really rebuilt
        let mut o2 = vec![];
        check_state(&back.bdd, n, &Flags { canonical: true, functions: false, memo: true, queries: true }, &mut o2);
        for (k, m) in o2 {
            out.push((format!("{}:{}", rt, k), format!("{} (export after {:?})", m, names)));
        }
        // the restored object answers like the original, in the same order (both get the same calls from here on)
        if seq.is_empty() && !grown {
            adf_bdd::verif::set_budget(Some(STEP_BUDGET));
            let both = guard(|| {
                let mut o2 = f(&orig);
                let mut fresh = if bridged { BdAdf::from_parser(&parser).hybrid_step_opt(false) } else { Adf::from_parser(&parser) };
                (ordered_answers(&mut fresh), ordered_answers(&mut o2))
            });
            adf_bdd::verif::set_budget(None);
            if let Ok((a, b)) = both {
                for ((name, x), (_, y)) in a.iter().zip(b.iter()) {
                    if x != y {
                        out.push((format!("{}:order:{}", rt, name), format!("the restored object answers {:?}, the original {:?}", y, x)));
                    }
                }
            }
        }
        // every semantics answer of the re-imported object
        adf_bdd::verif::set_budget(Some(STEP_BUDGET));
        let sem = guard(|| semantics(&mut back));
        adf_bdd::verif::set_budget(None);
        match sem {
            Err(m) => out.push((format!("{}:semantics-panic", rt), format!("{} (export after {:?})", m, names))),
            Ok(answers) => {
                for ((name, got), (wn, want)) in answers.iter().zip(wants.iter()) {
                    debug_assert_eq!(name, wn);
                    cmp_models(&format!("{}:{}", rt, name), got, want, n, &mut out);
                }
            }
        }
    }
    out
}

/// CLI: export then import with the semantics flags; existing targets are never overwritten
fn cli_case(cli: &str, dir: &str, idx: u64, text: &str, tts: &[TT]) -> Vec<(String, String)> {
    let n = tts.len();
    let nm = names(n);
    let mut out = vec![];
    let input = format!("{}/in_{}.adf", dir, idx);
    let exp = format!("{}/exp_{}.json", dir, idx);
    std::fs::write(&input, text).unwrap_or_else(|_| machinery_error("cannot write input file"));
    let _ = std::fs::remove_file(&exp);
    let o = run_cli(cli, &["--lib".into(), "naive".into(), "--export".into(), exp.clone(), "-q".into(), input.clone()]);
    if o.code != Some(0) {
        out.push(("cli:export-exit".into(), format!("export run exits with {:?}: {}", o.code, o.stderr.chars().take(200).collect::<String>())));
        return out;
    }
    let Ok(exported) = std::fs::read(&exp) else {
        out.push(("cli:export-missing".into(), "export run did not create the file".into()));
        return out;
    };
    // the exported file is an Adf whose node table equals the in-process one
    match serde_json::from_slice::<Adf>(&exported) {
        Err(e) => out.push(("cli:export-unreadable".into(), format!("exported file is not an importable Adf: {}", e))),
        Ok(a) => {
            let parser = AdfParser::default();
            if parser.parse()(text).is_ok() {
                let fresh = Adf::from_parser(&parser);
                if a.bdd.nodes != fresh.bdd.nodes || a.ac != fresh.ac {
                    out.push(("cli:export-content".into(), "exported node table / roots differ from the in-process construction".into()));
                }
            }
        }
    }
    // an import whose --export names the imported file itself (directly and through ./): the file is an existing export
    // file like any other - neither its bytes nor its modification time may change
    {
        let meta_before = std::fs::metadata(&exp).and_then(|m| m.modified()).ok();
        let dotted = match exp.rfind('/') {
            Some(i) => format!("{}/./{}", &exp[..i], &exp[i + 1..]),
            None => format!("./{}", exp),
        };
        for target in [exp.clone(), dotted] {
            let o = run_cli(cli, &["--lib".into(), "naive".into(), "--import".into(), "--grd".into(), "--export".into(), target.clone(), "-q".into(), exp.clone()]);
            if o.code != Some(0) {
                out.push(("cli:import-export-onto-itself:exit".into(), format!("--import with --export {} (the imported file) exits with {:?}", target, o.code)));
            }
            let now = std::fs::read(&exp).unwrap_or_default();
            let meta_now = std::fs::metadata(&exp).and_then(|m| m.modified()).ok();
            if now != exported || meta_now != meta_before {
                out.push(("cli:overwrote-existing-file".into(), format!("--import X --export {} rewrote the existing export file X (bytes {}, modification time {})", target, if now != exported { "changed" } else { "equal" }, if meta_now != meta_before { "changed" } else { "equal" })));
                let _ = std::fs::write(&exp, &exported);
                break;
            }
        }
    }
    let wants: Vec<(&str, Vec<Interp>)> = vec![
        ("--grd", vec![grounded(tts)]),
        ("--com", complete(tts).into_iter().collect()),
        ("--stm", stable(tts).into_iter().collect()),
        ("--stmng", stable(tts).into_iter().collect()),
    ];
    for (flag, want) in &wants {
        let o = run_cli(cli, &["--lib".into(), "naive".into(), "--import".into(), flag.to_string(), "-q".into(), exp.clone()]);
        if o.code != Some(0) {
            out.push((format!("cli:import{}:exit", flag), format!("import run exits with {:?}: {}", o.code, o.stderr.chars().take(200).collect::<String>())));
            continue;
        }
        match parse_stdout(&o.stdout) {
            Err(l) => out.push((format!("cli:import{}:format", flag), format!("unreadable line {:?}", l))),
            Ok(lines) => {
                let mut got: Vec<Interp> = vec![];
                for l in &lines {
                    match to_interp(l, &nm) {
                        Some(v) => got.push(v),
                        None => out.push((format!("cli:import{}:labels", flag), format!("line does not label exactly the declared statements: {:?}", l))),
                    }
                }
                let mut g = got.clone();
                g.sort();
                let mut w = want.clone();
                w.sort();
                if g != w {
                    out.push((format!("cli:import{}:answer", flag), format!("imported ADF answers {:?}, definition {:?}", g.iter().map(|x| interp_str(x)).collect::<Vec<_>>(), w.iter().map(|x| interp_str(x)).collect::<Vec<_>>())));
                }
            }
        }
    }
    // never overwrite: existing file, directory, symlink to a file
    let marker = b"PRECIOUS CONTENT\n".to_vec();
    let target = format!("{}/keep_{}.json", dir, idx);
    let link = format!("{}/link_{}.json", dir, idx);
    let sub = format!("{}/dir_{}", dir, idx);
    std::fs::write(&target, &marker).unwrap();
    let _ = std::fs::remove_file(&link);
    std::os::unix::fs::symlink(&target, &link).unwrap();
    let _ = std::fs::create_dir_all(&sub);
    // an existing EMPTY file is an existing file too
    let empty = format!("{}/empty_{}.json", dir, idx);
    std::fs::write(&empty, b"").unwrap();
    let o = run_cli(cli, &["--lib".into(), "naive".into(), "--grd".into(), "--export".into(), empty.clone(), "-q".into(), input.clone()]);
    if std::fs::metadata(&empty).map(|m| m.len()).unwrap_or(1) != 0 {
        out.push(("cli:export-overwrote".into(), "export onto an existing empty file wrote into it".into()));
    }
    if o.code != Some(0) {
        out.push(("cli:export-existing-exit".into(), format!("export onto an existing empty file exits with {:?}", o.code)));
    }
    let _ = std::fs::remove_file(&empty);
    for (what, path) in [("existing file", &target), ("symlink to an existing file", &link), ("existing directory", &sub)] {
        let o = run_cli(cli, &["--lib".into(), "naive".into(), "--grd".into(), "--export".into(), path.clone(), "-q".into(), input.clone()]);
        if std::fs::read(&target).ok().as_ref() != Some(&marker) {
            out.push(("cli:export-overwrote".into(), format!("export onto an {} changed the existing file", what)));
            std::fs::write(&target, &marker).unwrap();
        }
        if !std::path::Path::new(&sub).is_dir() {
            out.push(("cli:export-overwrote".into(), "export replaced an existing directory".into()));
        }
        if o.code != Some(0) {
            out.push(("cli:export-existing-exit".into(), format!("export onto an {} exits with {:?}", what, o.code)));
        } else if parse_stdout(&o.stdout).ok().map(|l| l.len()) != Some(1) {
            out.push(("cli:export-existing-answer".into(), format!("export onto an {}: the requested grounded line is not printed: {:?}", what, o.stdout)));
        }
    }
    // a fresh export into a directory that holds other files whose names are derived from the target's: afterwards the
    // directory holds exactly what it held before plus the target, every old file byte-identical
    {
        let sub2 = format!("{}/sib_{}", dir, idx);
        let _ = std::fs::remove_dir_all(&sub2);
        std::fs::create_dir_all(&sub2).unwrap();
        let names = ["state.tmp", "state.json.tmp", "state.json~", ".state.json.swp", "state.bak", "state", "state.json.part", "state.new", "tmp", "state.json.lock"];
        for nm in names {
            std::fs::write(format!("{}/{}", sub2, nm), format!("PRECIOUS {}\n", nm)).unwrap();
        }
        let tgt = format!("{}/state.json", sub2);
        let o = run_cli(cli, &["--lib".into(), "naive".into(), "--grd".into(), "--export".into(), tgt.clone(), "-q".into(), input.clone()]);
        if o.code != Some(0) {
            out.push(("cli:export-exit".into(), format!("export into a directory with other files exits with {:?}", o.code)));
        }
        let mut listing: Vec<String> = std::fs::read_dir(&sub2).map(|d| d.filter_map(|e| e.ok()).map(|e| e.file_name().to_string_lossy().to_string()).collect()).unwrap_or_default();
        listing.sort();
        let mut want: Vec<String> = names.iter().map(|s| s.to_string()).collect();
        want.push("state.json".into());
        want.sort();
        if listing != want {
            out.push(("cli:export-touched-other-files".into(), format!("after a fresh export to state.json the directory holds {:?}, expected {:?}", listing, want)));
        }
        for nm in names {
            if std::fs::read(format!("{}/{}", sub2, nm)).ok() != Some(format!("PRECIOUS {}\n", nm).into_bytes()) {
                out.push(("cli:export-overwrote".into(), format!("a fresh export to state.json changed the existing file {:?} next to it", nm)));
            }
        }
        let _ = std::fs::remove_dir_all(&sub2);
    }
    // the target appears while the CLI is still reading its input: the input is a FIFO the harness feeds, so the
    // other process's file creation falls between the start of the CLI and its export step
    out.extend(late_target_schedule(cli, dir, idx, text, &marker));
    for p in [&input, &exp, &target, &link] {
        let _ = std::fs::remove_file(p);
    }
    let _ = std::fs::remove_dir_all(&sub);
    out
}

/// export / import through the CLI with labels that the two sortings reorder or that carry blanks at their ends, every
/// pair of sorting flags at export and at import time: the imported object answers by the SAME labels as the definition
/// (a sorting flag given to an import run must not move labels to other statements; labels survive the file verbatim)
fn cli_labels_case(cli: &str, dir: &str, idx: u64, tts: &[TT], labels: &[&str]) -> Vec<(String, String)> {
    let n = tts.len();
    let nm: Vec<String> = labels.iter().take(n).map(|s| s.to_string()).collect();
    let written: Vec<String> = nm.iter().map(|l| if l.chars().all(|c| c.is_ascii_alphanumeric()) { l.clone() } else { format!("\"{}\"", l) }).collect();
    let text = crate::fam::adf_text_fm(&crate::fam::adf_fms(tts, idx), &written);
    let mut out = vec![];
    let input = format!("{}/lin_{}_{}.adf", dir, idx, labels[0].len() * 7 + labels[1].len());
    std::fs::write(&input, &text).unwrap_or_else(|_| machinery_error("cannot write input file"));
    let wants: Vec<(&str, Vec<Interp>)> = vec![("--grd", vec![grounded(tts)]), ("--com", complete(tts).into_iter().collect()), ("--stm", stable(tts).into_iter().collect())];
    let sorts = ["", "--lx", "--an"];
    for (ei, es) in sorts.iter().enumerate() {
        let exp = format!("{}.exp{}.json", input, ei);
        let _ = std::fs::remove_file(&exp);
        let mut args: Vec<String> = vec!["--lib".into(), "naive".into(), "--export".into(), exp.clone(), "-q".into()];
        if !es.is_empty() {
            args.push(es.to_string());
        }
        args.push(input.clone());
        let o = run_cli(cli, &args);
        if o.code != Some(0) || !std::path::Path::new(&exp).exists() {
            out.push(("cli:export-exit".into(), format!("export run ({}) exits with {:?}: {}", es, o.code, o.stderr.chars().take(200).collect::<String>())));
            continue;
        }
        for is in sorts.iter() {
            for (flag, want) in &wants {
                let mut args: Vec<String> = vec!["--lib".into(), "naive".into(), "--import".into(), flag.to_string(), "-q".into()];
                if !is.is_empty() {
                    args.push(is.to_string());
                }
                args.push(exp.clone());
                let o = run_cli(cli, &args);
                let what = format!("exported with [{}], imported with [{}] {}", es, is, flag);
                if o.code != Some(0) {
                    out.push((format!("cli:import{}:exit", flag), format!("{}: exit {:?}: {}", what, o.code, o.stderr.chars().take(200).collect::<String>())));
                    continue;
                }
                match parse_stdout(&o.stdout) {
                    Err(l) => out.push((format!("cli:import{}:format", flag), format!("{}: unreadable line {:?}", what, l))),
                    Ok(lines) => {
                        let mut got: Vec<Interp> = vec![];
                        for l in &lines {
                            match to_interp(l, &nm) {
                                Some(v) => got.push(v),
                                None => out.push((format!("cli:import{}:labels", flag), format!("{}: the line does not label exactly the declared statements {:?}: {:?}", what, nm, l))),
                            }
                        }
                        got.sort();
                        let mut w = want.clone();
                        w.sort();
                        if got != w {
                            out.push((format!("cli:import{}:answer", flag), format!("{}: the imported ADF answers {:?} (by label), the definition gives {:?}", what, got.iter().map(|x| interp_str(x)).collect::<Vec<_>>(), w.iter().map(|x| interp_str(x)).collect::<Vec<_>>())));
                        }
                    }
                }
            }
        }
        let _ = std::fs::remove_file(&exp);
    }
    out
}

pub const LABEL_SETS: [[&str; 2]; 4] = [["b", "a"], ["b10", "b9"], [" a", "b "], ["x\t", "  y"]];

fn late_target_schedule(cli: &str, dir: &str, idx: u64, text: &str, marker: &[u8]) -> Vec<(String, String)> {
    use std::io::Write;
    use std::os::unix::fs::OpenOptionsExt;
    let mut out = vec![];
    let fifo = format!("{}/fifo_{}", dir, idx);
    let late = format!("{}/late_{}.json", dir, idx);
    let _ = std::fs::remove_file(&fifo);
    let _ = std::fs::remove_file(&late);
    if !std::process::Command::new("mkfifo").arg(&fifo).status().map(|s| s.success()).unwrap_or(false) {
        machinery_error("cannot create a FIFO");
    }
    let mut child = std::process::Command::new(cli)
        .args(["--lib", "naive", "--grd", "--export", &late, "-q", &fifo])
        .env_remove("RUST_LOG")
        .env("RUST_BACKTRACE", "0")
        .stdout(std::process::Stdio::piped())
        .stderr(std::process::Stdio::null())
        .spawn()
        .unwrap_or_else(|e| machinery_error(&format!("cannot run the CLI binary: {}", e)));
    // a non-blocking open for writing succeeds as soon as the CLI has opened the FIFO for reading (O_NONBLOCK = 0o4000)
    let t0 = std::time::Instant::now();
    let mut w = None;
    while t0.elapsed().as_secs() < 20 {
        match std::fs::OpenOptions::new().write(true).custom_flags(0o4000).open(&fifo) {
            Ok(f) => {
                w = Some(f);
                break;
            }
            Err(_) => {
                if let Ok(Some(_)) = child.try_wait() {
                    break;
                }
                std::thread::sleep(std::time::Duration::from_millis(1));
            }
        }
    }
    match w {
        None => {
            let _ = child.kill();
            let _ = child.wait();
            out.push(("cli:input-not-read".into(), "the CLI ended (or waited 20 s) without opening its input file".into()));
        }
        Some(mut w) => {
            // now the CLI is blocked reading its input: somebody else creates the export target
            std::fs::write(&late, marker).unwrap();
            let _ = w.write_all(text.as_bytes());
            drop(w);
            let o = child.wait_with_output().unwrap_or_else(|_| machinery_error("cannot wait for the CLI"));
            if std::fs::read(&late).ok().as_deref() != Some(marker) {
                out.push(("cli:export-overwrote".into(), "a file that appeared at the export target while the CLI was reading its input was overwritten by the export step".into()));
            }
            if o.status.code() != Some(0) {
                out.push(("cli:export-existing-exit".into(), format!("export onto a target that appeared while the input was read exits with {:?}", o.status.code())));
            } else if parse_stdout(&String::from_utf8_lossy(&o.stdout)).ok().map(|l| l.len()) != Some(1) {
                out.push(("cli:export-existing-answer".into(), "export onto a target that appeared while the input was read: the requested grounded line is not printed".into()));
            }
        }
    }
    let _ = std::fs::remove_file(&fifo);
    let _ = std::fs::remove_file(&late);
    out
}

/// both round trips of a large object: node table, roots, ordering identical; grounded of the re-imported object equals
/// the definition (labels are declared in the order of `grounded`)
pub fn scale_case(text: &str, grounded: &[u8], bridged: bool) -> Vec<(String, String)> {
    let mut out = vec![];
    let parser = AdfParser::default();
    if parser.parse()(text).is_err() {
        return vec![("parse".into(), "well-formed input rejected".into())];
    }
    let orig = match guard(|| if bridged { BdAdf::from_parser(&parser).hybrid_step_opt(false) } else { Adf::from_parser(&parser) }) {
        Ok(a) => a,
        Err(m) => return vec![("original:panic".into(), m)],
    };
    for (rt, f) in [("serde+fix_import", roundtrip_serde as fn(&Adf) -> Adf), ("node-list rebuild", roundtrip_dblayer as fn(&Adf) -> Adf)] {
        match guard(|| {
            let mut back = f(&orig);
            let g = back.grounded();
            (back, g)
        }) {
            Err(m) => out.push((format!("{}:panic", rt), m)),
            Ok((back, g)) => {
                if back.bdd.nodes[..orig.bdd.nodes.len().min(back.bdd.nodes.len())] != orig.bdd.nodes[..] || back.bdd.nodes.len() < orig.bdd.nodes.len() {
                    out.push((format!("{}:renumbered", rt), format!("node table differs after the round trip ({} vs {} nodes)", back.bdd.nodes.len(), orig.bdd.nodes.len())));
                }
                if back.ac != orig.ac {
                    out.push((format!("{}:roots", rt), "root handles differ".into()));
                }
                if conv(&g) != grounded {
                    out.push((format!("{}:grounded", rt), format!("grounded of the re-imported object is {}, the definition gives {}", interp_str(&conv(&g)), interp_str(grounded))));
                }
                if let Err(e) = check_structure(&back.bdd.nodes) {
                    out.push((format!("{}:store-not-canonical", rt), e));
                }
            }
        }
    }
    out
}

fn decode_seq(mut k: u64, len: usize) -> Vec<usize> {
    let mut s = vec![];
    for _ in 0..len {
        s.push((k % CALLS as u64) as usize);
        k /= CALLS as u64;
    }
    s
}

pub fn run_c14(run: &Run) {
    writers_selfcheck();
    run.set_rule("states = ADF objects (native and bridged) of the named families, fresh and after every sequence of public calls up to the stated length (the 15-call alphabet of C11, so exports happen after the node table has grown); in each state both round trips are executed: serde JSON export/import + fix_import, and the string-encoded node list + ordering + root handles exactly as the web service's database layer stores them, rebuilt through Bdd::from(nodes) and Adf::from(..). Node table, roots and ordering must be identical; the re-imported store must satisfy the canonicity, memo and query invariants; every semantics answer of the re-imported object must equal the definition. CLI: --export then --import with each semantics flag on A(2); existing file / symlink / directory targets are never modified and the run still succeeds, also when the target appears while the CLI is blocked reading its input (the input is a FIFO fed by the harness). Objects whose shared dictionary grew after construction (a second parser on the same VarContainer) are exported too. Non-trivial: states reached by >= 1 call.");
    run.assume("call histories up to length 2 before the export; ADFs with <= 3 statements");
    let quick = run.quick();
    // quick: one residue class modulo 4 of F(3,2) (selected by the seed); thorough: all of it
    let f32 = if quick {
        let mut f = fam_f(3, 2);
        f.first = run.seed % 4;
        f.step = 4;
        f.name = format!("F(3,2) class {} mod 4", run.seed % 4);
        Source::FamCompact(f)
    } else {
        Source::Fam(fam_f(3, 2))
    };
    let mut plan: Vec<(Source, usize)> = vec![(Source::FamCompact(fam_a(0)), 2), (Source::FamCompact(fam_a(2)), 2), (Source::FamCompact(fam_f(3, 1)), 2), (f32, 1)];
    if !quick {
        plan.push((Source::Fam(fam_s(run.seed)), 1));
        plan.push((Source::Fam(fam_f(4, 1)), 1));
    }
    for (src, maxlen) in plan {
        let name = format!("{}: native and bridged objects after every call sequence of length <= {}", src.name(), maxlen);
        let res = run.par_family(
            &name,
            src.size() * 2,
            || (0u64, 0u64, 0u64),
            |st, k| {
                let c = src.get(k / 2);
                let bridged = k % 2 == 1;
                for len in 0..=maxlen {
                    for sk in 0..(CALLS as u64).pow(len as u32) {
                        if run.violations_so_far() > 200 {
                            return;
                        }
                        let seq = decode_seq(sk, len);
                        st.0 += 1;
                        st.1 += 2;
                        if len > 0 {
                            st.2 += 1;
                        }
                        for (kind, msg) in state_case(&c.text, &c.tts, bridged, &seq) {
                            run.violation(&kind, format!("{} on {}", msg, c.text), json!({"type": "persist", "text": c.text, "tts": c.tts, "bridged": bridged, "calls": seq}));
                        }
                        // the shared dictionary grows before the export (short histories)
                        if len == 0 || (maxlen == 2 && len == 1) {
                            st.0 += 1;
                            st.1 += 2;
                            for (kind, msg) in state_case_g(&c.text, &c.tts, bridged, &seq, true) {
                                run.violation(&kind, format!("{} on {} (the shared dictionary grew by two statements before the export)", msg, c.text), json!({"type": "persist", "text": c.text, "tts": c.tts, "bridged": bridged, "calls": seq, "grown": true}));
                            }
                        }
                    }
                }
            },
            &|k| src.describe(k / 2),
        );
        for st in res {
            run.add_counts(st.0, st.1, st.1, st.2);
        }
    }
    // objects at scale: ring / sparse ADFs and a bridged object with a 2^17-node diagram; both round trips must
    // reproduce the node table and the grounded interpretation of the definition
    {
        let mut items: Vec<(String, String, Vec<u8>, bool, bool)> = vec![]; // name, text, grounded (declaration order), bridged, 65 or more levels
        for k in 0..(if quick { 12u64 } else { 120 }) {
            let l = crate::mid::sparse(run.seed * 1000 + k * 7);
            items.push((format!("sparse #{}", k), l.text(None, ("\n", "", "")), l.grounded(), k % 2 == 1, false));
        }
        for k in 0..(if quick { 64u64 } else { 640 }) {
            let l = crate::mid::ring(7, (k * 7919 + run.seed) % crate::mid::ring_size(7));
            items.push((format!("ring(7) #{}", k), l.text(None, ("", "", "")), l.grounded(), k % 2 == 0, false));
        }
        {
            let m = 16usize;
            let mut labels: Vec<String> = (0..m).map(|i| format!("x{}", i)).collect();
            labels.extend((0..m).map(|i| format!("y{}", i)));
            labels.push("z".into());
            let mut conds: Vec<Fm> = (0..2 * m).map(Fm::Atom).collect();
            let mut f = Fm::bin(0, Fm::Atom(0), Fm::Atom(m));
            for i in 1..m {
                f = Fm::bin(1, f, Fm::bin(0, Fm::Atom(i), Fm::Atom(m + i)));
            }
            conds.push(f);
            let l = crate::large::LargeAdf { labels: labels.clone(), written: labels, conds, shape: "big" };
            items.push(("OR of 16 products (2^17 nodes), bridged".into(), l.text(None, ("", "", "")), vec![U; 2 * m + 1], true, false));
        }
        // one condition that is the conjunction of all statements: a diagram with as many levels as statements. Up to 64
        // levels everything must hold; from 65 levels on the repair step recounts models in machine words (finding K3)
        for n in [40usize, 64, 65, 70] {
            let labels: Vec<String> = (0..n).map(|i| format!("d{:02}", i)).collect();
            let mut conds = vec![crate::c13::deep_fm(0, n)];
            conds.extend((1..n).map(|i| Fm::Atom(i - 1)));
            let l = crate::large::LargeAdf { labels: labels.clone(), written: labels, conds, shape: "deep" };
            for bridged in [false, true] {
                items.push((format!("conjunction of all {} statements{}", n, if bridged { ", bridged" } else { "" }), l.text(None, ("", "", "")), vec![U; n], bridged, n >= 65));
            }
        }
        // ladders with EXACTLY 63 ... 67 / 127 ... 129 / 255 ... 257 statements: the last statement is a fact, statement i follows
        // from statements i+1 and i+2 (shallow diagrams - two or three levels - but one round of propagation per
        // statement, each of which restricts by the highest positions first): the highest variable index is n - 1
        for n in [63usize, 64, 65, 66, 67, 127, 128, 129, 255, 256, 257] {
            let labels: Vec<String> = (0..n).map(|i| format!("l{:03}", i)).collect();
            let mut conds: Vec<Fm> = vec![];
            let mut g: Vec<u8> = vec![U; n];
            g[n - 1] = T;
            g[n - 2] = F;
            for i in (0..n - 2).rev() {
                // alternate: s_i = s_{i+1} | !s_{i+2}   /   s_i = s_{i+1} & s_{i+2}   /  s_i = s_{i+1} xor s_{i+2}
                let (a, b) = (g[i + 1] == T, g[i + 2] == T);
                g[i] = if match i % 3 { 0 => a || !b, 1 => a && b, _ => a != b } { T } else { F };
            }
            for i in 0..n {
                conds.push(if i == n - 1 {
                    Fm::Top
                } else if i == n - 2 {
                    Fm::not(Fm::Atom(n - 1))
                } else {
                    match i % 3 {
                        0 => Fm::bin(1, Fm::Atom(i + 1), Fm::not(Fm::Atom(i + 2))),
                        1 => Fm::bin(0, Fm::Atom(i + 1), Fm::Atom(i + 2)),
                        _ => Fm::bin(4, Fm::Atom(i + 1), Fm::Atom(i + 2)),
                    }
                });
            }
            let l = crate::large::LargeAdf { labels: labels.clone(), written: labels, conds, shape: "ladder" };
            for bridged in [false, true] {
                items.push((format!("ladder of exactly {} statements{}", n, if bridged { ", bridged" } else { "" }), l.text(None, ("", "", "")), g.clone(), bridged, false));
            }
        }
        let res = run.par_family(
            &format!("objects at scale: {} (sparse 70-270 statements, ring(7), a 2^17-node bridged diagram, diagrams of 40-70 levels, ladders of exactly 63-67 / 127-129 / 255-257 statements), both round trips", items.len()),
            items.len() as u64,
            || 0u64,
            |st, k| {
                let (name, text, g, bridged, deep65) = &items[k as usize];
                *st += 2;
                run.heartbeat();
                run.isolated_case(json!({"type": "persist-scale", "text": text, "grounded": g, "bridged": bridged, "levels_65_or_more": deep65}), name);
            },
            &|k| json!({"type": "persist-scale", "name": items[k as usize].0}),
        );
        for st in res {
            run.add_counts(st / 2, st, st, st);
        }
    }
    run.sample(json!({"type": "persist", "text": "s(a).s(b).ac(a,neg(b)).ac(b,neg(a)).", "bridged": true, "calls": [13, 1]}));
    // CLI
    let cli = cli_path();
    let tmp = TmpDir::new("c14");
    let src = Source::Fam(fam_a(2));
    let total = src.size();
    let stride = src.size() / total;
    let res = run.par_family(
        &format!("CLI --export / --import round trip and never-overwrite on {} ADFs of A(2)", total),
        total,
        || 0u64,
        |st, k| {
            let c = src.get(k * stride + (run.seed % stride.max(1)));
            *st += 8;
            for (kind, msg) in cli_case(&cli, &tmp.0, k, &c.text, &c.tts) {
                run.violation(&kind, format!("{} on {}", msg, c.text), json!({"type": "persist-cli", "text": c.text, "tts": c.tts}));
            }
        },
        &|k| src.describe(k * stride),
    );
    for st in res {
        run.add_counts(0, st, st, 0);
    }
    // labels that the sortings reorder / that carry blanks, every pair of sorting flags at export and import time
    {
        let src = Source::FamCompact(fam_a(2));
        let res = run.par_family(
            &format!("CLI export / import of A(2) under {} label sets x 3 sortings at export x 3 sortings at import x grd / com / stm", LABEL_SETS.len()),
            src.size() * LABEL_SETS.len() as u64,
            || 0u64,
            |st, k| {
                // quick: one residue class modulo 4 of A(2) (selected by the seed) under every label set
                if quick && (k / LABEL_SETS.len() as u64) % 4 != run.seed % 4 {
                    return;
                }
                let c = src.get(k / LABEL_SETS.len() as u64);
                let ls = &LABEL_SETS[(k % LABEL_SETS.len() as u64) as usize];
                *st += 30;
                for (kind, msg) in cli_labels_case(&cli, &tmp.0, k, &c.tts, ls) {
                    run.violation(&kind, format!("{} on A(2) member {:?} with labels {:?}", msg, c.tts, ls), json!({"type": "persist-cli-labels", "tts": c.tts, "labels": ls, "k": k}));
                }
            },
            &|k| json!({"type": "persist-cli-labels", "tts": src.get(k / LABEL_SETS.len() as u64).tts, "labels": LABEL_SETS[(k % LABEL_SETS.len() as u64) as usize], "k": k}),
        );
        for st in res {
            run.add_counts(0, st, st, st);
        }
    }
    drop(tmp);
    // once more with a logger that accepts TRACE records: A(2), native and bridged, exported fresh and after one call
    {
        crate::report::trace_logging(true);
        let src = Source::FamCompact(fam_a(2));
        let res = run.par_family(
            "A(2): native and bridged objects after every call sequence of length <= 1, with trace logging switched on",
            src.size() * 2,
            || 0u64,
            |st, k| {
                let c = src.get(k / 2);
                let bridged = k % 2 == 1;
                for len in 0..=1usize {
                    for sk in 0..(CALLS as u64).pow(len as u32) {
                        let seq = decode_seq(sk, len);
                        *st += 2;
                        for (kind, msg) in state_case(&c.text, &c.tts, bridged, &seq) {
                            run.violation(&format!("trace-logging:{}", kind), format!("{} on {} (a logger accepting TRACE records is installed)", msg, c.text), json!({"type": "persist", "text": c.text, "tts": c.tts, "bridged": bridged, "calls": seq, "trace_logging": true}));
                        }
                    }
                }
            },
            &|k| src.describe(k / 2),
        );
        for st in res {
            run.add_counts(0, st, st, 0);
        }
        crate::report::trace_logging(false);
    }
    run.extra("states_are", json!("ADF objects at the moment of export (input x back-end x call history)"));
    run.extra("transitions_are", json!("round trips executed and CLI runs"));
}

pub fn replay(c: &Value) -> Vec<(String, String)> {
    if c["type"] == "persist-cli-labels" {
        let tts: Vec<TT> = c["tts"].as_array().map(|a| a.iter().map(|x| x.as_u64().unwrap_or(0) as TT).collect()).unwrap_or_default();
        let labels: Vec<String> = c["labels"].as_array().map(|a| a.iter().map(|x| x.as_str().unwrap_or("").to_string()).collect()).unwrap_or_default();
        let ls: Vec<&str> = labels.iter().map(|s| s.as_str()).collect();
        let tmp = TmpDir::new("c14-replay");
        return cli_labels_case(&cli_path(), &tmp.0, c["k"].as_u64().unwrap_or(0), &tts, &ls);
    }
    let tts: Vec<TT> = c["tts"].as_array().map(|a| a.iter().map(|x| x.as_u64().unwrap_or(0) as TT).collect()).unwrap_or_default();
    let text = c["text"].as_str().unwrap_or("");
    if c["type"] == "persist-scale" {
        let g: Vec<u8> = c["grounded"].as_array().map(|a| a.iter().map(|x| x.as_u64().unwrap_or(2) as u8).collect()).unwrap_or_default();
        return scale_case(text, &g, c["bridged"].as_bool().unwrap_or(false));
    }
    if c["type"] == "persist-cli" {
        let tmp = TmpDir::new("c14r");
        return cli_case(&cli_path(), &tmp.0, 0, text, &tts);
    }
    let seq: Vec<usize> = c["calls"].as_array().map(|a| a.iter().map(|x| x.as_u64().unwrap_or(0) as usize).collect()).unwrap_or_default();
    state_case_g(text, &tts, c["bridged"].as_bool().unwrap_or(false), &seq, c["grown"].as_bool().unwrap_or(false))
}
