//! C15: the CLI binary built from the working tree, over inputs x library modes x sortings x flag sets x heuristics.

use crate::cli::*;
use crate::fam::*;
use crate::oracle::*;
use crate::report::*;
use crate::src_adf::*;
use serde_json::{json, Value};
use std::collections::BTreeSet;

pub const FLAGS: [&str; 10] = ["--grd", "--com", "--stm", "--stmpre", "--stmrew", "--stmrew2", "--stmca", "--stmcb", "--stmng", "--twoval"];
const MODES: [&str; 3] = ["naive", "biodivine", "hybrid"];
const SORTS: [&str; 3] = ["", "--lx", "--an"];
const HEUS: [&str; 4] = ["Simple", "MinModMinPathsMaxVarImp", "MinModMaxVarImpMinPaths", "Rand"];

/// must the mode honour the flag (index into FLAGS)? Otherwise it may print nothing or the right section.
fn must_honour(mode: &str, flag: usize) -> bool {
    match mode {
        "hybrid" => true,
        "naive" => matches!(flag, 0 | 1 | 2 | 8),
        _ => matches!(flag, 0 | 1 | 2 | 4 | 5),
    }
}

#[derive(Clone)]
pub struct Input {
    pub labels: Vec<String>,  // declaration order
    pub text: String,
    pub tts: Vec<TT>,         // over declaration order (empty if the oracle comes from formulas)
    pub ring: Option<(usize, u64)>,
}

/// extra options of a run: import of a previously exported state (naive mode only) and --counter
#[derive(Clone, Copy, Default)]
pub struct Extra {
    pub import: bool,
    pub counter: u8, // 0 none, 1 nai, 2 mem
    /// verbosity: 0 = -q (all other runs), 1 = nothing, 2 = -v, 3 = -vv, 4 = -vvv, 5 = --rust_log trace, 6 = RUST_LOG=trace
    /// in the environment. Logging goes to stderr; stdout must be the same interpretations.
    pub verb: u8,
    /// `--export <fresh file>` in the same run as the semantics flags (only the naive mode exports)
    pub export: bool,
}

static EXPORT_COUNTER: std::sync::atomic::AtomicU64 = std::sync::atomic::AtomicU64::new(0);

pub const VERB_NAMES: [&str; 7] = ["-q", "(no verbosity option)", "-v", "-vv", "-vvv", "--rust_log trace", "RUST_LOG=trace in the environment"];

fn oracle_of(inp: &Input) -> crate::mid::Oracle {
    match inp.ring {
        // (0, idx) stands for the sparse large ADF #idx
        Some((0, idx)) => crate::mid::Oracle::from_formulas(&crate::mid::sparse(idx)),
        // (1, k) stands for k self-supporting statements
        Some((1, k)) => crate::mid::Oracle::from_formulas(&crate::mid::selfsup(k as usize)),
        Some((n, idx)) => crate::mid::Oracle::from_formulas(&crate::mid::ring(n, idx)),
        None => crate::mid::Oracle::from_tts(&inp.tts),
    }
}

/// one CLI run and its judgement
pub fn cli_case(cli: &str, path: &str, inp: &Input, mode: &str, sort: usize, flagset: u32, heu: Option<&str>) -> Vec<(String, String)> {
    cli_case_x(cli, path, inp, mode, sort, flagset, heu, Extra::default())
}

#[allow(clippy::too_many_arguments)]
pub fn cli_case_x(cli: &str, path: &str, inp: &Input, mode: &str, sort: usize, flagset: u32, heu: Option<&str>, extra: Extra) -> Vec<(String, String)> {
    let mut out = vec![];
    let n = inp.labels.len();
    let mut args: Vec<String> = vec!["--lib".into(), mode.into()];
    match extra.verb {
        0 => args.push("-q".into()),
        2 => args.push("-v".into()),
        3 => args.push("-vv".into()),
        4 => args.push("-vvv".into()),
        5 => {
            args.push("--rust_log".into());
            args.push("trace".into());
        }
        _ => {}
    }
    if extra.import {
        args.push("--import".into());
    }
    let mut export_target = None;
    if extra.export {
        let dir = std::path::Path::new(path).parent().map(|p| p.to_string_lossy().to_string()).unwrap_or_else(|| ".".into());
        let t = format!("{}/export_in_run_{}_{}.json", dir, std::process::id(), EXPORT_COUNTER.fetch_add(1, std::sync::atomic::Ordering::SeqCst));
        let _ = std::fs::remove_file(&t);
        args.push("--export".into());
        args.push(t.clone());
        export_target = Some(t);
    }
    if extra.counter > 0 {
        args.push("--counter".into());
        args.push(["", "nai", "mem"][extra.counter as usize].into());
    }
    if !SORTS[sort].is_empty() {
        args.push(SORTS[sort].into());
    }
    for (i, f) in FLAGS.iter().enumerate() {
        if flagset >> i & 1 == 1 {
            args.push(f.to_string());
        }
    }
    if let Some(h) = heu {
        args.push("--heu".into());
        args.push(h.into());
    }
    args.push(path.into());
    let o = if extra.verb == 6 { run_cli_env(cli, &args, &[("RUST_LOG", "trace")]) } else { run_cli(cli, &args) };
    let tag = format!("{}{}{}{}", mode, if heu.is_some() { "+heu" } else { "" }, if extra.verb > 0 { "+verbosity" } else { "" }, if extra.export { "+export" } else { "" });
    if let Some(t) = &export_target {
        if mode == "naive" && o.code == Some(0) && !std::path::Path::new(t).exists() {
            out.push((format!("{}:export-missing", tag), "the run was asked to export but the file does not exist afterwards".into()));
        }
        let _ = std::fs::remove_file(t);
    }
    if o.code != Some(0) {
        out.push((format!("{}:exit", tag), format!("exit status {:?} for a well-formed input: {}", o.code, o.stderr.lines().last().unwrap_or("").chars().take(200).collect::<String>())));
        return out;
    }
    // --counter prints one line of counts before the interpretations
    let body: String = if extra.counter > 0 {
        let mut it = o.stdout.lines();
        match it.next() {
            Some(l) if l.contains("ModelCounts") || l.trim().is_empty() => {}
            other => {
                out.push((format!("{}:counter-line", tag), format!("--counter: first line is {:?}", other)));
            }
        }
        it.map(|l| format!("{}\n", l)).collect()
    } else {
        o.stdout.clone()
    };
    let lines = match parse_stdout(&body) {
        Ok(l) => l,
        Err(l) => {
            out.push((format!("{}:format", tag), format!("stdout line is not an interpretation: {:?}", l)));
            return out;
        }
    };
    // labels and order of every line
    let expected_order: Option<Vec<String>> = match sort {
        0 => Some(inp.labels.clone()),
        1 => {
            let mut l = inp.labels.clone();
            l.sort_by(|a, b| a.as_bytes().cmp(b.as_bytes()));
            Some(l)
        }
        _ => None,
    };
    let mut models: Vec<Interp> = vec![];
    for l in &lines {
        match to_interp(l, &inp.labels) {
            None => {
                out.push((format!("{}:labels", tag), format!("a line does not label exactly the declared statements once each: {:?}", l)));
                return out;
            }
            Some(v) => models.push(v),
        }
        if let Some(eo) = &expected_order {
            let got: Vec<&String> = l.iter().map(|x| &x.0).collect();
            if got != eo.iter().collect::<Vec<_>>() {
                out.push((format!("{}:order", tag), format!("statements are printed in the order {:?}, expected {:?} ({})", got, eo, if sort == 0 { "declaration order" } else { "byte-wise label order under --lx" })));
                return out;
            }
        }
    }
    let orc = oracle_of(inp);
    let g = orc.grounded.clone();
    let com: Vec<Interp> = orc.complete.iter().cloned().collect();
    let stm: Vec<Interp> = orc.stable.iter().cloned().collect();
    let two: Vec<Interp> = orc.two.iter().cloned().collect();
    let has = |i: usize| flagset >> i & 1 == 1;
    let mut rest: &[Interp] = &models;
    if has(0) {
        match rest.first() {
            Some(f) if *f == g => rest = &rest[1..],
            other => {
                out.push((format!("{}:grounded", tag), format!("--grd: the first line is {:?}, the grounded interpretation is {}", other.map(|x| interp_str(x)), interp_str(&g))));
                return out;
            }
        }
    }
    if has(1) {
        if rest.len() < com.len() {
            out.push((format!("{}:complete", tag), format!("--com: {} lines left for {} complete models", rest.len(), com.len())));
            return out;
        }
        let mut got: Vec<Interp> = rest[..com.len()].to_vec();
        if got.first() != Some(&g) {
            out.push((format!("{}:complete-order", tag), "--com: the complete section does not start with the grounded interpretation".into()));
        }
        got.sort();
        if got != com {
            out.push((format!("{}:complete", tag), format!("--com: printed {:?}, the complete models are {:?}", got.iter().map(|x| interp_str(x)).collect::<Vec<_>>(), com.iter().map(|x| interp_str(x)).collect::<Vec<_>>())));
            return out;
        }
        rest = &rest[com.len()..];
    }
    // the remaining lines: a x stable + b x two-valued
    let stable_flags: Vec<usize> = (2..9).filter(|i| has(*i)).collect();
    let mut amin = 0;
    let mut amax = 0;
    let mut rew_must = false;
    for f in &stable_flags {
        amax += 1;
        if must_honour(mode, *f) {
            if *f == 4 || *f == 5 {
                rew_must = true;
            } else {
                amin += 1;
            }
        }
    }
    if rew_must {
        amin += 1;
    }
    let (bmin, bmax) = if has(9) { (must_honour(mode, 9) as usize, 1) } else { (0, 0) };
    let mut got: Vec<Interp> = rest.to_vec();
    got.sort();
    let mut ok = false;
    for a in amin..=amax {
        for b in bmin..=bmax {
            let mut want: Vec<Interp> = vec![];
            for _ in 0..a {
                want.extend(stm.iter().cloned());
            }
            for _ in 0..b {
                want.extend(two.iter().cloned());
            }
            want.sort();
            if want == got {
                ok = true;
            }
        }
    }
    if !ok {
        out.push((
            format!("{}:sections", tag),
            format!(
                "after grounded/complete the output is {:?}; expected {}..{} copies of the stable models {:?} and {}..{} of the two-valued models {:?}",
                got.iter().map(|x| interp_str(x)).collect::<Vec<_>>(),
                amin,
                amax,
                stm.iter().map(|x| interp_str(x)).collect::<Vec<_>>(),
                bmin,
                bmax,
                two.iter().map(|x| interp_str(x)).collect::<Vec<_>>()
            ),
        ));
    }
    out
}

/// the 14 fixed three-statement files (0..3 stable models, two-valued non-stable models, sorting-sensitive and
/// quoted labels incl. characters reserved by biodivine)
pub fn fixed_inputs() -> Vec<Input> {
    let mk = |labels: [&str; 3], conds: [Fm; 3]| -> Input {
        let labels: Vec<String> = labels.iter().map(|s| s.to_string()).collect();
        let written: Vec<String> = labels.iter().map(|l| if l.chars().all(|c| c.is_ascii_alphanumeric()) && !l.is_empty() { l.clone() } else { format!("\"{}\"", l) }).collect();
        let mut text = String::new();
        for w in &written {
            text += &format!("s({}).\n", w);
        }
        for (i, c) in conds.iter().enumerate() {
            text += &format!("ac({},{}).\n", written[i], c.text(&written, ("", " ")));
        }
        Input { labels, text, tts: conds.iter().map(|c| c.tt(3)).collect(), ring: None }
    };
    let a = |i| Fm::Atom(i);
    let n = |f| Fm::not(f);
    vec![
        mk(["a", "b", "c"], [n(a(1)), n(a(0)), Fm::bin(0, a(0), a(2))]),
        mk(["b10", "b9", "B"], [a(0), a(1), a(2)]),
        mk(["10", "9", "x"], [n(a(1)), n(a(2)), n(a(0))]),
        mk(["c", "a", "b"], [Fm::Top, Fm::bin(1, a(0), a(1)), n(a(1))]),
        mk(["and", "or", "neg"], [Fm::bin(4, a(1), a(2)), Fm::bin(3, a(0), a(2)), Fm::bin(2, a(0), a(1))]),
        mk(["a b", "a", "b"], [n(a(1)), n(a(0)), Fm::bin(1, a(0), n(a(2)))]),
        mk(["z", "y (1)", "x&w"], [a(1), a(2), a(0)]),
        mk(["s", "ac", "c"], [Fm::bin(0, n(a(1)), n(a(2))), Fm::bin(0, n(a(0)), n(a(2))), Fm::bin(0, n(a(0)), n(a(1)))]),
        mk(["p", "q", "r"], [Fm::Bot, n(a(0)), Fm::bin(0, a(1), n(a(2)))]),
        mk(["A", "a", "1"], [Fm::bin(4, a(0), a(1)), Fm::bin(1, a(1), a(2)), n(a(2))]),
        mk(["k1", "k2", "k3"], [Fm::bin(3, a(1), a(2)), Fm::bin(3, a(0), a(2)), Fm::bin(3, a(0), a(1))]),
        mk(["u", "v", "f"], [Fm::bin(1, a(0), n(a(0))), Fm::bin(0, a(0), a(1)), Fm::bin(2, a(1), a(2))]),
        // labels that look like escape sequences of each other (underscores, hex codes)
        mk(["a b", "a_20_b", "_"], [n(a(1)), n(a(0)), Fm::bin(0, a(0), a(2))]),
        mk(["x_y", "x y", "x_5f_y"], [a(1), a(2), n(a(0))]),
        // connectives whose two operands are the same statement / equivalent formulas
        mk(["e1", "e2", "e3"], [Fm::bin(4, a(1), a(1)), Fm::bin(3, Fm::bin(1, a(0), a(2)), Fm::bin(1, a(2), a(0))), Fm::bin(2, Fm::bin(0, a(0), a(1)), Fm::bin(0, a(1), a(0)))]),
        mk(["g1", "g2", "g3"], [Fm::bin(0, a(2), a(2)), Fm::bin(1, n(a(0)), n(a(0))), Fm::bin(4, Fm::bin(1, a(0), a(1)), Fm::bin(1, a(1), a(0)))]),
    ]
}

/// CLI clause of the semantics properties (C01-C05): the given flag sets on the fixed files (sorting-sensitive, quoted
/// and keyword-like labels) and on presented members of A(2) and F(3,2) (labels not declared in sorted order, ac facts
/// in another order than the statements), x 3 library modes x 3 sortings (x heuristics where given)
pub fn cli_slice(run: &Run, flagsets: &[u32], heus: &[Option<usize>]) {
    let Ok(cli) = std::env::var("ADF_BDD_CLI") else {
        run.add_family(FamilyCov { name: "CLI clause".into(), size: 1, done: 0, exhaustive: false, note: "ADF_BDD_CLI not set: CLI clause skipped".into() });
        return;
    };
    let tmp = TmpDir::new(&format!("cli-{}", run.prop));
    let mut inputs = fixed_inputs();
    for (src, stride) in [(Source::FamPresented(fam_a(2)), 8u64), (Source::FamPresented(fam_f(3, 2)), 1715)] {
        let mut k = run.seed % stride;
        while k < src.size() {
            let c = src.get(k);
            inputs.push(Input { labels: c.labels, text: c.text, tts: c.tts, ring: None });
            k += stride;
        }
    }
    // mid-size inputs (ring ADFs with 6 and 7 statements): their diagrams grow under restriction
    for k in 0..16u64 {
        let (n, idx) = if k % 2 == 0 { (6usize, (k * 7919 + run.seed * 31) % crate::mid::ring_size(6)) } else { (7usize, (k * 104729 + run.seed * 17) % crate::mid::ring_size(7)) };
        let l = crate::mid::ring(n, idx);
        inputs.push(Input { labels: l.labels.clone(), text: l.text(None, ("\n", "", "")), tts: vec![], ring: Some((n, idx)) });
    }
    for (i, inp) in inputs.iter().enumerate() {
        std::fs::write(format!("{}/in_{}.adf", tmp.0, i), &inp.text).unwrap_or_else(|_| machinery_error("cannot write input file"));
        // exported state for the import runs (naive mode, as parsed)
        let o = run_cli(&cli, &["--lib".into(), "naive".into(), "-q".into(), "--export".into(), format!("{}/exp_{}.json", tmp.0, i), format!("{}/in_{}.adf", tmp.0, i)]);
        if o.code != Some(0) {
            run.violation("cli:export-exit", format!("--export exits with {:?} on {}", o.code, inp.text.replace('\n', "")), json!({"type": "cli", "text": inp.text, "labels": inp.labels, "tts": inp.tts, "mode": "naive", "sort": 0, "flags": 0}));
        }
    }
    let mut jobs: Vec<Job> = vec![];
    for file in 0..inputs.len() {
        for mode in 0..3 {
            for sort in 0..3 {
                for f in flagsets {
                    for h in heus {
                        jobs.push(Job { file, mode, sort, flags: *f, heu: *h, extra: Extra::default() });
                    }
                }
            }
        }
        // import of the exported state, with and without --counter (naive mode), and --counter on parsed input
        for f in flagsets {
            for counter in 0..3u8 {
                jobs.push(Job { file, mode: 0, sort: 0, flags: *f, heu: heus[0], extra: Extra { import: true, counter, verb: 0, export: false } });
            }
            for mode in [0usize, 2] {
                jobs.push(Job { file, mode, sort: file % 3, flags: *f, heu: heus[0], extra: Extra { import: false, counter: 1 + (file % 2) as u8, verb: 0, export: false } });
            }
            // the state is exported in the same run that computes the answers
            jobs.push(Job { file, mode: 0, sort: (file + 1) % 3, flags: *f, heu: heus[0], extra: Extra { export: true, ..Extra::default() } });
        }
    }
    let res = run.par_family(
        &format!("CLI clause: {} runs of the binary over {} files x 3 modes x 3 sortings", jobs.len(), inputs.len()),
        jobs.len() as u64,
        || 0u64,
        |st, j| {
            if run.violations_so_far() > 300 {
                return;
            }
            let job = &jobs[j as usize];
            let inp = &inputs[job.file];
            *st += 1;
            let path = if job.extra.import { format!("{}/exp_{}.json", tmp.0, job.file) } else { format!("{}/in_{}.adf", tmp.0, job.file) };
            for (kind, msg) in cli_case_x(&cli, &path, inp, MODES[job.mode], job.sort, job.flags, job.heu.map(|h| HEUS[h]), job.extra) {
                let flags: Vec<&str> = (0..10).filter(|i| job.flags >> i & 1 == 1).map(|i| FLAGS[i]).collect();
                run.violation(
                    &format!("cli:{}{}", if job.extra.import { "import:" } else { "" }, kind),
                    format!("{} [--lib {} {} {} {}{}{}] on {}", msg, MODES[job.mode], SORTS[job.sort], flags.join(" "), job.heu.map(|h| format!("--heu {}", HEUS[h])).unwrap_or_default(), if job.extra.import { " --import (of the exported state)" } else if job.extra.export { " --export <fresh file>" } else { "" }, ["", " --counter nai", " --counter mem"][job.extra.counter as usize], inp.text.replace('\n', "")),
                    json!({"type": "cli", "text": inp.text, "labels": inp.labels, "tts": inp.tts, "mode": MODES[job.mode], "sort": job.sort, "flags": job.flags, "heu": job.heu.map(|h| HEUS[h]), "import": job.extra.import, "counter": job.extra.counter, "export": job.extra.export, "ring": inp.ring.map(|r| vec![r.0 as u64, r.1])}),
                );
            }
        },
        &|j| json!({"type": "cli", "job": j}),
    );
    for st in res {
        run.add_counts(0, st, st, 0);
    }
    drop(tmp);
}

struct Job {
    file: usize,
    mode: usize,
    sort: usize,
    flags: u32,
    heu: Option<usize>,
    extra: Extra,
}

pub fn run_c15(run: &Run) {
    writers_selfcheck();
    run.set_rule("the CLI binary built from the working tree is run on: A(2) (all 256 ADFs, index-derived writers) x 3 library modes x {none, --lx, --an} x every single semantics flag; F(3,1) (512 ADFs) x 3 modes x cycled sorting x a residue class of the 45 flag pairs; fixed three-statement files (0-3 stable models, two-valued non-stable models, sorting-sensitive, keyword-like, quoted and biodivine-reserved labels) x 3 modes x all 1024 flag subsets; --heu with all four values (and absent) x {--stmng, --twoval, both} x {naive, hybrid} on A(2); larger inputs (ring ADFs of 6-8 statements, sparse ADFs of 70/130/270 statements with the open part at the highest positions) x 3 modes x 3 sortings; every verbosity setting (none, -v, -vv, -vvv, --rust_log, RUST_LOG) on the fixed files; malformed inputs. Oracle from the definitions: exit status 0; every stdout line is an interpretation labelling exactly the declared statements, in declaration order (no sorting) / byte-wise order (--lx); first the grounded line (--grd), then the complete models starting with the grounded one (--com), then a multiset equal to a copies of the stable models and b copies of the two-valued models, where a and b range from the number of given flags the mode must honour to the number given. Non-trivial: runs with >= 2 flags or a sorting flag.");
    run.assume("(mode, flag) pairs documented or implemented as unsupported may print nothing or the right section: naive must honour grd/com/stm/stmng, biodivine grd/com/stm/stmrew/stmrew2, hybrid everything; --stmrew and --stmrew2 together are one section; the relative order of the sections after complete is not asserted; label order under --an is not asserted");
    let quick = run.quick();
    let cli = cli_path();
    let tmp = TmpDir::new("c15");
    // inputs, written before any run starts
    let mut inputs: Vec<Input> = vec![];
    let a2 = Source::Fam(fam_a(2));
    for k in 0..a2.size() {
        let c = a2.get(k);
        inputs.push(Input { labels: names(2), text: c.text, tts: c.tts, ring: None });
    }
    let f31 = Source::FamCompact(fam_f(3, 1));
    let f31_from = inputs.len();
    for k in 0..f31.size() {
        let c = f31.get(k);
        inputs.push(Input { labels: names(3), text: c.text, tts: c.tts, ring: None });
    }
    let fixed_from = inputs.len();
    inputs.extend(fixed_inputs());
    // larger inputs: ring ADFs (6-8 statements) and sparse ADFs of 70 / 130 / 270 statements whose open part sits at
    // the highest positions (beyond 64 and 255); oracle from the formulas
    let big_from = inputs.len();
    for k in 0..(if quick { 6u64 } else { 24 }) {
        let idx = run.seed * 1000 + k * 7;
        let l = crate::mid::sparse(idx);
        inputs.push(Input { labels: l.labels.clone(), text: l.text(None, ("\n", "", "")), tts: vec![], ring: Some((0, idx)) });
    }
    for k in 0..(if quick { 9u64 } else { 60 }) {
        let n = 6 + (k % 3) as usize;
        let idx = (k * 104729 + run.seed * 17) % crate::mid::ring_size(n);
        let l = crate::mid::ring(n, idx);
        inputs.push(Input { labels: l.labels.clone(), text: l.text(None, ("\n", "", "")), tts: vec![], ring: Some((n, idx)) });
    }
    let big_to = inputs.len();
    // an input with 512 two-valued models (9 self-supporting statements): more than a buffer of a few hundred holds
    let many_from = inputs.len();
    {
        let l = crate::mid::selfsup(9);
        inputs.push(Input { labels: l.labels.clone(), text: l.text(None, ("\n", "", "")), tts: vec![], ring: Some((1, 9)) });
    }
    for (i, inp) in inputs.iter().enumerate() {
        std::fs::write(format!("{}/in_{}.adf", tmp.0, i), &inp.text).unwrap_or_else(|_| machinery_error("cannot write input file"));
    }
    let mut jobs: Vec<Job> = vec![];
    // (first, because these runs take longest) larger inputs: every mode x every sorting x {grd+com+stm, stmng+twoval (+ --heu), everything hybrid offers}
    for file in big_from..big_to {
        // complete models of the 130- and 270-statement members take seconds per run: quick asks biodivine mode only
        let n = inputs[file].labels.len();
        for mode in 0..3 {
            let with_com = n < 100 || mode == 1 || !quick;
            for sort in 0..3 {
                jobs.push(Job { file, mode, sort, flags: if with_com { 0b111 } else { 0b101 }, heu: None, extra: Extra::default() });
            }
            jobs.push(Job { file, mode, sort: file % 3, flags: (1 << 8) | (1 << 9) | 1, heu: Some(file % 3), extra: Extra::default() });
        }
        jobs.push(Job { file, mode: 2, sort: (file + 1) % 3, flags: 0b0111111101, heu: None, extra: Extra::default() });
    }
    // many models: the two-valued search (and the nogood search next to it) in the modes that offer it
    for mode in [0usize, 2] {
        jobs.push(Job { file: many_from, mode, sort: 0, flags: 1 << 9, heu: None, extra: Extra::default() });
        jobs.push(Job { file: many_from, mode, sort: mode, flags: (1 << 8) | (1 << 9), heu: Some(mode), extra: Extra::default() });
    }
    jobs.push(Job { file: many_from, mode: 2, sort: 1, flags: (1 << 2) | (1 << 6) | (1 << 7), heu: None, extra: Extra::default() });
    // A(2): single flags
    for file in 0..256 {
        for mode in 0..3 {
            for sort in 0..3 {
                for f in 0..10 {
                    jobs.push(Job { file, mode, sort, flags: 1 << f, heu: None, extra: Extra::default() });
                }
            }
        }
    }
    // F(3,1): pairs
    let mut pairs = vec![];
    for i in 0..10 {
        for j in i + 1..10 {
            pairs.push((1u32 << i) | (1 << j));
        }
    }
    for k in 0..512usize {
        for mode in 0..3 {
            for (pi, p) in pairs.iter().enumerate() {
                let class = if quick { 5 } else { 1 };
                if pi % class == (k + run.seed as usize) % class {
                    jobs.push(Job { file: f31_from + k, mode, sort: (k + pi) % 3, flags: *p, heu: None, extra: Extra::default() });
                }
            }
        }
    }
    // fixed files: all subsets
    let nfixed = big_from - fixed_from;
    for k in 0..nfixed {
        if quick && k % 3 != (run.seed % 3) as usize && k < 12 {
            continue;
        }
        for mode in 0..3 {
            for flags in 0..1024u32 {
                jobs.push(Job { file: fixed_from + k, mode, sort: (flags as usize + k) % 3, flags, heu: None, extra: Extra::default() });
            }
        }
        // labels and order under every sorting with everything printed
        for mode in 0..3 {
            for sort in 0..3 {
                jobs.push(Job { file: fixed_from + k, mode, sort, flags: 0b1000000111, heu: None, extra: Extra::default() });
            }
        }
    }
    // --heu
    for file in 0..256 {
        for mode in [0usize, 2] {
            for flags in [1u32 << 8, 1 << 9, (1 << 8) | (1 << 9)] {
                for h in 0..4 {
                    if quick && (file + h) % 2 == 1 {
                        continue;
                    }
                    jobs.push(Job { file, mode, sort: file % 3, flags, heu: Some(h), extra: Extra::default() });
                }
            }
        }
    }
    for k in 0..nfixed {
        for h in 0..4 {
            jobs.push(Job { file: fixed_from + k, mode: 2, sort: k % 3, flags: (1 << 8) | (1 << 9) | 1, heu: Some(h), extra: Extra::default() });
            jobs.push(Job { file: fixed_from + k, mode: 0, sort: k % 3, flags: (1 << 8) | 1, heu: Some(h), extra: Extra::default() });
        }
    }
    // --export in the same run as the semantics flags (naive mode): fixed and larger inputs
    for file in fixed_from..big_to {
        let n = inputs[file].labels.len();
        let flags = if n < 100 || !quick { 0b100000111 } else { 0b100000101 };
        jobs.push(Job { file, mode: 0, sort: file % 3, flags, heu: None, extra: Extra { export: true, ..Extra::default() } });
    }
    // verbosity: logging goes to stderr, stdout stays the interpretations
    for k in 0..nfixed {
        for mode in 0..3 {
            for verb in 1..7u8 {
                jobs.push(Job { file: fixed_from + k, mode, sort: (k + verb as usize) % 3, flags: 0b1100000111, heu: None, extra: Extra { verb, ..Extra::default() } });
                jobs.push(Job { file: fixed_from + k, mode, sort: (k + verb as usize) % 3, flags: 0b0011111000, heu: Some(k % 4), extra: Extra { verb, ..Extra::default() } });
            }
        }
    }
    // work is handed out in chunks of consecutive jobs: spread the long runs (larger inputs) evenly over the list
    {
        let (big, small): (Vec<Job>, Vec<Job>) = jobs.into_iter().partition(|j| j.file >= big_from && j.file < big_to);
        let every = (small.len() / big.len().max(1)).max(1);
        let mut big = big.into_iter();
        jobs = Vec::with_capacity(small.len() + big.len());
        for (i, j) in small.into_iter().enumerate() {
            if i % every == 0 {
                if let Some(b) = big.next() {
                    jobs.push(b);
                }
            }
            jobs.push(j);
        }
        jobs.extend(big);
    }
    let res = run.par_family(
        &format!("{} CLI runs over {} input files", jobs.len(), inputs.len()),
        jobs.len() as u64,
        || (0u64, 0u64, BTreeSet::<u64>::new()),
        |st, j| {
            if run.violations_so_far() > 300 {
                return;
            }
            let job = &jobs[j as usize];
            let inp = &inputs[job.file];
            st.0 += 1;
            if job.flags.count_ones() >= 2 || job.sort > 0 {
                st.1 += 1;
            }
            st.2.insert((job.mode as u64) << 20 | (job.sort as u64) << 16 | job.flags as u64 | (job.heu.map(|h| h as u64 + 1).unwrap_or(0) << 24));
            let path = format!("{}/in_{}.adf", tmp.0, job.file);
            for (kind, msg) in cli_case_x(&cli, &path, inp, MODES[job.mode], job.sort, job.flags, job.heu.map(|h| HEUS[h]), job.extra) {
                let flags: Vec<&str> = (0..10).filter(|i| job.flags >> i & 1 == 1).map(|i| FLAGS[i]).collect();
                run.violation(
                    &kind,
                    format!("{} [--lib {} {} {} {} {}] on {}", msg, MODES[job.mode], SORTS[job.sort], flags.join(" "), job.heu.map(|h| format!("--heu {}", HEUS[h])).unwrap_or_default(), VERB_NAMES[job.extra.verb as usize], inp.text.replace('\n', "")),
                    json!({"type": "cli", "text": inp.text, "labels": inp.labels, "tts": inp.tts, "mode": MODES[job.mode], "sort": job.sort, "flags": job.flags, "heu": job.heu.map(|h| HEUS[h]), "ring": inp.ring.map(|r| vec![r.0 as u64, r.1]), "verbosity": job.extra.verb, "export": job.extra.export}),
                );
            }
        },
        &|j| json!({"type": "cli", "job": j}),
    );
    for st in res {
        run.add_counts(0, st.0, st.0, st.1);
        run.add_outcomes(st.2);
    }
    run.add_counts(inputs.len() as u64, 0, 0, 0);
    // malformed inputs
    // (the last three parse but name a statement that is declared nowhere: no mode may answer for them either)
    let bad = ["s(a).s(b)ac(a,b).ac(b,a).", "s(a).ac(a,neg(a,a)).", "s(a).ac(a,and(a)).", "s(a).ac(a,a).x", "s(a).ac(a,or(a,a).", "s(a.ac(a,a).", "s(a).ac(a,c(v))", "s(a).ac(a,neg(b)).", "s(a).s(b).ac(a,or(b,zz)).ac(b,a).", "s(a).ac(a,a).ac(b,a)."];
    for (i, t) in bad.iter().enumerate() {
        for (kind, msg) in crate::c08::reject_cli_case(&cli, &tmp.0, 900000 + i as u64, t) {
            run.violation(&kind, format!("{} on {:?}", msg, t), json!({"type": "cli-bad", "text": t}));
        }
        run.add_counts(1, 3, 3, 0);
    }
    run.sample(json!({"type": "cli", "args": "--lib hybrid --lx --grd --com --stm --twoval", "text": inputs[fixed_from + 1].text}));
    run.sample(json!({"type": "cli", "args": "--lib naive --stmng --heu Rand", "text": inputs[100].text}));
    drop(tmp);
    run.extra("states_are", json!("input files"));
    run.extra("transitions_are", json!("process runs of the CLI binary, each judged against the definitional oracle"));
}

pub fn replay(c: &Value) -> Vec<(String, String)> {
    let cli = cli_path();
    let tmp = TmpDir::new("c15r");
    let text = c["text"].as_str().unwrap_or("").to_string();
    if c["type"] == "cli-bad" {
        return crate::c08::reject_cli_case(&cli, &tmp.0, 0, &text);
    }
    let labels: Vec<String> = c["labels"].as_array().map(|a| a.iter().map(|x| x.as_str().unwrap_or("").to_string()).collect()).unwrap_or_default();
    let tts: Vec<TT> = c["tts"].as_array().map(|a| a.iter().map(|x| x.as_u64().unwrap_or(0) as TT).collect()).unwrap_or_default();
    let path = format!("{}/in.adf", tmp.0);
    std::fs::write(&path, &text).unwrap_or_else(|_| machinery_error("cannot write input file"));
    let ring = c.get("ring").and_then(|r| Some((r[0].as_u64()? as usize, r[1].as_u64()?)));
    let extra = Extra { import: c["import"].as_bool().unwrap_or(false), counter: c["counter"].as_u64().unwrap_or(0) as u8, verb: c["verbosity"].as_u64().unwrap_or(0) as u8, export: c["export"].as_bool().unwrap_or(false) };
    let mut run_path = path.clone();
    if extra.import {
        let exp = format!("{}/exp.json", tmp.0);
        let o = run_cli(&cli, &["--lib".into(), "naive".into(), "-q".into(), "--export".into(), exp.clone(), path.clone()]);
        if o.code != Some(0) {
            return vec![("import:export-failed".into(), "cannot export the state to import".into())];
        }
        run_path = exp;
    }
    cli_case_x(&cli, &run_path, &Input { labels, text, tts, ring }, c["mode"].as_str().unwrap_or("hybrid"), c["sort"].as_u64().unwrap_or(0) as usize, c["flags"].as_u64().unwrap_or(0) as u32, c["heu"].as_str(), extra)
}
