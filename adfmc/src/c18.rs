//! C18: explicit-state exploration of the nogood store: all add sequences up to a length, all modes,
//! every partial interpretation, against brute force over the total assignments.

use crate::report::*;
use adf_bdd::datatypes::Term;
use adf_bdd::nogoods::{DuplicateElemination, NoGood, NoGoodStore};
use serde_json::{json, Value};

type Pa = Vec<u8>; // partial assignment: 0 false, 1 true, 2 open

fn pa_from(v: usize, mut k: usize) -> Pa {
    let mut r = vec![];
    for _ in 0..v {
        r.push((k % 3) as u8);
        k /= 3;
    }
    r
}

thread_local! {
    /// embedding of the explored variables into a larger store: (positions, size); None = identity
    static EMB: std::cell::RefCell<Option<(Vec<usize>, usize)>> = const { std::cell::RefCell::new(None) };
}

fn terms(p: &[u8]) -> Vec<Term> {
    let t = |x: &u8| match x {
        0 => Term::BOT,
        1 => Term::TOP,
        _ => Term(7),
    };
    EMB.with(|e| match &*e.borrow() {
        None => p.iter().map(t).collect(),
        Some((pos, size)) => {
            let mut v = vec![Term(7); *size];
            for (i, x) in p.iter().enumerate() {
                v[pos[i]] = t(x);
            }
            v
        }
    })
}

fn store_size(v: usize) -> usize {
    EMB.with(|e| e.borrow().as_ref().map(|x| x.1).unwrap_or(v))
}

fn project(full: Vec<u8>, v: usize) -> Pa {
    EMB.with(|e| match &*e.borrow() {
        None => full,
        Some((pos, _)) => {
            // positions outside the embedding must have stayed open
            let mut p: Pa = pos.iter().take(v).map(|i| full[*i]).collect();
            if full.iter().enumerate().any(|(i, x)| *x != 2 && !pos.contains(&i)) {
                p.push(9); // marks a literal outside the explored variables (never equal to an expected vector)
            }
            p
        }
    })
}

fn ng(p: &[u8]) -> NoGood {
    NoGood::from_term_vec(&terms(p))
}

/// reads a NoGood / Interpretation back through the public API
fn read(n: &NoGood, v: usize) -> Pa {
    let mut upd = false;
    let t = n.update_term_vec(&vec![Term(7); store_size(v)], &mut upd);
    project(t.iter().map(|t| if t.is_truth_value() { t.is_true() as u8 } else { 2 }).collect(), v)
}

fn ext(p: &[u8], a: usize) -> bool {
    p.iter().enumerate().all(|(i, x)| *x == 2 || (*x as usize) == (a >> i & 1))
}

fn mode(m: u8) -> DuplicateElemination {
    match m {
        0 => DuplicateElemination::None,
        1 => DuplicateElemination::Equiv,
        _ => DuplicateElemination::Subsume,
    }
}

const MODE_NAMES: [&str; 3] = ["None", "Equiv", "Subsume"];

#[derive(Default)]
pub struct St {
    stores: u64,
    queries: u64,
    nontrivial: u64,
    outcomes: std::collections::BTreeSet<u64>,
}

thread_local! {
    /// mode the store is switched to after the last add (None = no further switch)
    static FINAL_MODE: std::cell::Cell<Option<u8>> = const { std::cell::Cell::new(None) };
}

/// one store = one add sequence [(mode, nogood)], checked against every partial interpretation
pub fn case(v: usize, seq: &[(u8, Pa)], st: &mut St) -> Vec<(String, String)> {
    let mut out = vec![];
    let built = guard(|| {
        let mut s = NoGoodStore::new(store_size(v) as u32);
        for (m, p) in seq {
            s.set_dup_elem(mode(*m));
            s.add_ng(ng(p));
        }
        if let Some(m) = FINAL_MODE.with(|f| f.get()) {
            s.set_dup_elem(mode(m));
        }
        s
    });
    let store = match built {
        Ok(s) => s,
        Err(m) => {
            out.push(("add:panic".into(), m));
            return out;
        }
    };
    st.stores += 1;
    // nested pair present?
    let nested = seq.iter().enumerate().any(|(i, a)| {
        seq.iter().enumerate().any(|(j, b)| {
            i != j && a.1 != b.1 && a.1.iter().zip(b.1.iter()).all(|(x, y)| *x == 2 || x == y)
        })
    });
    if nested {
        st.nontrivial += 1;
    }
    let total = 1usize << v;
    // total assignments excluded by the added nogoods
    let excluded: Vec<bool> = (0..total).map(|a| seq.iter().any(|(_, g)| ext(g, a))).collect();
    let mut sig: u64 = 0;
    for ik in 0..3usize.pow(v as u32) {
        let ip = pa_from(v, ik);
        let e: Vec<usize> = (0..total).filter(|a| ext(&ip, *a) && !excluded[*a]).collect();
        let matches_one = seq.iter().any(|(_, g)| g.iter().zip(ip.iter()).all(|(x, y)| *x == 2 || x == y));
        st.queries += 1;
        let forced = |pos: usize, val: u8| e.iter().all(|a| (a >> pos & 1) as u8 == val);
        match guard(|| store.conclusions(&ng(&ip))) {
            Err(m) => out.push(("conclusions:panic".into(), format!("{} (interpretation {:?})", m, ip))),
            Ok(None) => {
                sig = sig.wrapping_mul(31).wrapping_add(7);
                if !e.is_empty() {
                    out.push((
                        "conclusions:spurious-conflict".into(),
                        format!("conflict reported for interpretation {:?} although total assignment {:#b} extends it and avoids every added nogood", ip, e[0]),
                    ));
                }
            }
            Ok(Some(r)) => {
                let rp = read(&r, v);
                sig = sig.wrapping_mul(31).wrapping_add(hash64(&rp));
                // the returned object is an interpretation like any other: its length is the number of decided
                // positions, and handing it back to the store gives what a freshly made object with the same content gives
                if rp.len() == v && r.len() != rp.iter().filter(|x| **x != 2).count() {
                    out.push(("conclusions:result-len".into(), format!("the result {:?} of conclusions({:?}) reports len() = {}", rp, ip, r.len())));
                }
                if rp.len() == v {
                    let again_obj = guard(|| store.conclusions(&r).map(|x| read(&x, v)));
                    let again_fresh = guard(|| store.conclusions(&ng(&rp)).map(|x| read(&x, v)));
                    if again_obj != again_fresh {
                        out.push(("conclusions:requery-returned-object".into(), format!("conclusions() of the object returned for {:?} gives {:?}, a freshly made object with the same content {:?} gives {:?}", ip, again_obj, rp, again_fresh)));
                    }
                }
                if matches_one {
                    out.push((
                        "conclusions:missed-conflict".into(),
                        format!("interpretation {:?} matches an added nogood but no conflict is reported (result {:?})", ip, rp),
                    ));
                }
                for pos in 0..v {
                    if ip[pos] != 2 && rp[pos] != ip[pos] {
                        out.push((
                            "conclusions:changed-decided".into(),
                            format!("decided position {} of {:?} changed: result {:?}", pos, ip, rp),
                        ));
                    } else if ip[pos] == 2 && rp[pos] != 2 && !forced(pos, rp[pos]) {
                        out.push((
                            "conclusions:unsound".into(),
                            format!("concluded {}={} from {:?} (result {:?}) although an extension avoiding all added nogoods has the other value", pos, rp[pos], ip, rp),
                        ));
                    }
                }
            }
        }
        // closure
        st.queries += 1;
        match guard(|| store.verif_conclusion_closure(&terms(&ip))) {
            Err(m) => out.push(("closure:panic".into(), format!("{} (interpretation {:?})", m, ip))),
            Ok(Err(())) => {
                if !e.is_empty() {
                    out.push((
                        "closure:spurious-conflict".into(),
                        format!("closure reports a conflict for {:?} although total assignment {:#b} extends it and avoids every added nogood", ip, e[0]),
                    ));
                }
            }
            Ok(Ok(res)) => {
                let rp: Pa = match &res {
                    None => ip.clone(),
                    Some(t) => project(t.iter().map(|t| if t.is_truth_value() { t.is_true() as u8 } else { 2 }).collect(), v),
                };
                if matches_one {
                    out.push((
                        "closure:missed-conflict".into(),
                        format!("interpretation {:?} matches an added nogood but the closure reports no conflict", ip),
                    ));
                }
                if rp.len() != v {
                    out.push(("closure:length".into(), format!("closure of {:?} has {} entries", ip, rp.len())));
                    continue;
                }
                for pos in 0..v {
                    if ip[pos] != 2 && rp[pos] != ip[pos] {
                        out.push(("closure:changed-decided".into(), format!("decided position {} of {:?} changed: {:?}", pos, ip, rp)));
                    } else if ip[pos] == 2 && rp[pos] != 2 && !forced(pos, rp[pos]) {
                        out.push(("closure:unsound".into(), format!("closure concluded {}={} from {:?} although not forced", pos, rp[pos], ip)));
                    }
                }
                // the closure is a fixpoint of conclusions
                if let Ok(Some(again)) = guard(|| store.conclusions(&ng(&rp))) {
                    if read(&again, v) != rp {
                        out.push((
                            "closure:not-a-fixpoint".into(),
                            format!("closure {:?} of {:?} is not closed: one more step gives {:?}", rp, ip, read(&again, v)),
                        ));
                    }
                }
            }
        }
    }
    st.outcomes.insert(sig);
    out
}

fn seq_json(v: usize, seq: &[(u8, Pa)]) -> Value {
    json!({"type": "ng_seq", "vars": v, "adds": seq.iter().map(|(m, p)| json!({"mode": MODE_NAMES[*m as usize], "nogood": p})).collect::<Vec<_>>()})
}

/// unit-level soundness of the public NoGood operations on all pairs
fn pair_checks(run: &Run, v: usize) {
    let n = 3usize.pow(v as u32);
    let mut calls = 0u64;
    for a in 0..n {
        let pa = pa_from(v, a);
        let na = ng(&pa);
        if read(&na, v) != pa {
            run.violation("nogood:roundtrip", format!("from_term_vec/update_term_vec do not round-trip {:?}", pa), json!({"type": "ng_pair", "vars": v, "a": pa}));
        }
        if na.len() != pa.iter().filter(|x| **x != 2).count() {
            run.violation("nogood:len", format!("len of {:?} is {}", pa, na.len()), json!({"type": "ng_pair", "vars": v, "a": pa}));
        }
        for b in 0..n {
            let pb = pa_from(v, b);
            let nb = ng(&pb);
            calls += 2;
            // a.is_violating(b): interpretation b matches nogood a
            let want = pa.iter().zip(pb.iter()).all(|(x, y)| *x == 2 || x == y);
            if na.is_violating(&nb) != want {
                run.violation("nogood:is_violating", format!("{:?}.is_violating({:?}) = {}", pa, pb, !want), json!({"type": "ng_pair", "vars": v, "a": pa, "b": pb}));
            }
            // conclude: sound with respect to the meaning of a nogood
            if let Some((pos, val)) = na.conclude(&nb) {
                let ok = pos < v
                    && pb[pos] == 2
                    && (0..(1usize << v)).filter(|x| ext(&pb, *x) && !ext(&pa, *x)).all(|x| (x >> pos & 1 == 1) == val);
                if !ok {
                    run.violation("nogood:conclude", format!("{:?}.conclude({:?}) = ({},{}) is not forced", pa, pb, pos, val), json!({"type": "ng_pair", "vars": v, "a": pa, "b": pb}));
                }
            }
        }
    }
    run.add_counts(0, calls, calls, 0);
}

fn decode(v: usize, len: usize, mixed: bool, mut k: u64) -> Vec<(u8, Pa)> {
    // nogood index 0..3^v-1 (the last index would be the empty nogood); mixed: a mode per add, else one mode for all
    let nn = 3u64.pow(v as u32) - 1;
    let mut seq = vec![];
    if mixed {
        for _ in 0..len {
            let g = k % nn;
            k /= nn;
            let m = k % 3;
            k /= 3;
            seq.push((m as u8, pa_from(v, g as usize)));
        }
    } else {
        let m = k % 3;
        k /= 3;
        for _ in 0..len {
            let g = k % nn;
            k /= nn;
            seq.push((m as u8, pa_from(v, g as usize)));
        }
    }
    seq
}

pub fn run_c18(run: &Run) {
    run.set_rule("explicit-state exploration of the real NoGoodStore: every sequence of adds (mode, non-empty nogood) up to the stated length over V variables; in each reached store, conclusions() and the conclusion closure are queried for every one of the 3^V partial interpretations and judged by brute force over the 2^V total assignments. Non-trivial: sequences containing a nogood together with a strict sub-nogood of it.");
    run.assume("a nogood is a partial assignment; a total assignment is excluded iff it extends an added nogood (the empty nogood excludes everything)");
    run.assume("V <= 4 variables and sequences of length <= 3; longer histories are outside the bound");
    pair_checks(run, 3);
    let plan: Vec<(usize, usize, bool)> = if run.quick() {
        vec![(3, 1, true), (3, 2, true), (3, 3, false), (4, 1, true)]
    } else {
        vec![(3, 1, true), (3, 2, true), (3, 3, true), (4, 1, true), (4, 2, true), (4, 3, false)]
    };
    if !run.quick() {
        pair_checks(run, 4);
    }
    for (v, len, mixed) in plan {
        let nn = 3u64.pow(v as u32) - 1;
        let total = if mixed { (nn * 3).pow(len as u32) } else { 3 * nn.pow(len as u32) };
        let name = format!("V={} add sequences of length {} ({})", v, len, if mixed { "a mode per add" } else { "one mode per sequence" });
        let res = run.par_family(
            &name,
            total,
            St::default,
            |st, k| {
                let seq = decode(v, len, mixed, k);
                let found = case(v, &seq, st);
                // report at most a few kinds per store
                let mut seen = std::collections::BTreeSet::new();
                for (kind, msg) in found {
                    if seen.insert(kind.clone()) {
                        run.violation(&kind, format!("{} after adds {:?}", msg, seq), seq_json(v, &seq));
                    }
                }
            },
            &|k| seq_json(v, &decode(v, len, mixed, k)),
        );
        for st in res {
            run.add_counts(st.stores, st.queries, st.queries, st.nontrivial);
            run.add_outcomes(st.outcomes);
        }
        run.sample(seq_json(v, &decode(v, len, mixed, total / 3)));
    }
    // the same nogood twice in one history, a mode per add and a further switch of the mode after the last add (what
    // is stored twice must not be lost when the store is told to eliminate duplicates from now on)
    {
        let v = 3usize;
        let nn = 3u64.pow(v as u32) - 1;
        // (g, g), (g, g, h), (g, h, g) x modes per add x final mode
        let mut seqs: Vec<(Vec<(u8, Pa)>, u8)> = vec![];
        for g in 0..nn {
            for m in 0..9u8 {
                for fm in 0..3u8 {
                    seqs.push((vec![(m % 3, pa_from(v, g as usize)), (m / 3, pa_from(v, g as usize))], fm));
                }
            }
            for h in (0..nn).step_by(if run.quick() { 3 } else { 1 }) {
                for m in 0..27u8 {
                    for fm in [1u8, 2] {
                        let (a, b, c) = (m % 3, m / 3 % 3, m / 9);
                        if m % 2 == 0 {
                            seqs.push((vec![(a, pa_from(v, g as usize)), (b, pa_from(v, g as usize)), (c, pa_from(v, h as usize))], fm));
                        } else {
                            seqs.push((vec![(a, pa_from(v, g as usize)), (b, pa_from(v, h as usize)), (c, pa_from(v, g as usize))], fm));
                        }
                    }
                }
            }
        }
        let res = run.par_family(
            "V=3 histories with the same nogood twice, a mode per add and a switch of the mode after the last add",
            seqs.len() as u64,
            St::default,
            |st, k| {
                let (seq, fm) = &seqs[k as usize];
                FINAL_MODE.with(|f| f.set(Some(*fm)));
                let found = case(v, seq, st);
                FINAL_MODE.with(|f| f.set(None));
                let mut seen = std::collections::BTreeSet::new();
                for (kind, msg) in found {
                    if seen.insert(kind.clone()) {
                        let mut c = seq_json(v, seq);
                        c["final_mode"] = json!(MODE_NAMES[*fm as usize]);
                        run.violation(&kind, format!("{} after adds {:?} and a final switch to mode {}", msg, seq, MODE_NAMES[*fm as usize]), c);
                    }
                }
            },
            &|k| seq_json(v, &seqs[k as usize].0),
        );
        for st in res {
            run.add_counts(st.stores, st.queries, st.queries, st.nontrivial);
            run.add_outcomes(st.outcomes);
        }
    }
    // the empty nogood (no literal: violated by every interpretation; the search learns it from a model of an ADF without
    // statements): all sequences of length <= 2 over ALL 3^V partial assignments in which it occurs
    {
        let v = 3usize;
        let na = 3u64.pow(v as u32); // index na-1 is the empty nogood
        let mut seqs: Vec<Vec<(u8, Pa)>> = vec![];
        for m in 0..3u8 {
            seqs.push(vec![(m, pa_from(v, (na - 1) as usize))]);
            for g in 0..na {
                for m2 in 0..3u8 {
                    seqs.push(vec![(m, pa_from(v, (na - 1) as usize)), (m2, pa_from(v, g as usize))]);
                    if g != na - 1 {
                        seqs.push(vec![(m2, pa_from(v, g as usize)), (m, pa_from(v, (na - 1) as usize))]);
                    }
                }
            }
        }
        let res = run.par_family(
            "V=3 add sequences of length <= 2 that contain the empty nogood",
            seqs.len() as u64,
            St::default,
            |st, k| {
                let seq = &seqs[k as usize];
                let mut seen = std::collections::BTreeSet::new();
                for (kind, msg) in case(v, seq, st) {
                    if seen.insert(kind.clone()) {
                        run.violation(&kind, format!("{} after adds {:?}", msg, seq), seq_json(v, seq));
                    }
                }
            },
            &|k| seq_json(v, &seqs[k as usize]),
        );
        for st in res {
            run.add_counts(st.stores, st.queries, st.queries, st.nontrivial);
            run.add_outcomes(st.outcomes);
        }
    }
    // the same exploration embedded into larger stores: the three explored variables sit at positions that are
    // congruent modulo 64, around 63/64/65 and around 65535/65536 (bitmap word and container boundaries)
    let embeddings: Vec<(Vec<usize>, usize, usize, bool, u64)> = if run.quick() {
        vec![(vec![3, 67, 131], 140, 2, true, 1), (vec![63, 64, 65], 70, 2, true, 1), (vec![65535, 65536, 65537], 65540, 2, true, 37)]
    } else {
        vec![(vec![3, 67, 131], 140, 3, false, 1), (vec![63, 64, 65], 70, 3, false, 1), (vec![65535, 65536, 65537], 65540, 2, true, 5), (vec![1, 65, 129, 193], 200, 2, true, 1)]
    };
    for (pos, size, len, mixed, stride) in embeddings {
        let v = pos.len();
        let nn = 3u64.pow(v as u32) - 1;
        let all = if mixed { (nn * 3).pow(len as u32) } else { 3 * nn.pow(len as u32) };
        let total = all / stride;
        let name = format!("V={} embedded at positions {:?} of a store with {} variables: add sequences of length {}{}", v, pos, size, len, if stride > 1 { format!(" (every {}th)", stride) } else { String::new() });
        let res = run.par_family(
            &name,
            total,
            St::default,
            |st, k| {
                EMB.with(|e| *e.borrow_mut() = Some((pos.clone(), size)));
                let seq = decode(v, len, mixed, k * stride + run.seed % stride);
                let found = case(v, &seq, st);
                EMB.with(|e| *e.borrow_mut() = None);
                let mut seen = std::collections::BTreeSet::new();
                for (kind, msg) in found {
                    if seen.insert(kind.clone()) {
                        let mut c = seq_json(v, &seq);
                        c["positions"] = json!(pos);
                        c["size"] = json!(size);
                        run.violation(&kind, format!("{} after adds {:?} (variables at positions {:?})", msg, seq, pos), c);
                    }
                }
            },
            &|k| seq_json(v, &decode(v, len, mixed, k * stride)),
        );
        for st in res {
            run.add_counts(st.stores, st.queries, st.queries, st.nontrivial);
        }
    }
    // long histories: thousands of nogoods of one size on one store (12 variables, every second total assignment
    // added, in all three modes); afterwards every total assignment is rejected iff it was added
    {
        let res = run.par_family(
            "long histories: about 2600 (thorough: up to 4095) nogoods of one size on one store, all three modes, every total assignment queried",
            if run.quick() { 3 } else { 9 },
            St::default,
            |st, k| {
                let vv = 12usize;
                let m = (k % 3) as u8;
                let count = [2600usize, 3300, 4095][(k / 3) as usize % 3];
                run.heartbeat();
                let r = guard(|| {
                    let mut s = NoGoodStore::new(vv as u32);
                    s.set_dup_elem(mode(m));
                    let added: Vec<usize> = (0..(1usize << vv)).filter(|a| (a * 2654435761usize >> 7) % 4096 < count).collect();
                    for a in &added {
                        let p: Pa = (0..vv).map(|i| (a >> i & 1) as u8).collect();
                        s.add_ng(ng(&p));
                    }
                    let set: std::collections::BTreeSet<usize> = added.iter().copied().collect();
                    let mut wrong = vec![];
                    for a in 0..(1usize << vv) {
                        let p: Pa = (0..vv).map(|i| (a >> i & 1) as u8).collect();
                        let rejected = s.conclusions(&ng(&p)).is_none();
                        if rejected != set.contains(&a) {
                            wrong.push((a, rejected));
                        }
                    }
                    (added.len(), wrong)
                });
                st.stores += 1;
                st.queries += 4096;
                match r {
                    Err(msg) => run.violation("long:panic", msg, json!({"type": "ng_long", "mode": MODE_NAMES[m as usize], "count": count})),
                    Ok((n_added, wrong)) => {
                        if let Some((a, rej)) = wrong.first() {
                            run.violation(
                                if *rej { "long:spurious-conflict" } else { "long:missed-conflict" },
                                format!("after {} adds of full-size nogoods over 12 variables (mode {}), {} total assignments are judged wrongly, e.g. {:#b} is {}", n_added, MODE_NAMES[m as usize], wrong.len(), a, if *rej { "rejected although it was never added" } else { "accepted although it was added" }),
                                json!({"type": "ng_long", "mode": MODE_NAMES[m as usize], "count": count}),
                            );
                        }
                    }
                }
            },
            &|k| json!({"type": "ng_long", "index": k}),
        );
        for st in res {
            run.add_counts(st.stores, st.queries, st.queries, st.stores);
        }
    }
    // once more with a logger that accepts TRACE records
    crate::report::trace_logging(true);
    for (v, len, mixed) in [(3usize, 1usize, true), (3, 2, false)] {
        let nn = 3u64.pow(v as u32) - 1;
        let total = if mixed { (nn * 3).pow(len as u32) } else { 3 * nn.pow(len as u32) };
        let res = run.par_family(
            &format!("V={} add sequences of length {} with trace logging switched on", v, len),
            total,
            St::default,
            |st, k| {
                let seq = decode(v, len, mixed, k);
                let mut seen = std::collections::BTreeSet::new();
                for (kind, msg) in case(v, &seq, st) {
                    if seen.insert(kind.clone()) {
                        let mut c = seq_json(v, &seq);
                        c["trace_logging"] = json!(true);
                        run.violation(&format!("trace-logging:{}", kind), format!("{} after adds {:?} (a logger accepting TRACE records is installed)", msg, seq), c);
                    }
                }
            },
            &|k| seq_json(v, &decode(v, len, mixed, k)),
        );
        for st in res {
            run.add_counts(st.stores, st.queries, st.queries, st.nontrivial);
        }
    }
    crate::report::trace_logging(false);
    run.extra("states_are", json!("stores reached by an add sequence"));
    run.extra("transitions_are", json!("queries (conclusions / closure) judged against brute force, plus pairwise NoGood operations"));
}

pub fn replay(c: &Value) -> Vec<(String, String)> {
    let v = c["vars"].as_u64().unwrap_or(3) as usize;
    if c["type"] == "ng_long" {
        return vec![("long".into(), "long-history case: re-run the check (deterministic)".into())];
    }
    if c["type"] == "ng_pair" {
        return vec![("nogood:pair".into(), "pairwise NoGood operation mismatch (see stored record); re-run the check".into())];
    }
    let seq: Vec<(u8, Pa)> = c["adds"]
        .as_array()
        .map(|a| {
            a.iter()
                .map(|x| {
                    let m = MODE_NAMES.iter().position(|n| Some(*n) == x["mode"].as_str()).unwrap_or(0) as u8;
                    let p: Pa = x["nogood"].as_array().map(|p| p.iter().map(|y| y.as_u64().unwrap_or(2) as u8).collect()).unwrap_or_default();
                    (m, p)
                })
                .collect()
        })
        .unwrap_or_default();
    let mut st = St::default();
    if let (Some(pos), Some(size)) = (c["positions"].as_array(), c["size"].as_u64()) {
        EMB.with(|e| *e.borrow_mut() = Some((pos.iter().map(|x| x.as_u64().unwrap_or(0) as usize).collect(), size as usize)));
    }
    if let Some(fm) = c["final_mode"].as_str() {
        FINAL_MODE.with(|f| f.set(MODE_NAMES.iter().position(|n| *n == fm).map(|x| x as u8)));
    }
    let r = case(v, &seq, &mut st);
    EMB.with(|e| *e.borrow_mut() = None);
    FINAL_MODE.with(|f| f.set(None));
    r
}
