//! C18: explicit-state exploration of the nogood store: all add sequences up to a length, all modes,
//! every partial interpretation, against brute force over the total assignments.

use crate::report::*;
use adf_bdd::datatypes::Term;
use adf_bdd::nogoods::{DuplicateElemination, NoGood, NoGoodStore};
use serde_json::{json, Value};

type Pa = Vec<u8>; // partial assignment: 0 false, 1 true, 2 open

fn pa_from(v: usize, mut k: usize) -> Pa {
    let mut r = vec![];
    for _ in 0..v {
        r.push((k % 3) as u8);
        k /= 3;
    }
    r
}

fn terms(p: &[u8]) -> Vec<Term> {
    p.iter()
        .map(|x| match x {
            0 => Term::BOT,
            1 => Term::TOP,
            _ => Term(7),
        })
        .collect()
}

fn ng(p: &[u8]) -> NoGood {
    NoGood::from_term_vec(&terms(p))
}

/// reads a NoGood / Interpretation back through the public API
fn read(n: &NoGood, v: usize) -> Pa {
    let mut upd = false;
    let t = n.update_term_vec(&vec![Term(7); v], &mut upd);
    t.iter()
        .map(|t| if t.is_truth_value() { t.is_true() as u8 } else { 2 })
        .collect()
}

fn ext(p: &[u8], a: usize) -> bool {
    p.iter().enumerate().all(|(i, x)| *x == 2 || (*x as usize) == (a >> i & 1))
}

fn mode(m: u8) -> DuplicateElemination {
    match m {
        0 => DuplicateElemination::None,
        1 => DuplicateElemination::Equiv,
        _ => DuplicateElemination::Subsume,
    }
}

const MODE_NAMES: [&str; 3] = ["None", "Equiv", "Subsume"];

#[derive(Default)]
pub struct St {
    stores: u64,
    queries: u64,
    nontrivial: u64,
    outcomes: std::collections::BTreeSet<u64>,
}

/// one store = one add sequence [(mode, nogood)], checked against every partial interpretation
pub fn case(v: usize, seq: &[(u8, Pa)], st: &mut St) -> Vec<(String, String)> {
    let mut out = vec![];
    let built = guard(|| {
        let mut s = NoGoodStore::new(v as u32);
        for (m, p) in seq {
            s.set_dup_elem(mode(*m));
            s.add_ng(ng(p));
        }
        s
    });
    let store = match built {
        Ok(s) => s,
        Err(m) => {
            out.push(("add:panic".into(), m));
            return out;
        }
    };
    st.stores += 1;
    // nested pair present?
    let nested = seq.iter().enumerate().any(|(i, a)| {
        seq.iter().enumerate().any(|(j, b)| {
            i != j && a.1 != b.1 && a.1.iter().zip(b.1.iter()).all(|(x, y)| *x == 2 || x == y)
        })
    });
    if nested {
        st.nontrivial += 1;
    }
    let total = 1usize << v;
    // total assignments excluded by the added nogoods
    let excluded: Vec<bool> = (0..total).map(|a| seq.iter().any(|(_, g)| ext(g, a))).collect();
    let mut sig: u64 = 0;
    for ik in 0..3usize.pow(v as u32) {
        let ip = pa_from(v, ik);
        let e: Vec<usize> = (0..total).filter(|a| ext(&ip, *a) && !excluded[*a]).collect();
        let matches_one = seq.iter().any(|(_, g)| g.iter().zip(ip.iter()).all(|(x, y)| *x == 2 || x == y));
        st.queries += 1;
        let forced = |pos: usize, val: u8| e.iter().all(|a| (a >> pos & 1) as u8 == val);
        match guard(|| store.conclusions(&ng(&ip))) {
            Err(m) => out.push(("conclusions:panic".into(), format!("{} (interpretation {:?})", m, ip))),
            Ok(None) => {
                sig = sig.wrapping_mul(31).wrapping_add(7);
                if !e.is_empty() {
                    out.push((
                        "conclusions:spurious-conflict".into(),
                        format!("conflict reported for interpretation {:?} although total assignment {:#b} extends it and avoids every added nogood", ip, e[0]),
                    ));
                }
            }
            Ok(Some(r)) => {
                let rp = read(&r, v);
                sig = sig.wrapping_mul(31).wrapping_add(hash64(&rp));
                if matches_one {
                    out.push((
                        "conclusions:missed-conflict".into(),
                        format!("interpretation {:?} matches an added nogood but no conflict is reported (result {:?})", ip, rp),
                    ));
                }
                for pos in 0..v {
                    if ip[pos] != 2 && rp[pos] != ip[pos] {
                        out.push((
                            "conclusions:changed-decided".into(),
                            format!("decided position {} of {:?} changed: result {:?}", pos, ip, rp),
                        ));
                    } else if ip[pos] == 2 && rp[pos] != 2 && !forced(pos, rp[pos]) {
                        out.push((
                            "conclusions:unsound".into(),
                            format!("concluded {}={} from {:?} (result {:?}) although an extension avoiding all added nogoods has the other value", pos, rp[pos], ip, rp),
                        ));
                    }
                }
            }
        }
        // closure
        st.queries += 1;
        match guard(|| store.verif_conclusion_closure(&terms(&ip))) {
            Err(m) => out.push(("closure:panic".into(), format!("{} (interpretation {:?})", m, ip))),
            Ok(Err(())) => {
                if !e.is_empty() {
                    out.push((
                        "closure:spurious-conflict".into(),
                        format!("closure reports a conflict for {:?} although total assignment {:#b} extends it and avoids every added nogood", ip, e[0]),
                    ));
                }
            }
            Ok(Ok(res)) => {
                let rp: Pa = match &res {
                    None => ip.clone(),
                    Some(t) => t.iter().map(|t| if t.is_truth_value() { t.is_true() as u8 } else { 2 }).collect(),
                };
                if matches_one {
                    out.push((
                        "closure:missed-conflict".into(),
                        format!("interpretation {:?} matches an added nogood but the closure reports no conflict", ip),
                    ));
                }
                if rp.len() != v {
                    out.push(("closure:length".into(), format!("closure of {:?} has {} entries", ip, rp.len())));
                    continue;
                }
                for pos in 0..v {
                    if ip[pos] != 2 && rp[pos] != ip[pos] {
                        out.push(("closure:changed-decided".into(), format!("decided position {} of {:?} changed: {:?}", pos, ip, rp)));
                    } else if ip[pos] == 2 && rp[pos] != 2 && !forced(pos, rp[pos]) {
                        out.push(("closure:unsound".into(), format!("closure concluded {}={} from {:?} although not forced", pos, rp[pos], ip)));
                    }
                }
                // the closure is a fixpoint of conclusions
                if let Ok(Some(again)) = guard(|| store.conclusions(&ng(&rp))) {
                    if read(&again, v) != rp {
                        out.push((
                            "closure:not-a-fixpoint".into(),
                            format!("closure {:?} of {:?} is not closed: one more step gives {:?}", rp, ip, read(&again, v)),
                        ));
                    }
                }
            }
        }
    }
    st.outcomes.insert(sig);
    out
}

fn seq_json(v: usize, seq: &[(u8, Pa)]) -> Value {
    json!({"type": "ng_seq", "vars": v, "adds": seq.iter().map(|(m, p)| json!({"mode": MODE_NAMES[*m as usize], "nogood": p})).collect::<Vec<_>>()})
}

/// unit-level soundness of the public NoGood operations on all pairs
fn pair_checks(run: &Run, v: usize) {
    let n = 3usize.pow(v as u32);
    let mut calls = 0u64;
    for a in 0..n {
        let pa = pa_from(v, a);
        let na = ng(&pa);
        if read(&na, v) != pa {
            run.violation("nogood:roundtrip", format!("from_term_vec/update_term_vec do not round-trip {:?}", pa), json!({"type": "ng_pair", "vars": v, "a": pa}));
        }
        if na.len() != pa.iter().filter(|x| **x != 2).count() {
            run.violation("nogood:len", format!("len of {:?} is {}", pa, na.len()), json!({"type": "ng_pair", "vars": v, "a": pa}));
        }
        for b in 0..n {
            let pb = pa_from(v, b);
            let nb = ng(&pb);
            calls += 2;
            // a.is_violating(b): interpretation b matches nogood a
            let want = pa.iter().zip(pb.iter()).all(|(x, y)| *x == 2 || x == y);
            if na.is_violating(&nb) != want {
                run.violation("nogood:is_violating", format!("{:?}.is_violating({:?}) = {}", pa, pb, !want), json!({"type": "ng_pair", "vars": v, "a": pa, "b": pb}));
            }
            // conclude: sound with respect to the meaning of a nogood
            if let Some((pos, val)) = na.conclude(&nb) {
                let ok = pos < v
                    && pb[pos] == 2
                    && (0..(1usize << v)).filter(|x| ext(&pb, *x) && !ext(&pa, *x)).all(|x| (x >> pos & 1 == 1) == val);
                if !ok {
                    run.violation("nogood:conclude", format!("{:?}.conclude({:?}) = ({},{}) is not forced", pa, pb, pos, val), json!({"type": "ng_pair", "vars": v, "a": pa, "b": pb}));
                }
            }
        }
    }
    run.add_counts(0, calls, calls, 0);
}

fn decode(v: usize, len: usize, mixed: bool, mut k: u64) -> Vec<(u8, Pa)> {
    // nogood index 0..3^v-1 (the last index would be the empty nogood); mixed: a mode per add, else one mode for all
    let nn = 3u64.pow(v as u32) - 1;
    let mut seq = vec![];
    if mixed {
        for _ in 0..len {
            let g = k % nn;
            k /= nn;
            let m = k % 3;
            k /= 3;
            seq.push((m as u8, pa_from(v, g as usize)));
        }
    } else {
        let m = k % 3;
        k /= 3;
        for _ in 0..len {
            let g = k % nn;
            k /= nn;
            seq.push((m as u8, pa_from(v, g as usize)));
        }
    }
    seq
}

pub fn run_c18(run: &Run) {
    run.set_rule("explicit-state exploration of the real NoGoodStore: every sequence of adds (mode, non-empty nogood) up to the stated length over V variables; in each reached store, conclusions() and the conclusion closure are queried for every one of the 3^V partial interpretations and judged by brute force over the 2^V total assignments. Non-trivial: sequences containing a nogood together with a strict sub-nogood of it.");
    run.assume("a nogood is a non-empty partial assignment; a total assignment is excluded iff it extends an added nogood");
    run.assume("V <= 4 variables and sequences of length <= 3; longer histories are outside the bound");
    pair_checks(run, 3);
    let plan: Vec<(usize, usize, bool)> = if run.quick() {
        vec![(3, 1, true), (3, 2, true), (3, 3, false), (4, 1, true)]
    } else {
        vec![(3, 1, true), (3, 2, true), (3, 3, true), (4, 1, true), (4, 2, true), (4, 3, false)]
    };
    if !run.quick() {
        pair_checks(run, 4);
    }
    for (v, len, mixed) in plan {
        let nn = 3u64.pow(v as u32) - 1;
        let total = if mixed { (nn * 3).pow(len as u32) } else { 3 * nn.pow(len as u32) };
        let name = format!("V={} add sequences of length {} ({})", v, len, if mixed { "a mode per add" } else { "one mode per sequence" });
        let res = run.par_family(
            &name,
            total,
            St::default,
            |st, k| {
                let seq = decode(v, len, mixed, k);
                let found = case(v, &seq, st);
                // report at most a few kinds per store
                let mut seen = std::collections::BTreeSet::new();
                for (kind, msg) in found {
                    if seen.insert(kind.clone()) {
                        run.violation(&kind, format!("{} after adds {:?}", msg, seq), seq_json(v, &seq));
                    }
                }
            },
            &|k| seq_json(v, &decode(v, len, mixed, k)),
        );
        for st in res {
            run.add_counts(st.stores, st.queries, st.queries, st.nontrivial);
            run.add_outcomes(st.outcomes);
        }
        run.sample(seq_json(v, &decode(v, len, mixed, total / 3)));
    }
    run.extra("states_are", json!("stores reached by an add sequence"));
    run.extra("transitions_are", json!("queries (conclusions / closure) judged against brute force, plus pairwise NoGood operations"));
}

pub fn replay(c: &Value) -> Vec<(String, String)> {
    let v = c["vars"].as_u64().unwrap_or(3) as usize;
    if c["type"] == "ng_pair" {
        return vec![("nogood:pair".into(), "pairwise NoGood operation mismatch (see stored record); re-run the check".into())];
    }
    let seq: Vec<(u8, Pa)> = c["adds"]
        .as_array()
        .map(|a| {
            a.iter()
                .map(|x| {
                    let m = MODE_NAMES.iter().position(|n| Some(*n) == x["mode"].as_str()).unwrap_or(0) as u8;
                    let p: Pa = x["nogood"].as_array().map(|p| p.iter().map(|y| y.as_u64().unwrap_or(2) as u8).collect()).unwrap_or_default();
                    (m, p)
                })
                .collect()
        })
        .unwrap_or_default();
    let mut st = St::default();
    case(v, &seq, &mut st)
}
