//! C19: the streaming mirror under every schedule of polls between individual node creations.
//!
//! Controlled scheduler: the harness owns the channel. Threaded mode gives the producer the sender of a
//! rendezvous channel (capacity 0), so its thread blocks inside `Bdd::node` at every freshly created node until
//! the harness takes the message and forwards it into the unbounded channel the receiver polls. Because the
//! producer never observes the receiver (unbounded channel, no back-pressure), the receiver-visible behaviours
//! of any real schedule are exactly the placements of polls between message deliveries; the sequential mode
//! produces the same placements without threads (the producer is run first with an unbounded sender and its
//! messages are then delivered one by one) and is validated against the threaded mode on every program.

use crate::report::*;
use crate::store::*;
use adf_bdd::datatypes::{BddNode, Term, Var};
use adf_bdd::obdd::Bdd;
use crossbeam_channel::{bounded, unbounded};
use serde_json::{json, Value};
use std::collections::BTreeSet;

#[derive(Clone, Debug)]
pub struct Program {
    pub ops: Vec<Op>,
}

fn run_program(b: &mut Bdd, p: &Program) {
    for op in &p.ops {
        apply(b, op);
    }
}

/// the two programs of the repository's own tests
fn pinned() -> Vec<Program> {
    // variable(0), variable(1), and(2,3), xor(2,3) ... as operation lists over handles
    vec![
        Program { ops: vec![Op::Var(0), Op::Var(1), Op::Bin(0, 2, 3), Op::Bin(4, 2, 3), Op::Restrict(5, 0, true)] },
        Program { ops: vec![Op::Var(0), Op::Var(1), Op::Var(2), Op::Bin(0, 2, 3), Op::Bin(1, 5, 4), Op::Bin(3, 6, 2), Op::Not(7)] },
    ]
}

/// all operation sequences of length <= len over 3 variables that create >= 1 node, deduplicated on the node sequence
fn programs(len: usize) -> Vec<Program> {
    let mut seen: BTreeSet<Vec<(usize, usize, usize)>> = BTreeSet::new();
    let mut out = vec![];
    let mut frontier: Vec<Vec<Op>> = vec![vec![]];
    for _ in 0..len {
        let mut next = vec![];
        for h in &frontier {
            let base = rebuild(&Init::Empty, h);
            for op in alphabet(3, base.nodes.len(), false) {
                let mut b = rebuild(&Init::Empty, h);
                apply(&mut b, &op);
                if b.nodes.len() > base.nodes.len() {
                    let key: Vec<(usize, usize, usize)> = b.nodes.iter().skip(2).map(|n| (n.var().value(), n.lo().value(), n.hi().value())).collect();
                    if seen.insert(key) {
                        let mut h2 = h.clone();
                        h2.push(op);
                        out.push(Program { ops: h2.clone() });
                        next.push(h2);
                    }
                }
            }
        }
        frontier = next;
    }
    out
}

thread_local! {
    /// how the stores of a run are made: bit 0 = producer by `new` + `set_sender` instead of `with_sender`, bit 1 =
    /// receivers by `new` + `set_receiver`, relays by `new` + `set_receiver` + `set_sender`
    static CTOR: std::cell::Cell<u8> = const { std::cell::Cell::new(0) };
}

thread_local! {
    /// chains: number of messages that already wait in the first channel when the relay and the end are made
    static PRE: std::cell::Cell<usize> = const { std::cell::Cell::new(0) };
}

fn mk_producer(s: crossbeam_channel::Sender<BddNode>) -> Bdd {
    if CTOR.with(|c| c.get()) & 1 == 1 {
        let mut b = Bdd::new();
        b.set_sender(s);
        b
    } else {
        Bdd::with_sender(s)
    }
}

fn mk_receiver(r: crossbeam_channel::Receiver<BddNode>) -> Bdd {
    if CTOR.with(|c| c.get()) & 2 == 2 {
        let mut b = Bdd::new();
        b.set_receiver(r);
        b
    } else {
        Bdd::with_receiver(r)
    }
}

fn mk_relay(s: crossbeam_channel::Sender<BddNode>, r: crossbeam_channel::Receiver<BddNode>) -> Bdd {
    if CTOR.with(|c| c.get()) & 2 == 2 {
        let mut b = Bdd::new();
        b.set_receiver(r);
        b.set_sender(s);
        b
    } else {
        Bdd::with_sender_receiver(s, r)
    }
}

#[derive(Clone, Debug, PartialEq, Eq, PartialOrd, Ord)]
pub struct Obs {
    found: bool,
    after: usize,
}

/// one poll of a receiver and its judgement. `delivered` = messages put into this receiver's channel so far.
fn poll(recv: &mut Bdd, h: usize, delivered: usize, reference: &[BddNode], who: &str, out: &mut Vec<(String, String)>) -> Obs {
    let before = recv.nodes.len();
    let found = recv.recv(Term(h));
    let after = recv.nodes.len();
    if after < before || after > delivered + 2 {
        out.push((format!("{}:impossible-length", who), format!("node table has {} entries after a poll although only {} messages were delivered", after, delivered)));
    }
    if after > reference.len() || recv.nodes[..] != reference[..after.min(reference.len())] {
        out.push((
            format!("{}:not-a-prefix", who),
            format!("after consuming {} messages the receiver does not hold the producer's first {} nodes", after.saturating_sub(2), after),
        ));
    }
    if found != (h < after) {
        out.push((format!("{}:found-flag", who), format!("poll for handle {} answered {} but the table has {} entries afterwards", h as i64, found, after)));
    }
    if !found && h >= after && h < delivered + 2 {
        out.push((format!("{}:gave-up-early", who), format!("poll for handle {} answered 'not found' although the message carrying it had been delivered ({} delivered, {} consumed)", h, delivered, after - 2)));
    }
    Obs { found, after }
}

/// schedule for one receiver: polls[i] = (cut, handle): the poll happens when exactly `cut` messages were delivered
pub fn run_schedule(p: &Program, polls: &[(usize, usize)], threaded: bool, reference: &[BddNode]) -> (Vec<Obs>, Vec<(String, String)>) {
    let mut out = vec![];
    let mut obs = vec![];
    let n_msgs = reference.len() - 2;
    let (gate_s, rr) = unbounded::<BddNode>();
    let mut recv = mk_receiver(rr);
    let mut pi = 0;
    let mut do_polls = |delivered: usize, recv: &mut Bdd, obs: &mut Vec<Obs>, out: &mut Vec<(String, String)>, pi: &mut usize| {
        while *pi < polls.len() && polls[*pi].0 == delivered {
            obs.push(poll(recv, polls[*pi].1, delivered, reference, "receiver", out));
            *pi += 1;
        }
    };
    if threaded {
        let (ps, gate_r) = bounded::<BddNode>(0);
        let prog = p.clone();
        let ctor = CTOR.with(|c| c.get());
        let prod = std::thread::spawn(move || {
            CTOR.with(|c| c.set(ctor));
            let mut b = mk_producer(ps);
            run_program(&mut b, &prog);
            b.nodes.clone()
        });
        let mut delivered = 0;
        loop {
            do_polls(delivered, &mut recv, &mut obs, &mut out, &mut pi);
            match gate_r.recv() {
                Ok(node) => {
                    gate_s.send(node).unwrap();
                    delivered += 1;
                }
                Err(_) => break,
            }
        }
        let pn = prod.join().unwrap_or_default();
        if pn != reference {
            out.push(("producer:nondeterministic".into(), "the producer's node table differs from its table when run alone".into()));
        }
        if delivered != n_msgs {
            out.push(("producer:message-count".into(), format!("{} messages for {} created nodes", delivered, n_msgs)));
        }
    } else {
        let (ps, pr) = unbounded::<BddNode>();
        let mut b = mk_producer(ps);
        run_program(&mut b, p);
        let msgs: Vec<BddNode> = pr.try_iter().collect();
        if msgs[..] != reference[2..] {
            out.push(("producer:stream".into(), "the streamed messages are not the created nodes in creation order".into()));
        }
        let mut delivered = 0;
        loop {
            do_polls(delivered, &mut recv, &mut obs, &mut out, &mut pi);
            if delivered == msgs.len() {
                break;
            }
            gate_s.send(msgs[delivered]).unwrap();
            delivered += 1;
        }
    }
    // drained: identical tables
    drop(gate_s);
    let _ = recv.recv(Term(usize::MAX));
    if recv.nodes[..] != reference[..] {
        out.push(("receiver:final-table".into(), "after the producer finished and the channel was drained the node tables differ".into()));
    }
    (obs, out)
}

/// chain producer -> relay -> last; events: 0 = deliver next message to the relay, 1 = relay poll, 2 = last poll,
/// 3 = the end of the chain goes away (its store is dropped); the relay must keep working
pub fn run_chain(p: &Program, events: &[(u8, usize)], reference: &[BddNode]) -> (Vec<Obs>, Vec<(String, String)>) {
    let mut out = vec![];
    let mut obs = vec![];
    let (ps, pr) = unbounded::<BddNode>();
    let mut b = mk_producer(ps);
    run_program(&mut b, p);
    let msgs: Vec<BddNode> = pr.try_iter().collect();
    let (s1, r1) = unbounded::<BddNode>();
    let (s2, r2) = unbounded::<BddNode>();
    // the producer may have been at work for a while when the rest of the chain is wired up
    let mut delivered = 0;
    while delivered < PRE.with(|p| p.get()).min(msgs.len()) {
        s1.send(msgs[delivered]).unwrap();
        delivered += 1;
    }
    let mut relay = mk_relay(s2, r1);
    let mut last = Some(mk_receiver(r2));
    // (whatever the constructors did, nothing may have been lost)
    if relay.nodes.len() > 2 {
        let fwd = relay.nodes.len() - 2;
        if let Some(l) = last.as_mut() {
            let _ = l.recv(Term(usize::MAX));
            if l.nodes.len() - 2 != fwd {
                out.push(("chain:taken-but-not-forwarded".into(), format!("the relay took {} waiting nodes into its table while it was being wired up but the end of the chain received {}", fwd, l.nodes.len() - 2)));
            }
        }
    }
    for (e, h) in events {
        match e {
            0 => {
                if delivered < msgs.len() {
                    s1.send(msgs[delivered]).unwrap();
                    delivered += 1;
                }
            }
            1 => obs.push(poll(&mut relay, *h, delivered, reference, "relay", &mut out)),
            2 => {
                let fwd = relay.nodes.len() - 2;
                if let Some(last) = last.as_mut() {
                    obs.push(poll(last, *h, fwd, reference, "last", &mut out));
                }
            }
            _ => last = None,
        }
    }
    while delivered < msgs.len() {
        s1.send(msgs[delivered]).unwrap();
        delivered += 1;
    }
    drop(s1);
    let _ = relay.recv(Term(usize::MAX));
    if relay.nodes[..] != reference[..] {
        out.push(("relay:final-table".into(), "drained relay differs from the producer".into()));
    }
    if let Some(last) = last.as_mut() {
        let _ = last.recv(Term(usize::MAX));
        if last.nodes[..] != reference[..] {
            out.push(("last:final-table".into(), "drained end of the chain differs from the producer".into()));
        }
    }
    (obs, out)
}

/// producer and receiver move to a fresh channel in mid-stream: after `j` operations the receiver catches up on the old
/// channel, then both ends are re-wired with set_sender / set_receiver and the producer goes on; the receiver polls for
/// handle `h` and must end up with the producer's table
pub fn run_rewire(p: &Program, j: usize, h: usize, reference: &[BddNode]) -> Vec<(String, String)> {
    let mut out = vec![];
    let (s1, r1) = unbounded::<BddNode>();
    let mut prod = mk_producer(s1);
    let mut recv = mk_receiver(r1);
    for op in &p.ops[..j.min(p.ops.len())] {
        apply(&mut prod, op);
    }
    poll(&mut recv, usize::MAX, prod.nodes.len() - 2, reference, "receiver(before re-wiring)", &mut out);
    if recv.nodes != prod.nodes {
        out.push(("receiver:not-caught-up".into(), "a drain poll left messages in the channel".into()));
        return out;
    }
    let (s2, r2) = unbounded::<BddNode>();
    prod.set_sender(s2);
    recv.set_receiver(r2);
    for op in &p.ops[j.min(p.ops.len())..] {
        apply(&mut prod, op);
    }
    if prod.nodes[..] != reference[..] {
        out.push(("producer:table-differs".into(), "the re-wired producer's table differs from its table when run alone".into()));
    }
    poll(&mut recv, h, prod.nodes.len() - 2, reference, "receiver(after re-wiring)", &mut out);
    let _ = recv.recv(Term(usize::MAX));
    if recv.nodes[..] != reference[..] {
        out.push(("receiver:final-table".into(), format!("after re-wiring both ends to a fresh channel in mid-stream the receiver holds {} of the producer's {} nodes", recv.nodes.len(), reference.len())));
    }
    out
}

/// the repair step (`fix_import`, public and idempotent) called on a CONNECTED store in mid-stream: who = 0 the producer
/// after j operations, 1 the receiver after it has consumed the nodes of the first j operations, 2 the relay of a chain
/// at that moment. The stream must go on as if nothing had happened: every created node is sent exactly once, in order;
/// receiver, relay and end of the chain end up with the producer's table.
pub fn run_repair(p: &Program, j: usize, who: u8, reference: &[BddNode]) -> Vec<(String, String)> {
    let mut out = vec![];
    let j = j.min(p.ops.len());
    let (s1, r1) = unbounded::<BddNode>();
    let (tap_s, tap_r) = unbounded::<BddNode>(); // what the relay forwards (who = 2)
    let mut prod = mk_producer(s1);
    if who == 2 {
        let mut relay = mk_relay(tap_s, r1);
        let mut last = mk_receiver(tap_r);
        for op in &p.ops[..j] {
            apply(&mut prod, op);
        }
        let _ = relay.recv(Term(usize::MAX));
        relay.fix_import();
        for op in &p.ops[j..] {
            apply(&mut prod, op);
        }
        drop(prod);
        let _ = relay.recv(Term(usize::MAX));
        if relay.nodes[..] != reference[..] {
            out.push(("relay:final-table".into(), format!("a relay that ran the repair step after {} operations holds {} of the producer's {} nodes", j, relay.nodes.len(), reference.len())));
        }
        drop(relay);
        let _ = last.recv(Term(usize::MAX));
        if last.nodes[..] != reference[..] {
            out.push(("last:final-table".into(), format!("the end of a chain whose relay ran the repair step after {} operations holds {} nodes, the producer {}", j, last.nodes.len(), reference.len())));
        }
        return out;
    }
    drop(tap_s);
    drop(tap_r);
    if who == 0 {
        for op in &p.ops[..j] {
            apply(&mut prod, op);
        }
        prod.fix_import();
        for op in &p.ops[j..] {
            apply(&mut prod, op);
        }
        if prod.nodes[..] != reference[..] {
            out.push(("producer:table-differs".into(), "the producer's table differs from its table when run without the repair step".into()));
        }
        drop(prod);
        let msgs: Vec<BddNode> = r1.try_iter().collect();
        if msgs[..] != reference[2..] {
            out.push(("producer:stream".into(), format!("a producer that ran the repair step after {} operations streamed {} messages for {} created nodes (or in another order)", j, msgs.len(), reference.len() - 2)));
        }
        return out;
    }
    let mut recv = mk_receiver(r1);
    for op in &p.ops[..j] {
        apply(&mut prod, op);
    }
    let _ = recv.recv(Term(usize::MAX));
    recv.fix_import();
    for op in &p.ops[j..] {
        apply(&mut prod, op);
    }
    poll(&mut recv, prod.nodes.len() - 1, prod.nodes.len() - 2, reference, "receiver(after its repair step)", &mut out);
    drop(prod);
    let _ = recv.recv(Term(usize::MAX));
    if recv.nodes[..] != reference[..] {
        out.push(("receiver:final-table".into(), format!("a receiver that ran the repair step after the nodes of {} operations holds {} of the producer's {} nodes", j, recv.nodes.len(), reference.len())));
    }
    out
}

/// A mirror is a store: after it has taken over the producer's nodes (with the poll for handle `h` issued BEFORE the
/// messages are delivered, so that the awaited handle arrives during the call, and a final drain) and after the repair
/// step has rebuilt its bookkeeping, repeating the producer's program ON THE MIRROR must return the producer's handles
/// and must not create a single node - otherwise the mirror holds a function under two handles (C06) and has stopped
/// being a copy of the producer (C19). The unique table is audited through hook H1.
pub fn mirror_reuse(p: &Program, h: usize, reference: &[BddNode]) -> Vec<(String, String)> {
    let mut out = vec![];
    let (s1, r1) = unbounded::<BddNode>();
    let mut prod = mk_producer(s1);
    let mut recv = mk_receiver(r1);
    let mut handles = vec![];
    for op in &p.ops {
        handles.push(apply(&mut prod, op));
    }
    drop(prod);
    let _ = recv.recv(Term(h));
    let _ = recv.recv(Term(usize::MAX));
    if recv.nodes[..] != reference[..] {
        out.push(("receiver:final-table".into(), "after the producer finished and the channel was drained the node tables differ".into()));
        return out;
    }
    recv.fix_import();
    let fl = Flags { canonical: true, functions: false, memo: false, queries: false };
    let mut o2 = vec![];
    check_state(&recv, 3, &fl, &mut o2);
    for (k, m) in o2 {
        out.push((format!("mirror:{}", k), format!("{} (mirror after a poll for handle {}, a drain and the repair step)", m, h as i64)));
    }
    for (i, op) in p.ops.iter().enumerate() {
        let got = apply(&mut recv, op);
        if got != handles[i] {
            out.push(("mirror:other-handle".into(), format!("operation #{} returns {:?} on the mirror and {:?} on the producer", i, got, handles[i])));
        }
    }
    if recv.nodes[..] != reference[..] {
        out.push(("mirror:duplicate-nodes".into(), format!("repeating the producer's program on the mirror grew its table from {} to {} nodes", reference.len(), recv.nodes.len())));
    }
    out
}

/// the part of the streaming check that every feature build with the `frontend` feature runs (C12): all producer programs x
/// all placements of <= 1 poll x all handles, the repair step on connected stores, the mirror used as a store
pub fn feature_battery(run: &Run) -> u64 {
    let mut progs = pinned();
    progs.extend(programs(3));
    let (res, _) = run.par_for(
        "streaming",
        progs.len() as u64,
        || 0u64,
        |st, k| {
            let p = &progs[k as usize];
            let mut b = Bdd::new();
            run_program(&mut b, p);
            let reference = b.nodes.clone();
            let n = reference.len() - 2;
            let mut report = |found: Vec<(String, String)>, case: Value| {
                for (kind, msg) in found {
                    run.violation(&format!("C19:{}", kind), format!("{} on program {}", msg, prog_json(p)), json!({"inner_property": "C19", "inner_case": case.clone()}));
                }
            };
            for np in 0..=1 {
                for s in schedules(n, np) {
                    *st += 1;
                    let case = json!({"type": "stream", "program": prog_json(p), "polls": s, "threaded": false});
                    match guard(|| run_schedule(p, &s, false, &reference)) {
                        Err(m) => report(vec![("stream:panic".into(), m)], case),
                        Ok((_, found)) => report(found, case),
                    }
                }
            }
            for who in 0..3u8 {
                for j in 0..=p.ops.len() {
                    *st += 1;
                    let case = json!({"type": "repair", "program": prog_json(p), "after_ops": j, "who": who});
                    match guard(|| run_repair(p, j, who, &reference)) {
                        Err(m) => report(vec![("repair:panic".into(), m)], case),
                        Ok(found) => report(found, case),
                    }
                }
            }
            *st += 1;
            let case = json!({"type": "mirror-reuse", "program": prog_json(p), "handle": reference.len() - 1});
            match guard(|| mirror_reuse(p, reference.len() - 1, &reference)) {
                Err(m) => report(vec![("mirror:panic".into(), m)], case),
                Ok(found) => report(found, case),
            }
        },
        &|k| json!({"type": "stream", "program": prog_json(&progs[k as usize]), "polls": [], "threaded": false}),
    );
    res.iter().sum()
}

/// the family over all producer programs and all awaited handles (shared by C19 and C06)
pub fn mirror_reuse_family(run: &Run) {
    let mut progs = pinned();
    progs.extend(programs(3));
    let refs: Vec<Vec<BddNode>> = progs
        .iter()
        .map(|p| {
            let mut b = Bdd::new();
            run_program(&mut b, p);
            b.nodes.clone()
        })
        .collect();
    let res = run.par_family(
        &format!("{} producer programs x every awaited handle: the drained and repaired mirror used as a store (the program repeated on it)", progs.len()),
        progs.len() as u64,
        || 0u64,
        |st, k| {
            let p = &progs[k as usize];
            let reference = &refs[k as usize];
            for h in (2..reference.len() + 1).chain([usize::MAX]) {
                *st += 1;
                let case = json!({"type": "mirror-reuse", "program": prog_json(p), "handle": h});
                match guard(|| mirror_reuse(p, h, reference)) {
                    Err(m) => run.violation("mirror:panic", m, case),
                    Ok(found) => {
                        for (kind, msg) in found {
                            run.violation(&kind, format!("{} (program {})", msg, prog_json(p)), case.clone());
                        }
                    }
                }
            }
        },
        &|k| json!({"type": "mirror-reuse", "program": prog_json(&progs[k as usize]), "handle": 2}),
    );
    for st in res {
        run.add_counts(0, st, st, st);
    }
}

/// The receiver sits DIRECTLY on a rendezvous channel (capacity 0): the producer's thread blocks inside `Bdd::node` at every
/// created node until the receiver takes the message. Which polls come back empty depends on timing (a poll that arrives
/// before the producer has reached its next `send` finds nothing) - what does not: every poll leaves the receiver with a
/// prefix of the producer's table, 'found' iff the handle is present afterwards, and a receiver that keeps polling gets
/// every node (a generous deadline of 20 s stands for "never": the producer waits in `send` the whole time).
pub fn rendezvous_direct(p: &Program, reference: &[BddNode]) -> Vec<(String, String)> {
    let mut out = vec![];
    let (ps, pr) = bounded::<BddNode>(0);
    let prog = p.clone();
    let ctor = CTOR.with(|c| c.get());
    let prod = std::thread::spawn(move || {
        CTOR.with(|c| c.set(ctor));
        let mut b = mk_producer(ps);
        run_program(&mut b, &prog);
        b.nodes.clone()
    });
    let mut recv = mk_receiver(pr);
    let t0 = std::time::Instant::now();
    let mut polls = 0u64;
    while recv.nodes.len() < reference.len() && t0.elapsed().as_secs() < 20 {
        let want = recv.nodes.len(); // the next handle
        let found = recv.recv(Term(want));
        polls += 1;
        let n = recv.nodes.len();
        if n > reference.len() || recv.nodes[..] != reference[..n] {
            out.push(("receiver:not-a-prefix".into(), format!("after {} polls on a rendezvous channel the receiver holds {} nodes that are not a prefix of the producer's table", polls, n)));
            break;
        }
        if found != (want < n) {
            out.push(("receiver:found-flag".into(), format!("poll for handle {} on a rendezvous channel answers {} but the receiver holds {} nodes afterwards", want, found, n)));
            break;
        }
        if !found {
            std::thread::sleep(std::time::Duration::from_micros(20));
        }
    }
    if out.is_empty() && recv.nodes.len() < reference.len() {
        out.push(("receiver:never-takes-over".into(), format!("a receiver that polled a rendezvous channel {} times in 20 s holds {} of the producer's {} nodes (the producer waits in send)", polls, recv.nodes.len(), reference.len())));
    }
    // let the producer go on (its sends fail from now on, which it only logs) and end
    drop(recv);
    match prod.join() {
        Ok(pn) => {
            if pn != reference {
                out.push(("producer:nondeterministic".into(), "the producer's node table differs from its table when run alone".into()));
            }
        }
        Err(_) => out.push(("producer:panic".into(), "the producer thread died".into())),
    }
    out
}

/// a long stream (more than 2^16 messages): polls at cut points around 65535 / 65536 and at both ends, single receiver
/// and relay chain
pub fn big_stream_case(pairs: usize) -> Vec<(String, String)> {
    let mut out = vec![];
    let (ps, pr) = unbounded::<BddNode>();
    let mut b = Bdd::with_sender(ps);
    for i in 0..pairs {
        let x = b.variable(Var(i));
        let y = b.variable(Var(i + 1));
        b.and(x, y);
        b.xor(x, y);
    }
    let msgs: Vec<BddNode> = pr.try_iter().collect();
    let reference = b.nodes.clone();
    if msgs[..] != reference[2..] {
        out.push(("producer:stream".into(), format!("{} streamed messages are not the {} created nodes in creation order", msgs.len(), reference.len() - 2)));
        return out;
    }
    let n = msgs.len();
    let cuts: Vec<usize> = [0usize, 1, 65533, 65534, 65535, 65536, 65537, n - 1, n].into_iter().filter(|c| *c <= n).collect();
    for &cut in &cuts {
        for h in [cut, cut + 1, cut + 2, cut + 3, 65535, 65536, 65537, 65538, n + 1, n + 2, usize::MAX] {
            let (gs, rr) = unbounded::<BddNode>();
            let mut recv = Bdd::with_receiver(rr);
            for m in &msgs[..cut] {
                gs.send(*m).unwrap();
            }
            poll(&mut recv, h, cut, &reference, "receiver", &mut out);
            // a second poll for the same handle after everything was delivered
            for m in &msgs[cut..] {
                gs.send(*m).unwrap();
            }
            poll(&mut recv, h, n, &reference, "receiver", &mut out);
            drop(gs);
            let _ = recv.recv(Term(usize::MAX));
            if recv.nodes != reference {
                out.push(("receiver:final-table".into(), format!("after draining a stream of {} messages (first poll at cut {}, handle {}) the tables differ", n, cut, h as i64)));
            }
            if out.len() > 20 {
                return out;
            }
        }
    }
    // relay chain: relay polled at the cut, end polled afterwards
    for &cut in &cuts {
        let (s1, r1) = unbounded::<BddNode>();
        let (s2, r2) = unbounded::<BddNode>();
        let mut relay = Bdd::with_sender_receiver(s2, r1);
        let mut last = Bdd::with_receiver(r2);
        for m in &msgs[..cut] {
            s1.send(*m).unwrap();
        }
        poll(&mut relay, cut + 1, cut, &reference, "relay", &mut out);
        let fwd = relay.nodes.len() - 2;
        poll(&mut last, cut, fwd, &reference, "last", &mut out);
        for m in &msgs[cut..] {
            s1.send(*m).unwrap();
        }
        drop(s1);
        let _ = relay.recv(Term(usize::MAX));
        let _ = last.recv(Term(usize::MAX));
        if relay.nodes != reference || last.nodes != reference {
            out.push(("chain:final-table".into(), format!("after draining a chain with a stream of {} messages (relay polled at cut {}) the tables differ", n, cut)));
        }
    }
    out
}

fn handles(n_msgs: usize) -> Vec<usize> {
    (0..n_msgs + 4).chain([usize::MAX]).collect()
}

fn prog_json(p: &Program) -> Value {
    json!(p.ops.iter().map(op_json).collect::<Vec<_>>())
}

/// all placements of exactly `np` polls (cuts non-decreasing) x all handles
fn schedules(n_msgs: usize, np: usize) -> Vec<Vec<(usize, usize)>> {
    let hs = handles(n_msgs);
    let mut out: Vec<Vec<(usize, usize)>> = vec![vec![]];
    for _ in 0..np {
        let mut next = vec![];
        for s in &out {
            let from = s.last().map(|x| x.0).unwrap_or(0);
            for c in from..=n_msgs {
                for h in &hs {
                    let mut s2 = s.clone();
                    s2.push((c, *h));
                    next.push(s2);
                }
            }
        }
        out = next;
    }
    out
}

#[derive(Default)]
struct St {
    schedules: u64,
    polls: u64,
    nontrivial: u64,
    outcomes: BTreeSet<u64>,
}

pub fn run_c19(run: &Run) {
    run.set_rule("producer programs = all operation sequences up to the stated length over 3 variables that create >= 1 node (deduplicated on the produced node sequence) + the two pinned test programs; schedules = every placement of up to P receiver polls at the N+1 cut points between individual node creations x every requested handle in {0..N+3, usize::MAX}; chains producer -> relay -> end with every order of deliveries, relay polls and end polls, and with the end of the chain going away at every point (the relay must stay a correct mirror); producers whose receiver goes away at every point keep building the same table. The stores are made with the with_* constructors and with new + set_sender / set_receiver (all four combinations for <= 2 polls); chains are also wired up when 1 or all messages already wait in the first channel; producer and receiver are re-wired to a fresh channel at every operation boundary. After every poll the receiver must hold exactly a prefix of the producer's final table, 'found' iff the handle is present, never 'not found' while the message was already delivered; after draining all tables are identical. Non-trivial: schedules with >= 1 poll strictly between two node creations.");
    run.assume("crossbeam channels are FIFO; producer and receivers share nothing but the channel, so polls between message deliveries are all receiver-visible schedules; memory-level interleavings inside one channel operation are not modelled");
    let quick = run.quick();
    let mut progs = pinned();
    progs.extend(programs(3));
    let maxp = 3;
    let long3 = if quick { 4 } else { 8 };
    let refs: Vec<Vec<BddNode>> = progs
        .iter()
        .map(|p| {
            let mut b = Bdd::new();
            run_program(&mut b, p);
            b.nodes.clone()
        })
        .collect();
    run.extra("producer_programs", json!(progs.len()));
    // single receiver, sequential scheduler, all schedules
    let res = run.par_family(
        &format!("{} producer programs x all placements of <= {} polls x all handles", progs.len(), maxp),
        progs.len() as u64,
        St::default,
        |st, k| {
            let p = &progs[k as usize];
            let reference = &refs[k as usize];
            let n = reference.len() - 2;
            // the receiving end goes away after j operations: the producer keeps building the same table
            for j in 0..=p.ops.len() {
                st.schedules += 1;
                let r = guard(|| {
                    let (ps, pr) = unbounded::<BddNode>();
                    let mut b = Bdd::with_sender(ps);
                    let mut pr = Some(pr);
                    for (i, op) in p.ops.iter().enumerate() {
                        if i == j {
                            pr = None;
                        }
                        apply(&mut b, op);
                    }
                    drop(pr);
                    b.nodes.clone()
                });
                let case = json!({"type": "stream", "program": prog_json(p), "polls": [], "threaded": false, "receiver_gone_after": j});
                match r {
                    Err(m) => run.violation("producer:panic", format!("{} after the receiving end went away after {} operations of {}", m, j, prog_json(p)), case),
                    Ok(nodes) => {
                        if nodes[..] != reference[..] {
                            run.violation("producer:table-differs", format!("the producer's table differs from its table when run alone after the receiving end went away after {} operations of {}", j, prog_json(p)), case);
                        }
                    }
                }
            }
            for np in 0..=maxp {
                // programs with many nodes: three polls only for short streams
                if np == 3 && n > long3 {
                    continue;
                }
                for s in schedules(n, np) {
                    // the four ways of making the two stores (with_* constructors / new + set_*): all of them for <= 2 polls
                    for ctor in 0..(if np <= 2 { 4u8 } else { 1 }) {
                        if run.violations_so_far() > 100 {
                            return;
                        }
                        st.schedules += 1;
                        st.polls += np as u64;
                        if s.iter().any(|(c, _)| *c > 0 && *c < n) {
                            st.nontrivial += 1;
                        }
                        CTOR.with(|c| c.set(ctor));
                        let r = guard(|| run_schedule(p, &s, false, reference));
                        CTOR.with(|c| c.set(0));
                        match r {
                            Err(m) => run.violation("stream:panic", format!("{} with polls {:?} on {}", m, s, prog_json(p)), json!({"type": "stream", "program": prog_json(p), "polls": s, "threaded": false, "ctor": ctor})),
                            Ok((obs, found)) => {
                                st.outcomes.insert(hash64(format!("{:?}", obs).as_bytes()));
                                for (kind, msg) in found {
                                    run.violation(&kind, format!("{} with polls (cut,handle) {:?} on program {} (stores made the way #{})", msg, s, prog_json(p), ctor), json!({"type": "stream", "program": prog_json(p), "polls": s, "threaded": false, "ctor": ctor}));
                                }
                            }
                        }
                    }
                }
            }
        },
        &|k| json!({"type": "stream", "program": prog_json(&progs[k as usize]), "polls": [], "threaded": false}),
    );
    for st in res {
        run.add_counts(0, st.polls, st.schedules, st.nontrivial);
        run.add_outcomes(st.outcomes);
    }
    run.add_counts(progs.len() as u64, 0, 0, 0);
    // threaded scheduler (real producer thread blocked at every node creation): all 1-poll schedules of every
    // program and all 2-poll schedules of the pinned programs; observations must equal the sequential ones
    let mut items: Vec<(usize, Vec<(usize, usize)>)> = vec![];
    for (k, r) in refs.iter().enumerate() {
        let n = r.len() - 2;
        let maxnp = if k < 2 { 2 } else { 1 };
        for np in 1..=maxnp {
            for s in schedules(n, np) {
                items.push((k, s));
            }
        }
    }
    let res = run.par_family(
        "threaded rendezvous scheduler: every program x all placements of 1 poll (pinned programs: 2 polls)",
        items.len() as u64,
        St::default,
        |st, i| {
            let (k, s) = &items[i as usize];
            let p = &progs[*k];
            let reference = &refs[*k];
            if run.violations_so_far() > 100 {
                return;
            }
            st.schedules += 1;
            st.polls += s.len() as u64;
            let a = guard(|| run_schedule(p, s, true, reference));
            let b = guard(|| run_schedule(p, s, false, reference));
            match (a, b) {
                (Ok((oa, fa)), Ok((ob, _))) => {
                    for (kind, msg) in fa {
                        run.violation(&kind, format!("{} (threaded) with polls {:?} on program {}", msg, s, prog_json(p)), json!({"type": "stream", "program": prog_json(p), "polls": s, "threaded": true}));
                    }
                    if oa != ob {
                        run.violation("scheduler:modes-disagree", format!("threaded and sequential scheduler observe different outcomes for polls {:?}: {:?} vs {:?}", s, oa, ob), json!({"type": "stream", "program": prog_json(p), "polls": s, "threaded": true}));
                    }
                }
                (Err(m), _) | (_, Err(m)) => run.violation("stream:panic", m, json!({"type": "stream", "program": prog_json(p), "polls": s, "threaded": true})),
            }
        },
        &|i| json!({"type": "stream", "program": prog_json(&progs[items[i as usize].0]), "polls": items[i as usize].1, "threaded": true}),
    );
    for st in res {
        run.add_counts(0, st.polls, st.schedules, 0);
    }
    // chains
    let chain_progs: Vec<usize> = if quick { (0..progs.len()).filter(|k| *k < 2 || refs[*k].len() - 2 <= 3).collect() } else { (0..progs.len()).filter(|k| *k < 2 || refs[*k].len() - 2 <= 4).collect() };
    let res = run.par_family(
        &format!("chains producer -> relay -> end: {} programs x every order of deliveries, relay polls and end polls x handles", chain_progs.len()),
        chain_progs.len() as u64,
        St::default,
        |st, kk| {
            let k = chain_progs[kk as usize];
            let p = &progs[k];
            let reference = &refs[k];
            let n = reference.len() - 2;
            let hs = handles(n);
            // all sequences over the multiset {D x n, R x pr, L x pl, X x px} (X = the end of the chain goes away)
            let configs: Vec<[usize; 3]> = if quick { vec![[1, 1, 0], [2, 0, 1]] } else { vec![[2, 1, 0], [1, 1, 1], [2, 0, 1]] };
            let mut seqs: Vec<Vec<u8>> = vec![];
            for [pr, pl, px] in configs {
                let mut part: Vec<Vec<u8>> = vec![vec![]];
                for _ in 0..(n + pr + pl + px) {
                    let mut next = vec![];
                    for s in &part {
                        for e in 0..4u8 {
                            let cnt = s.iter().filter(|x| **x == e).count();
                            let cap = [n, pr, pl, px][e as usize];
                            if cnt < cap {
                                let mut s2 = s.clone();
                                s2.push(e);
                                next.push(s2);
                            }
                        }
                    }
                    part = next;
                }
                seqs.extend(part);
            }
            for s in &seqs {
                run.heartbeat();
                // handle choices for the polls of this order
                let npolls = s.iter().filter(|e| **e == 1 || **e == 2).count();
                let mut choice = vec![0usize; npolls];
                loop {
                    if run.violations_so_far() > 100 {
                        return;
                    }
                    let mut pi = 0;
                    let events: Vec<(u8, usize)> = s
                        .iter()
                        .map(|e| {
                            if *e == 0 || *e == 3 {
                                (*e, 0)
                            } else {
                                let h = hs[choice[pi]];
                                pi += 1;
                                (*e, h)
                            }
                        })
                        .collect();
                    for (ctor, pre) in [(0u8, 0usize), (3, 0), (0, 1), (3, n), (0, n), (3, 1)] {
                        // late wiring only in the schedules in which the end of the chain stays
                        if pre > n || (pre > 0 && (s.contains(&3) || npolls > 2)) || (pre == n && n == 1 && ctor == 0) {
                            continue;
                        }
                        st.schedules += 1;
                        st.polls += npolls as u64;
                        CTOR.with(|c| c.set(ctor));
                        PRE.with(|x| x.set(pre));
                        let r = guard(|| run_chain(p, &events, reference));
                        CTOR.with(|c| c.set(0));
                        PRE.with(|x| x.set(0));
                        match r {
                            Err(m) => run.violation("chain:panic", m, json!({"type": "chain", "program": prog_json(p), "events": events, "ctor": ctor, "waiting_before_wiring": pre})),
                            Ok((obs, found)) => {
                                st.outcomes.insert(hash64(format!("{:?}", obs).as_bytes()));
                                for (kind, msg) in found {
                                    run.violation(&kind, format!("{} in chain schedule {:?} on program {} (stores made the way #{})", msg, events, prog_json(p), ctor), json!({"type": "chain", "program": prog_json(p), "events": events, "ctor": ctor, "waiting_before_wiring": pre}));
                                }
                            }
                        }
                    }
                    // next handle choice
                    let mut i = 0;
                    loop {
                        if i == npolls {
                            break;
                        }
                        choice[i] += 1;
                        if choice[i] < hs.len() {
                            break;
                        }
                        choice[i] = 0;
                        i += 1;
                    }
                    if i == npolls {
                        break;
                    }
                }
            }
        },
        &|kk| json!({"type": "chain", "program": prog_json(&progs[chain_progs[kk as usize]]), "events": []}),
    );
    for st in res {
        run.add_counts(0, st.polls, st.schedules, 0);
        run.add_outcomes(st.outcomes);
    }
    // re-wiring in mid-stream
    let res = run.par_family(
        &format!("{} producer programs x every operation boundary x every handle: both ends re-wired to a fresh channel (set_sender / set_receiver) after the receiver caught up", progs.len()),
        progs.len() as u64,
        || 0u64,
        |st, k| {
            let p = &progs[k as usize];
            let reference = &refs[k as usize];
            for j in 0..=p.ops.len() {
                for h in handles(reference.len() - 2) {
                    for ctor in [0u8, 3] {
                        *st += 1;
                        CTOR.with(|c| c.set(ctor));
                        let r = guard(|| run_rewire(p, j, h, reference));
                        CTOR.with(|c| c.set(0));
                        let case = json!({"type": "rewire", "program": prog_json(p), "after_ops": j, "handle": h, "ctor": ctor});
                        match r {
                            Err(m) => run.violation("rewire:panic", m, case),
                            Ok(found) => {
                                for (kind, msg) in found {
                                    run.violation(&kind, format!("{} (program {}, re-wired after {} operations, poll for {})", msg, prog_json(p), j, h as i64), case.clone());
                                }
                            }
                        }
                    }
                }
            }
        },
        &|k| json!({"type": "rewire", "program": prog_json(&progs[k as usize]), "after_ops": 0, "handle": 0}),
    );
    for st in res {
        run.add_counts(0, st, st, st);
    }
    // nodes created directly through the public `Bdd::node`, with every label over every pair of existing handles (also
    // labels that do not respect the variable order: a mirror copies what it is sent): all placements of <= 1 poll
    {
        let mut raw: Vec<Program> = vec![];
        for base in progs.iter().take(if quick { 8 } else { 30 }) {
            let mut b = Bdd::new();
            run_program(&mut b, base);
            let len = b.nodes.len();
            for v in 0..3u8 {
                for lo in 0..len {
                    for hi in 0..len {
                        if lo != hi {
                            let mut ops = base.ops.clone();
                            ops.push(Op::RawNode(v, lo as u16, hi as u16));
                            raw.push(Program { ops });
                        }
                    }
                }
            }
        }
        let res = run.par_family(
            &format!("{} programs that end with a directly created node (every label x every pair of handles) x all placements of <= 1 poll x all handles", raw.len()),
            raw.len() as u64,
            || 0u64,
            |st, k| {
                let p = &raw[k as usize];
                let r = guard(|| {
                    let mut b = Bdd::new();
                    run_program(&mut b, p);
                    b.nodes.clone()
                });
                // a producer that refuses such a node (a store is free to validate what `node` is given) is outside this
                // family: the question here is only what a mirror does with a node that the producer DID create and announce
                let reference = match r {
                    Ok(x) => x,
                    Err(_) => return,
                };
                let n = reference.len() - 2;
                for np in 0..=1 {
                    for s in schedules(n, np) {
                        *st += 1;
                        match guard(|| run_schedule(p, &s, false, &reference)) {
                            Err(m) => run.violation("stream:panic", m, json!({"type": "stream", "program": prog_json(p), "polls": s, "threaded": false})),
                            Ok((_, found)) => {
                                for (kind, msg) in found {
                                    run.violation(&kind, format!("{} with polls {:?} on program {}", msg, s, prog_json(p)), json!({"type": "stream", "program": prog_json(p), "polls": s, "threaded": false}));
                                }
                            }
                        }
                    }
                }
            },
            &|k| json!({"type": "stream", "program": prog_json(&raw[k as usize]), "polls": [], "threaded": false}),
        );
        for st in res {
            run.add_counts(0, st, st, st);
        }
    }
    mirror_reuse_family(run);
    // the receiver directly on a rendezvous channel, the producer on its own thread
    {
        let res = run.par_family(
            &format!("{} producer programs with the receiver directly on a rendezvous channel (capacity 0), polled until it holds every node", progs.len()),
            progs.len() as u64,
            || 0u64,
            |st, k| {
                let p = &progs[k as usize];
                *st += 1;
                let case = json!({"type": "rendezvous-direct", "program": prog_json(p)});
                match guard(|| rendezvous_direct(p, &refs[k as usize])) {
                    Err(m) => run.violation("rendezvous:panic", m, case),
                    Ok(found) => {
                        for (kind, msg) in found {
                            run.violation(&kind, format!("{} (program {})", msg, prog_json(p)), case.clone());
                        }
                    }
                }
            },
            &|k| json!({"type": "rendezvous-direct", "program": prog_json(&progs[k as usize])}),
        );
        for st in res {
            run.add_counts(0, st, st, st);
        }
    }
    // the repair step on connected stores
    let res = run.par_family(
        &format!("{} producer programs x the repair step (fix_import) on the producer / the receiver / the relay at every operation boundary", progs.len()),
        progs.len() as u64,
        || 0u64,
        |st, k| {
            let p = &progs[k as usize];
            let reference = &refs[k as usize];
            for who in 0..3u8 {
                for j in 0..=p.ops.len() {
                    *st += 1;
                    let case = json!({"type": "repair", "program": prog_json(p), "after_ops": j, "who": who});
                    match guard(|| run_repair(p, j, who, reference)) {
                        Err(m) => run.violation("repair:panic", m, case),
                        Ok(found) => {
                            for (kind, msg) in found {
                                run.violation(&kind, format!("{} (program {})", msg, prog_json(p)), case.clone());
                            }
                        }
                    }
                }
            }
        },
        &|k| json!({"type": "repair", "program": prog_json(&progs[k as usize]), "after_ops": 0, "who": 0}),
    );
    for st in res {
        run.add_counts(0, st, st, st);
    }
    // long streams
    let sizes: Vec<usize> = if quick { vec![17_000] } else { vec![17_000, 40_000] };
    let res = run.par_family(
        "long streams (more than 2^16 messages), polls around message 65536 and at both ends, receiver and relay chain",
        sizes.len() as u64,
        || 0u64,
        |st, k| {
            *st += 9 * 11 * 2 + 18;
            run.isolated_case(json!({"type": "big-stream", "pairs": sizes[k as usize]}), &format!("stream of {} variable pairs", sizes[k as usize]));
        },
        &|k| json!({"type": "big-stream", "pairs": sizes[k as usize]}),
    );
    for st in res {
        run.add_counts(1, st, st, st);
    }
    run.sample(json!({"type": "stream", "program": prog_json(&progs[0]), "polls": [[1, 3], [2, 18446744073709551615u64]], "threaded": false}));
    run.sample(json!({"type": "chain", "program": prog_json(&progs[0]), "events": [[0, 0], [1, 2], [0, 0], [2, 3], [0, 0]]}));
    // once more with a logger that accepts TRACE records: all placements of <= 1 poll
    crate::report::trace_logging(true);
    let res = run.par_family(
        &format!("{} producer programs x all placements of <= 1 poll x all handles with trace logging switched on", progs.len()),
        progs.len() as u64,
        || 0u64,
        |st, k| {
            let p = &progs[k as usize];
            let reference = &refs[k as usize];
            let n = reference.len() - 2;
            for np in 0..=1 {
                for s in schedules(n, np) {
                    *st += 1;
                    match guard(|| run_schedule(p, &s, false, reference)) {
                        Err(m) => run.violation("trace-logging:stream:panic", m, json!({"type": "stream", "program": prog_json(p), "polls": s, "threaded": false, "trace_logging": true})),
                        Ok((_, found)) => {
                            for (kind, msg) in found {
                                run.violation(&format!("trace-logging:{}", kind), format!("{} with polls {:?} on program {} (a logger accepting TRACE records is installed)", msg, s, prog_json(p)), json!({"type": "stream", "program": prog_json(p), "polls": s, "threaded": false, "trace_logging": true}));
                            }
                        }
                    }
                }
            }
        },
        &|k| json!({"type": "stream", "program": prog_json(&progs[k as usize]), "polls": [], "threaded": false, "trace_logging": true}),
    );
    for st in res {
        run.add_counts(0, st, st, 0);
    }
    crate::report::trace_logging(false);
    run.extra("states_are", json!("producer programs"));
    run.extra("transitions_are", json!("receiver polls executed and judged"));
    let _ = Var(0);
}

pub fn replay(c: &Value) -> Vec<(String, String)> {
    if c["type"] == "rendezvous-direct" {
        let p = Program { ops: c["program"].as_array().map(|a| a.iter().filter_map(op_from_json).collect()).unwrap_or_default() };
        let mut b = Bdd::new();
        run_program(&mut b, &p);
        let reference = b.nodes.clone();
        return guard(|| rendezvous_direct(&p, &reference)).unwrap_or_else(|m| vec![("rendezvous:panic".into(), m)]);
    }
    if c["type"] == "mirror-reuse" {
        let p = Program { ops: c["program"].as_array().map(|a| a.iter().filter_map(op_from_json).collect()).unwrap_or_default() };
        let mut b = Bdd::new();
        run_program(&mut b, &p);
        let reference = b.nodes.clone();
        return guard(|| mirror_reuse(&p, c["handle"].as_u64().unwrap_or(2) as usize, &reference)).unwrap_or_else(|m| vec![("mirror:panic".into(), m)]);
    }
    if c["type"] == "repair" {
        let p = Program { ops: c["program"].as_array().map(|a| a.iter().filter_map(op_from_json).collect()).unwrap_or_default() };
        let mut b = Bdd::new();
        run_program(&mut b, &p);
        let reference = b.nodes.clone();
        return guard(|| run_repair(&p, c["after_ops"].as_u64().unwrap_or(0) as usize, c["who"].as_u64().unwrap_or(0) as u8, &reference)).unwrap_or_else(|m| vec![("repair:panic".into(), m)]);
    }
    if c["type"] == "big-stream" {
        return guard(|| big_stream_case(c["pairs"].as_u64().unwrap_or(17000) as usize)).unwrap_or_else(|m| vec![("stream:panic".into(), m)]);
    }
    let ops: Vec<Op> = c["program"].as_array().map(|a| a.iter().filter_map(op_from_json).collect()).unwrap_or_default();
    let p = Program { ops };
    CTOR.with(|x| x.set(c["ctor"].as_u64().unwrap_or(0) as u8));
    PRE.with(|x| x.set(c["waiting_before_wiring"].as_u64().unwrap_or(0) as usize));
    let mut b = Bdd::new();
    run_program(&mut b, &p);
    let reference = b.nodes.clone();
    if let Some(j) = c["receiver_gone_after"].as_u64() {
        let r = guard(|| {
            let (ps, pr) = unbounded::<BddNode>();
            let mut b = Bdd::with_sender(ps);
            let mut pr = Some(pr);
            for (i, op) in p.ops.iter().enumerate() {
                if i as u64 == j {
                    pr = None;
                }
                apply(&mut b, op);
            }
            drop(pr);
            b.nodes.clone()
        });
        return match r {
            Err(m) => vec![("producer:panic".into(), m)],
            Ok(nodes) if nodes != reference => vec![("producer:table-differs".into(), "the producer's table differs from its table when run alone".into())],
            _ => vec![],
        };
    }
    if c["type"] == "rewire" {
        return guard(|| run_rewire(&p, c["after_ops"].as_u64().unwrap_or(0) as usize, c["handle"].as_u64().unwrap_or(0) as usize, &reference)).unwrap_or_else(|m| vec![("rewire:panic".into(), m)]);
    }
    if c["type"] == "chain" {
        let events: Vec<(u8, usize)> = c["events"].as_array().map(|a| a.iter().map(|e| (e[0].as_u64().unwrap_or(0) as u8, e[1].as_u64().unwrap_or(0) as usize)).collect()).unwrap_or_default();
        return match guard(|| run_chain(&p, &events, &reference)) {
            Ok((_, f)) => f,
            Err(m) => vec![("chain:panic".into(), m)],
        };
    }
    let polls: Vec<(usize, usize)> = c["polls"].as_array().map(|a| a.iter().map(|e| (e[0].as_u64().unwrap_or(0) as usize, e[1].as_u64().unwrap_or(0) as usize)).collect()).unwrap_or_default();
    match guard(|| run_schedule(&p, &polls, c["threaded"].as_bool().unwrap_or(false), &reference)) {
        Ok((_, f)) => f,
        Err(m) => vec![("stream:panic".into(), m)],
    }
}
