//! C20: both interpretation iterators on every interpretation vector up to a length bound.

use crate::report::*;
use adf_bdd::datatypes::adf::{ThreeValuedInterpretationsIterator, TwoValuedInterpretationsIterator};
use adf_bdd::datatypes::Term;
use serde_json::{json, Value};
use std::collections::BTreeSet;

/// alphabet of one position: false, true, and two different undecided terms (the smallest one, which is also
/// the biodivine placeholder, and a larger handle)
const ALPHA: [usize; 4] = [0, 1, 2, 12];

fn vector(len: usize, mut k: u64) -> Vec<Term> {
    let mut v = vec![];
    for _ in 0..len {
        v.push(Term(ALPHA[(k % 4) as usize]));
        k /= 4;
    }
    v
}

fn show(v: &[Term]) -> Vec<usize> {
    v.iter().map(|t| t.value()).collect()
}

pub fn case(input: &[Term]) -> Vec<(String, String)> {
    let mut out = vec![];
    let und: Vec<usize> = (0..input.len()).filter(|i| !input[*i].is_truth_value()).collect();
    let k = und.len() as u32;
    // ---- two-valued
    let limit = 2usize.pow(k) * 2 + 8;
    match guard(|| TwoValuedInterpretationsIterator::new(input).take(limit).collect::<Vec<_>>()) {
        Err(m) => out.push(("two-valued:panic".into(), m)),
        Ok(items) => {
            let mut want: BTreeSet<Vec<usize>> = BTreeSet::new();
            for c in 0..2usize.pow(k) {
                let mut w = show(input);
                for (j, p) in und.iter().enumerate() {
                    w[*p] = c >> j & 1;
                }
                want.insert(w);
            }
            let got: Vec<Vec<usize>> = items.iter().map(|x| show(x)).collect();
            let gs: BTreeSet<Vec<usize>> = got.iter().cloned().collect();
            if items.len() >= limit {
                out.push(("two-valued:too-many".into(), format!("yields at least {} items for {} undecided positions", limit, k)));
            } else if gs != want {
                let missing: Vec<_> = want.difference(&gs).collect();
                let extra: Vec<_> = gs.difference(&want).collect();
                out.push(("two-valued:wrong-set".into(), format!("missing {:?}, not a completion {:?}", missing, extra)));
            } else if gs.len() != got.len() {
                out.push(("two-valued:duplicate".into(), format!("{} items for {} completions", got.len(), gs.len())));
            }
        }
    }
    // exhausted means exhausted: polled again after the first None, the iterator must not start over (otherwise a
    // consumer that polls once more gets completions a second time - "each once" would not hold)
    match guard(|| {
        let mut it = TwoValuedInterpretationsIterator::new(input);
        let mut n = 0usize;
        while it.next().is_some() && n < limit {
            n += 1;
        }
        (it.next().is_some(), it.next().is_some())
    }) {
        Ok((false, false)) => {}
        Ok(_) => out.push(("two-valued:restarts-after-end".into(), "after the first None the iterator yields items again".into())),
        Err(m) => out.push(("two-valued:panic".into(), m)),
    }
    // ---- three-valued
    let limit = 3usize.pow(k) * 2 + 8;
    match guard(|| {
        let mut it = ThreeValuedInterpretationsIterator::new(input);
        let mut n = 0usize;
        while it.next().is_some() && n < limit {
            n += 1;
        }
        (it.next().is_some(), it.next().is_some())
    }) {
        Ok((false, false)) => {}
        Ok(_) => out.push(("three-valued:restarts-after-end".into(), "after the first None the iterator yields items again".into())),
        Err(m) => out.push(("three-valued:panic".into(), m)),
    }
    match guard(|| ThreeValuedInterpretationsIterator::new(input).take(limit).collect::<Vec<_>>()) {
        Err(m) => out.push(("three-valued:panic".into(), m)),
        Ok(items) => {
            let mut want: BTreeSet<Vec<usize>> = BTreeSet::new();
            for c in 0..3usize.pow(k) {
                let mut w = show(input);
                let mut c = c;
                for p in und.iter() {
                    match c % 3 {
                        0 => w[*p] = 0,
                        1 => w[*p] = 1,
                        _ => {}
                    }
                    c /= 3;
                }
                want.insert(w);
            }
            let got: Vec<Vec<usize>> = items.iter().map(|x| show(x)).collect();
            let gs: BTreeSet<Vec<usize>> = got.iter().cloned().collect();
            if items.len() >= limit {
                out.push(("three-valued:too-many".into(), format!("yields at least {} items for {} undecided positions", limit, k)));
            } else if gs != want {
                let missing: Vec<_> = want.difference(&gs).collect();
                let extra: Vec<_> = gs.difference(&want).collect();
                out.push(("three-valued:wrong-set".into(), format!("missing {:?}, not a refinement (undecided positions keep their term) {:?}", missing, extra)));
            } else if gs.len() != got.len() {
                out.push(("three-valued:duplicate".into(), format!("{} items for {} refinements", got.len(), gs.len())));
            }
            if got.first() != Some(&show(input)) {
                out.push(("three-valued:first".into(), format!("first item is {:?}, not the interpretation itself", got.first())));
            }
        }
    }
    out
}

/// The iterator adaptors agree with plain `next`: after p items were taken, `nth(n)` is item p+n of the plain
/// enumeration, `count` is what is left, `last` the last item, `skip` / `step_by` select what their contract says -
/// also on an iterator that has already yielded items (a second use). Vectors with <= 3 undecided positions.
pub fn adaptor_case(input: &[Term]) -> Vec<(String, String)> {
    let mut out = vec![];
    // the concrete iterator types are used (a boxed trait object would route the provided methods through `next` and
    // hide an override)
    let r = guard(|| adaptor_checks(|| TwoValuedInterpretationsIterator::new(input)));
    match r {
        Err(m) => out.push(("two-valued:panic".into(), m)),
        Ok(found) => out.extend(found.into_iter().take(3).map(|f| ("two-valued:adaptor".to_string(), f))),
    }
    let r = guard(|| adaptor_checks(|| ThreeValuedInterpretationsIterator::new(input)));
    match r {
        Err(m) => out.push(("three-valued:panic".into(), m)),
        Ok(found) => out.extend(found.into_iter().take(3).map(|f| ("three-valued:adaptor".to_string(), f))),
    }
    out
}

fn adaptor_checks<I: Iterator<Item = Vec<Term>>>(mk: impl Fn() -> I) -> Vec<String> {
    let mut found: Vec<String> = vec![];
    let mut plain: Vec<Vec<Term>> = vec![];
    {
        let mut it = mk();
        while let Some(x) = it.next() {
            plain.push(x);
            if plain.len() > 100 {
                break;
            }
        }
    }
    let total = plain.len();
    let advanced = |p: usize| {
        let mut it = mk();
        for _ in 0..p {
            it.next();
        }
        it
    };
    // from every number of items already taken, up to and including all of them (the state in which everything was
    // handed out but `None` has not been returned yet)
    for p in 0..=total.min(9) {
        for n in 0..=(total + 1).min(6) {
            let mut it = advanced(p);
            let got = it.nth(n);
            let want = plain.get(p + n).cloned();
            if got != want {
                found.push(format!("after {} item(s) nth({}) yields {:?}, the plain enumeration has {:?} there", p, n, got.map(|x| show(&x)), want.map(|x| show(&x))));
            }
            let next = it.next();
            let want_next = plain.get(p + n + 1).cloned();
            if p + n < total && next != want_next {
                found.push(format!("after {} item(s) and nth({}) the next item is {:?} instead of {:?}", p, n, next.map(|x| show(&x)), want_next.map(|x| show(&x))));
            }
        }
        let left = total - p.min(total);
        let c = advanced(p).count();
        if c != left {
            found.push(format!("after {} item(s) count() is {}, {} items are left", p, c, left));
        }
        if advanced(p).last() != if p < total { plain.last().cloned() } else { None } {
            found.push(format!("after {} item(s) last() is not the last item of the enumeration (None when nothing is left)", p));
        }
        let folded = advanced(p).fold(0usize, |acc, x| acc + 1 + x.iter().filter(|t| t.is_true()).count());
        let want_fold: usize = plain.iter().skip(p).map(|x| 1 + x.iter().filter(|t| t.is_true()).count()).sum();
        if folded != want_fold {
            found.push(format!("after {} item(s) fold() visits other items than next() would", p));
        }
        let mut visited = 0usize;
        advanced(p).for_each(|_| visited += 1);
        if visited != left {
            found.push(format!("after {} item(s) for_each() visits {} items, {} are left", p, visited, left));
        }
        let collected: Vec<Vec<Term>> = advanced(p).collect();
        if collected[..] != plain[p.min(total)..] {
            found.push(format!("after {} item(s) collect() yields {} items, {} are left", p, collected.len(), left));
        }
        let pos = advanced(p).position(|x| Some(&x) == plain.last());
        if pos != if left > 0 { Some(left - 1) } else { None } {
            found.push(format!("after {} item(s) position() of the last item is {:?}", p, pos));
        }
        if advanced(p).max_by_key(|x| x.iter().filter(|t| t.is_true()).count()).is_some() != (left > 0) || advanced(p).min_by_key(|x| x.len()).is_some() != (left > 0) {
            found.push(format!("after {} item(s) max_by_key / min_by_key disagree with the number of items left", p));
        }
        for step in 1..=3usize {
            let got: Vec<Vec<Term>> = advanced(p).step_by(step).collect();
            let want: Vec<Vec<Term>> = plain.iter().skip(p).step_by(step).cloned().collect();
            if got != want {
                found.push(format!("after {} item(s) step_by({}) yields {} items, {} expected", p, step, got.len(), want.len()));
            }
            let got: Vec<Vec<Term>> = advanced(p).skip(step).collect();
            let want: Vec<Vec<Term>> = plain.iter().skip(p + step).cloned().collect();
            if got != want {
                found.push(format!("after {} item(s) skip({}) yields {} items, {} expected", p, step, got.len(), want.len()));
            }
        }
        let (lo, hi) = advanced(p).size_hint();
        if lo > left || hi.map(|h| h < left).unwrap_or(false) {
            found.push(format!("after {} item(s) size_hint ({}, {:?}) excludes the real number of items left {}", p, lo, hi, left));
        }
    }
    found
}

/// prefix check for vectors with many undecided positions: k undecided positions interleaved with decided ones
pub fn prefix_case(k: usize) -> Vec<(String, String)> {
    let mut out = vec![];
    let mut v: Vec<Term> = vec![];
    for i in 0..k {
        v.push(Term(i % 2));
        v.push(Term(if i % 2 == 0 { 2 } else { 12 }));
    }
    v.push(Term(1));
    let want = 300usize;
    for three in [false, true] {
        let name = if three { "three-valued" } else { "two-valued" };
        let r = guard(|| {
            if three {
                ThreeValuedInterpretationsIterator::new(&v).take(want).collect::<Vec<_>>()
            } else {
                TwoValuedInterpretationsIterator::new(&v).take(want).collect::<Vec<_>>()
            }
        });
        match r {
            Err(m) => out.push((format!("{}:panic", name), m)),
            Ok(items) => {
                if items.len() < want {
                    out.push((format!("{}:ends-early", name), format!("the iterator ended after {} items although there are far more", items.len())));
                }
                let set: BTreeSet<Vec<usize>> = items.iter().map(|x| show(x)).collect();
                if set.len() != items.len() {
                    out.push((format!("{}:duplicate", name), "an item is yielded twice within the first 300".into()));
                }
                for it in &items {
                    let ok = it.len() == v.len()
                        && it.iter().zip(v.iter()).all(|(a, b)| if b.is_truth_value() { a == b } else if three { a.is_truth_value() || a == b } else { a.is_truth_value() });
                    if !ok {
                        out.push((format!("{}:not-a-completion", name), "an item changes a decided position or is not a completion/refinement".into()));
                        break;
                    }
                }
                if three && items.first().map(|x| show(x)) != Some(show(&v)) {
                    out.push(("three-valued:first".into(), "the first item is not the interpretation itself".into()));
                }
            }
        }
    }
    out
}

pub fn run_c20(run: &Run) {
    run.set_rule("every vector over {false, true, Term(2), Term(12)} of every length 0..L (L = 7 quick, 9 thorough); both public iterators are collected and compared as multisets with the 2^k completions / 3^k refinements computed independently. For vectors of length <= 5 the iterator adaptors (nth, count, last, skip, step_by, size_hint) must agree with plain next, also on an iterator that has already yielded items; the vectors of length <= 5 are run again with a logger that accepts TRACE records. Non-trivial: vectors with >= 1 undecided and >= 1 decided position.");
    run.assume("lengths above the bound are not explored; after the first None the iterators are polled twice more and must stay exhausted (each completion exactly once also for a consumer that polls again)");
    let maxlen = if run.quick() { 7 } else { 9 };
    for len in 0..=maxlen {
        let total = 4u64.pow(len as u32);
        let res = run.par_family(
            &format!("vectors of length {}", len),
            total,
            || (0u64, 0u64, 0u64),
            |st, k| {
                let v = vector(len, k);
                let und = v.iter().filter(|t| !t.is_truth_value()).count();
                st.0 += 1;
                st.1 += 2usize.pow(und as u32) as u64 + 3usize.pow(und as u32) as u64;
                if und >= 1 && und < v.len() {
                    st.2 += 1;
                }
                for (kind, msg) in case(&v) {
                    run.violation(&kind, format!("{} on {:?}", msg, show(&v)), json!({"type": "interp", "vector": show(&v)}));
                }
                if und <= 3 && len <= 5 {
                    for (kind, msg) in adaptor_case(&v) {
                        run.violation(&kind, format!("{} on {:?}", msg, show(&v)), json!({"type": "interp", "vector": show(&v)}));
                    }
                }
            },
            &|k| json!({"type": "interp", "vector": show(&vector(len, k))}),
        );
        for st in res {
            run.add_counts(st.0, st.1, st.0 * 2, st.2);
        }
    }
    // long vectors: 60-130 positions with up to three undecided ones placed around the positions 31/32, 63/64, 127/128
    {
        let spots: Vec<usize> = vec![0, 1, 30, 31, 32, 33, 62, 63, 64, 65, 100, 126, 127, 128, 129];
        let mut cases: Vec<Vec<Term>> = vec![];
        for len in [60usize, 64, 65, 70, 128, 130] {
            for (ai, a) in spots.iter().enumerate() {
                for b in spots.iter().skip(ai) {
                    for c in [*b, len - 1] {
                        if *a >= len || *b >= len || c >= len {
                            continue;
                        }
                        let mut v: Vec<Term> = (0..len).map(|i| Term(i % 2)).collect();
                        v[*a] = Term(2);
                        v[*b] = Term(12);
                        v[c] = Term(7);
                        cases.push(v);
                    }
                }
            }
        }
        let res = run.par_family(
            &format!("long vectors (60-130 positions, <= 3 undecided ones around 32 / 64 / 128): {}", cases.len()),
            cases.len() as u64,
            || 0u64,
            |st, k| {
                *st += 1;
                let v = &cases[k as usize];
                for (kind, msg) in case(v) {
                    run.violation(&kind, format!("{} on a vector of length {} with undecided positions {:?}", msg, v.len(), (0..v.len()).filter(|i| !v[*i].is_truth_value()).collect::<Vec<_>>()), json!({"type": "interp", "vector": show(v)}));
                }
            },
            &|k| json!({"type": "interp", "vector": show(&cases[k as usize])}),
        );
        for st in res {
            run.add_counts(st, st * 35, st * 2, st);
        }
    }
    // very long vectors (beyond 65536 positions) with <= 3 undecided positions around the 2^16 boundary
    {
        let mut cases: Vec<Vec<Term>> = vec![];
        for len in [65536usize, 65537, 70000] {
            for und in [vec![65535usize], vec![65536], vec![0, 65536], vec![65535, 65536, 69999], vec![len - 1], vec![1, len - 2, len - 1]] {
                if und.iter().any(|p| *p >= len) {
                    continue;
                }
                let mut v: Vec<Term> = (0..len).map(|i| Term((i / 3) % 2)).collect();
                for (j, p) in und.iter().enumerate() {
                    v[*p] = Term([2, 12, 7][j % 3]);
                }
                cases.push(v);
            }
        }
        let res = run.par_family(
            &format!("very long vectors (65536-70000 positions, <= 3 undecided ones around position 65536): {}", cases.len()),
            cases.len() as u64,
            || 0u64,
            |st, k| {
                *st += 1;
                run.heartbeat();
                let v = &cases[k as usize];
                for (kind, msg) in case(v) {
                    let und: Vec<usize> = (0..v.len()).filter(|i| !v[*i].is_truth_value()).collect();
                    run.violation(&kind, format!("{} on a vector of length {} with undecided positions {:?}", msg.chars().take(300).collect::<String>(), v.len(), und), json!({"type": "interp-long", "len": v.len(), "undecided": und}));
                }
            },
            &|k| json!({"type": "interp-long", "len": cases[k as usize].len()}),
        );
        for st in res {
            run.add_counts(st, st * 35, st * 2, st);
        }
    }
    // many undecided positions (31 ... 130): the 2^k / 3^k items cannot be enumerated, so a prefix of 300 items is
    // checked: the iterator must not end, every item must be a completion / refinement, all items distinct, decided
    // positions untouched
    {
        let ks = [9usize, 31, 32, 33, 63, 64, 65, 66, 100, 130];
        let res = run.par_family(
            "many undecided positions (9-130): prefix of 300 items of both iterators",
            ks.len() as u64,
            || 0u64,
            |st, i| {
                *st += 1;
                let k = ks[i as usize];
                for (kind, msg) in prefix_case(k) {
                    run.violation(&kind, format!("{} ({} undecided positions)", msg, k), json!({"type": "interp-prefix", "undecided": k}));
                }
            },
            &|i| json!({"type": "interp-prefix", "undecided": ks[i as usize]}),
        );
        for st in res {
            run.add_counts(st, st * 600, st * 2, st);
        }
    }
    run.add_outcomes((0..=maxlen as u64).map(|k| k)); // distinct numbers of undecided positions seen
    run.sample(json!({"vector": [1, 2, 0, 12, 1], "two_valued_items": 4, "three_valued_items": 9}));
    run.sample(json!({"vector": show(&vector(7, 12345))}));
    // once more with a logger that accepts TRACE records: what the iterators yield must not depend on whether somebody
    // listens (the log statements are executed and their arguments evaluated)
    trace_logging(true);
    for len in 0..=5usize {
        let total = 4u64.pow(len as u32);
        let res = run.par_family(
            &format!("vectors of length {} with trace logging switched on", len),
            total,
            || 0u64,
            |st, k| {
                let v = vector(len, k);
                *st += 1;
                let mut found = case(&v);
                if v.iter().filter(|t| !t.is_truth_value()).count() <= 2 {
                    found.extend(adaptor_case(&v));
                }
                for (kind, msg) in found {
                    run.violation(&format!("trace-logging:{}", kind), format!("{} on {:?} (a logger accepting TRACE records is installed)", msg, show(&v)), json!({"type": "interp", "vector": show(&v), "trace_logging": true}));
                }
            },
            &|k| json!({"type": "interp", "vector": show(&vector(len, k)), "trace_logging": true}),
        );
        for st in res {
            run.add_counts(st, st * 4, st, st);
        }
    }
    trace_logging(false);
    run.extra("states_are", json!("input vectors"));
    run.extra("transitions_are", json!("items yielded by the real iterators (each compared)"));
}

pub fn replay(case_v: &Value) -> Vec<(String, String)> {
    if case_v["type"] == "interp-prefix" {
        return prefix_case(case_v["undecided"].as_u64().unwrap_or(64) as usize);
    }
    if case_v["type"] == "interp-long" {
        let len = case_v["len"].as_u64().unwrap_or(65537) as usize;
        let mut v: Vec<Term> = (0..len).map(|i| Term((i / 3) % 2)).collect();
        if let Some(u) = case_v["undecided"].as_array() {
            for (j, p) in u.iter().enumerate() {
                let p = p.as_u64().unwrap_or(0) as usize;
                if p < len {
                    v[p] = Term([2, 12, 7][j % 3]);
                }
            }
        }
        return case(&v);
    }
    let v: Vec<Term> = case_v["vector"]
        .as_array()
        .map(|a| a.iter().map(|x| Term(x.as_u64().unwrap_or(0) as usize)).collect())
        .unwrap_or_default();
    let trace = case_v["trace_logging"].as_bool().unwrap_or(false);
    if trace {
        trace_logging(true);
    }
    let mut found = case(&v);
    if v.iter().filter(|t| !t.is_truth_value()).count() <= 3 && v.len() <= 5 {
        found.extend(adaptor_case(&v));
    }
    if trace {
        trace_logging(false);
        for f in found.iter_mut() {
            f.0 = format!("trace-logging:{}", f.0);
        }
    }
    found
}
