//! C20: both interpretation iterators on every interpretation vector up to a length bound.

use crate::report::*;
use adf_bdd::datatypes::adf::{ThreeValuedInterpretationsIterator, TwoValuedInterpretationsIterator};
use adf_bdd::datatypes::Term;
use serde_json::{json, Value};
use std::collections::BTreeSet;

/// alphabet of one position: false, true, and two different undecided terms (the smallest one, which is also
/// the biodivine placeholder, and a larger handle)
const ALPHA: [usize; 4] = [0, 1, 2, 12];

fn vector(len: usize, mut k: u64) -> Vec<Term> {
    let mut v = vec![];
    for _ in 0..len {
        v.push(Term(ALPHA[(k % 4) as usize]));
        k /= 4;
    }
    v
}

fn show(v: &[Term]) -> Vec<usize> {
    v.iter().map(|t| t.value()).collect()
}

pub fn case(input: &[Term]) -> Vec<(String, String)> {
    let mut out = vec![];
    let und: Vec<usize> = (0..input.len()).filter(|i| !input[*i].is_truth_value()).collect();
    let k = und.len() as u32;
    // ---- two-valued
    let limit = 2usize.pow(k) * 2 + 8;
    match guard(|| TwoValuedInterpretationsIterator::new(input).take(limit).collect::<Vec<_>>()) {
        Err(m) => out.push(("two-valued:panic".into(), m)),
        Ok(items) => {
            let mut want: BTreeSet<Vec<usize>> = BTreeSet::new();
            for c in 0..2usize.pow(k) {
                let mut w = show(input);
                for (j, p) in und.iter().enumerate() {
                    w[*p] = c >> j & 1;
                }
                want.insert(w);
            }
            let got: Vec<Vec<usize>> = items.iter().map(|x| show(x)).collect();
            let gs: BTreeSet<Vec<usize>> = got.iter().cloned().collect();
            if items.len() >= limit {
                out.push(("two-valued:too-many".into(), format!("yields at least {} items for {} undecided positions", limit, k)));
            } else if gs != want {
                let missing: Vec<_> = want.difference(&gs).collect();
                let extra: Vec<_> = gs.difference(&want).collect();
                out.push(("two-valued:wrong-set".into(), format!("missing {:?}, not a completion {:?}", missing, extra)));
            } else if gs.len() != got.len() {
                out.push(("two-valued:duplicate".into(), format!("{} items for {} completions", got.len(), gs.len())));
            }
        }
    }
    // exhausted means exhausted: polled again after the first None, the iterator must not start over (otherwise a
    // consumer that polls once more gets completions a second time - "each once" would not hold)
    match guard(|| {
        let mut it = TwoValuedInterpretationsIterator::new(input);
        let mut n = 0usize;
        while it.next().is_some() && n < limit {
            n += 1;
        }
        (it.next().is_some(), it.next().is_some())
    }) {
        Ok((false, false)) => {}
        Ok(_) => out.push(("two-valued:restarts-after-end".into(), "after the first None the iterator yields items again".into())),
        Err(m) => out.push(("two-valued:panic".into(), m)),
    }
    // ---- three-valued
    let limit = 3usize.pow(k) * 2 + 8;
    match guard(|| {
        let mut it = ThreeValuedInterpretationsIterator::new(input);
        let mut n = 0usize;
        while it.next().is_some() && n < limit {
            n += 1;
        }
        (it.next().is_some(), it.next().is_some())
    }) {
        Ok((false, false)) => {}
        Ok(_) => out.push(("three-valued:restarts-after-end".into(), "after the first None the iterator yields items again".into())),
        Err(m) => out.push(("three-valued:panic".into(), m)),
    }
    match guard(|| ThreeValuedInterpretationsIterator::new(input).take(limit).collect::<Vec<_>>()) {
        Err(m) => out.push(("three-valued:panic".into(), m)),
        Ok(items) => {
            let mut want: BTreeSet<Vec<usize>> = BTreeSet::new();
            for c in 0..3usize.pow(k) {
                let mut w = show(input);
                let mut c = c;
                for p in und.iter() {
                    match c % 3 {
                        0 => w[*p] = 0,
                        1 => w[*p] = 1,
                        _ => {}
                    }
                    c /= 3;
                }
                want.insert(w);
            }
            let got: Vec<Vec<usize>> = items.iter().map(|x| show(x)).collect();
            let gs: BTreeSet<Vec<usize>> = got.iter().cloned().collect();
            if items.len() >= limit {
                out.push(("three-valued:too-many".into(), format!("yields at least {} items for {} undecided positions", limit, k)));
            } else if gs != want {
                let missing: Vec<_> = want.difference(&gs).collect();
                let extra: Vec<_> = gs.difference(&want).collect();
                out.push(("three-valued:wrong-set".into(), format!("missing {:?}, not a refinement (undecided positions keep their term) {:?}", missing, extra)));
            } else if gs.len() != got.len() {
                out.push(("three-valued:duplicate".into(), format!("{} items for {} refinements", got.len(), gs.len())));
            }
            if got.first() != Some(&show(input)) {
                out.push(("three-valued:first".into(), format!("first item is {:?}, not the interpretation itself", got.first())));
            }
        }
    }
    out
}

pub fn run_c20(run: &Run) {
    run.set_rule("every vector over {false, true, Term(2), Term(12)} of every length 0..L (L = 7 quick, 9 thorough); both public iterators are collected and compared as multisets with the 2^k completions / 3^k refinements computed independently. Non-trivial: vectors with >= 1 undecided and >= 1 decided position.");
    run.assume("lengths above the bound are not explored; after the first None the iterators are polled twice more and must stay exhausted (each completion exactly once also for a consumer that polls again)");
    let maxlen = if run.quick() { 7 } else { 9 };
    for len in 0..=maxlen {
        let total = 4u64.pow(len as u32);
        let res = run.par_family(
            &format!("vectors of length {}", len),
            total,
            || (0u64, 0u64, 0u64),
            |st, k| {
                let v = vector(len, k);
                let und = v.iter().filter(|t| !t.is_truth_value()).count();
                st.0 += 1;
                st.1 += 2usize.pow(und as u32) as u64 + 3usize.pow(und as u32) as u64;
                if und >= 1 && und < v.len() {
                    st.2 += 1;
                }
                for (kind, msg) in case(&v) {
                    run.violation(&kind, format!("{} on {:?}", msg, show(&v)), json!({"type": "interp", "vector": show(&v)}));
                }
            },
            &|k| json!({"type": "interp", "vector": show(&vector(len, k))}),
        );
        for st in res {
            run.add_counts(st.0, st.1, st.0 * 2, st.2);
        }
    }
    run.add_outcomes((0..=maxlen as u64).map(|k| k)); // distinct numbers of undecided positions seen
    run.sample(json!({"vector": [1, 2, 0, 12, 1], "two_valued_items": 4, "three_valued_items": 9}));
    run.sample(json!({"vector": show(&vector(7, 12345))}));
    run.extra("states_are", json!("input vectors"));
    run.extra("transitions_are", json!("items yielded by the real iterators (each compared)"));
}

pub fn replay(case_v: &Value) -> Vec<(String, String)> {
    let v: Vec<Term> = case_v["vector"]
        .as_array()
        .map(|a| a.iter().map(|x| Term(x.as_u64().unwrap_or(0) as usize)).collect())
        .unwrap_or_default();
    case(&v)
}
