//! Helpers to drive the CLI binary built from the working tree and to read its output.
#![allow(dead_code)]

use crate::oracle::*;
use crate::report::*;
use std::process::Command;

pub struct CliOut {
    pub code: Option<i32>,
    pub stdout: String,
    pub stderr: String,
}

pub fn cli_path() -> String {
    std::env::var("ADF_BDD_CLI").unwrap_or_else(|_| machinery_error("ADF_BDD_CLI is not set (the run script builds the CLI and sets it)"))
}

/// wall-clock limit of one CLI run; a run that is still going then is killed and judged as a hang (`code` None and
/// `hung` set). The longest legitimate runs of the checks take a few seconds.
pub fn cli_deadline() -> std::time::Duration {
    std::time::Duration::from_secs(std::env::var("VERIF_CLI_DEADLINE_S").ok().and_then(|s| s.parse().ok()).unwrap_or(75))
}

fn run_cmd(mut c: Command) -> CliOut {
    use std::io::Read;
    use std::process::Stdio;
    c.stdin(Stdio::null()).stdout(Stdio::piped()).stderr(Stdio::piped());
    let mut child = c.spawn().unwrap_or_else(|e| machinery_error(&format!("cannot run the CLI binary: {}", e)));
    let mut so = child.stdout.take().unwrap();
    let mut se = child.stderr.take().unwrap();
    let t1 = std::thread::spawn(move || {
        let mut v = vec![];
        let _ = so.read_to_end(&mut v);
        v
    });
    let t2 = std::thread::spawn(move || {
        let mut v = vec![];
        let _ = se.read_to_end(&mut v);
        v
    });
    let t0 = std::time::Instant::now();
    let deadline = cli_deadline();
    let mut nap = std::time::Duration::from_micros(100);
    let mut hung = false;
    let status = loop {
        match child.try_wait() {
            Ok(Some(st)) => break Some(st),
            Ok(None) => {
                if t0.elapsed() > deadline {
                    let _ = child.kill();
                    let _ = child.wait();
                    hung = true;
                    break None;
                }
                std::thread::sleep(nap);
                if nap < std::time::Duration::from_millis(4) {
                    nap *= 2;
                }
            }
            Err(e) => machinery_error(&format!("cannot wait for the CLI binary: {}", e)),
        }
    };
    let stdout = String::from_utf8_lossy(&t1.join().unwrap_or_default()).to_string();
    let mut stderr = String::from_utf8_lossy(&t2.join().unwrap_or_default()).to_string();
    if hung {
        stderr.push_str(&format!("\n(no exit within {} s: the run was killed; {} lines had been printed)", deadline.as_secs(), stdout.lines().count()));
    }
    CliOut { code: status.and_then(|s| s.code()), stdout, stderr }
}

pub fn run_cli(cli: &str, args: &[String]) -> CliOut {
    let mut c = Command::new(cli);
    c.args(args).env_remove("RUST_LOG").env("RUST_BACKTRACE", "0");
    run_cmd(c)
}

pub fn run_cli_env(cli: &str, args: &[String], env: &[(&str, &str)]) -> CliOut {
    let mut c = Command::new(cli);
    c.args(args).env_remove("RUST_LOG").env("RUST_BACKTRACE", "0");
    for (k, v) in env {
        c.env(k, v);
    }
    run_cmd(c)
}

/// one printed interpretation: (label, value) in printed order; None if the line is not an interpretation line
pub fn parse_line(line: &str) -> Option<Vec<(String, u8)>> {
    // format: `T(a) F(b) u(c) ` - labels may contain blanks and brackets, so split on the pattern ") " followed by
    // one of T( F( u( or end of line
    let mut out = vec![];
    let mut rest = line;
    loop {
        if rest.is_empty() {
            break;
        }
        let val = match &rest.get(..2)? {
            &"T(" => T,
            &"F(" => F,
            &"u(" => U,
            _ => return None,
        };
        rest = &rest[2..];
        // find the end of this entry: ") " followed by a new entry or the end
        let mut end = None;
        let bytes = rest.as_bytes();
        let mut i = 0;
        while i + 1 < bytes.len() {
            if bytes[i] == b')' && bytes[i + 1] == b' ' {
                let after = &rest[i + 2..];
                if after.is_empty() || after.starts_with("T(") || after.starts_with("F(") || after.starts_with("u(") {
                    end = Some(i);
                    break;
                }
            }
            i += 1;
        }
        let e = end?;
        out.push((rest[..e].to_string(), val));
        rest = &rest[e + 2..];
    }
    if out.is_empty() {
        None
    } else {
        Some(out)
    }
}

/// all stdout lines as interpretations; Err(line) for the first line that is none
pub fn parse_stdout(stdout: &str) -> Result<Vec<Vec<(String, u8)>>, String> {
    let mut v = vec![];
    for l in stdout.lines() {
        match parse_line(l) {
            Some(x) => v.push(x),
            None => return Err(l.to_string()),
        }
    }
    Ok(v)
}

/// maps a printed interpretation to the vector in declaration order `names`; None if the labels are not exactly the
/// declared ones
pub fn to_interp(line: &[(String, u8)], names: &[String]) -> Option<Interp> {
    if line.len() != names.len() {
        return None;
    }
    let mut v = vec![9u8; names.len()];
    for (l, x) in line {
        let i = names.iter().position(|n| n == l)?;
        if v[i] != 9 {
            return None;
        }
        v[i] = *x;
    }
    Some(v)
}

pub struct TmpDir(pub String);

impl TmpDir {
    pub fn new(tag: &str) -> TmpDir {
        let d = format!("{}/.build/tmp-{}-{}", VERIF_DIR, tag, std::process::id());
        let _ = std::fs::remove_dir_all(&d);
        if std::fs::create_dir_all(&d).is_err() {
            machinery_error("cannot create a scratch directory under /verif/.build");
        }
        TmpDir(d)
    }
}

impl Drop for TmpDir {
    fn drop(&mut self) {
        let _ = std::fs::remove_dir_all(&self.0);
    }
}
