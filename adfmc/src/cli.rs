//! Helpers to drive the CLI binary built from the working tree and to read its output.
#![allow(dead_code)]

use crate::oracle::*;
use crate::report::*;
use std::process::Command;

pub struct CliOut {
    pub code: Option<i32>,
    pub stdout: String,
    pub stderr: String,
}

pub fn cli_path() -> String {
    std::env::var("ADF_BDD_CLI").unwrap_or_else(|_| machinery_error("ADF_BDD_CLI is not set (the run script builds the CLI and sets it)"))
}

pub fn run_cli(cli: &str, args: &[String]) -> CliOut {
    let o = Command::new(cli)
        .args(args)
        .env_remove("RUST_LOG")
        .env("RUST_BACKTRACE", "0")
        .output()
        .unwrap_or_else(|e| machinery_error(&format!("cannot run the CLI binary: {}", e)));
    CliOut {
        code: o.status.code(),
        stdout: String::from_utf8_lossy(&o.stdout).to_string(),
        stderr: String::from_utf8_lossy(&o.stderr).to_string(),
    }
}

pub fn run_cli_env(cli: &str, args: &[String], env: &[(&str, &str)]) -> CliOut {
    let mut c = Command::new(cli);
    c.args(args).env_remove("RUST_LOG").env("RUST_BACKTRACE", "0");
    for (k, v) in env {
        c.env(k, v);
    }
    let o = c.output().unwrap_or_else(|e| machinery_error(&format!("cannot run the CLI binary: {}", e)));
    CliOut { code: o.status.code(), stdout: String::from_utf8_lossy(&o.stdout).to_string(), stderr: String::from_utf8_lossy(&o.stderr).to_string() }
}

/// one printed interpretation: (label, value) in printed order; None if the line is not an interpretation line
pub fn parse_line(line: &str) -> Option<Vec<(String, u8)>> {
    // format: `T(a) F(b) u(c) ` - labels may contain blanks and brackets, so split on the pattern ") " followed by
    // one of T( F( u( or end of line
    let mut out = vec![];
    let mut rest = line;
    loop {
        if rest.is_empty() {
            break;
        }
        let val = match &rest.get(..2)? {
            &"T(" => T,
            &"F(" => F,
            &"u(" => U,
            _ => return None,
        };
        rest = &rest[2..];
        // find the end of this entry: ") " followed by a new entry or the end
        let mut end = None;
        let bytes = rest.as_bytes();
        let mut i = 0;
        while i + 1 < bytes.len() {
            if bytes[i] == b')' && bytes[i + 1] == b' ' {
                let after = &rest[i + 2..];
                if after.is_empty() || after.starts_with("T(") || after.starts_with("F(") || after.starts_with("u(") {
                    end = Some(i);
                    break;
                }
            }
            i += 1;
        }
        let e = end?;
        out.push((rest[..e].to_string(), val));
        rest = &rest[e + 2..];
    }
    if out.is_empty() {
        None
    } else {
        Some(out)
    }
}

/// all stdout lines as interpretations; Err(line) for the first line that is none
pub fn parse_stdout(stdout: &str) -> Result<Vec<Vec<(String, u8)>>, String> {
    let mut v = vec![];
    for l in stdout.lines() {
        match parse_line(l) {
            Some(x) => v.push(x),
            None => return Err(l.to_string()),
        }
    }
    Ok(v)
}

/// maps a printed interpretation to the vector in declaration order `names`; None if the labels are not exactly the
/// declared ones
pub fn to_interp(line: &[(String, u8)], names: &[String]) -> Option<Interp> {
    if line.len() != names.len() {
        return None;
    }
    let mut v = vec![9u8; names.len()];
    for (l, x) in line {
        let i = names.iter().position(|n| n == l)?;
        if v[i] != 9 {
            return None;
        }
        v[i] = *x;
    }
    Some(v)
}

pub struct TmpDir(pub String);

impl TmpDir {
    pub fn new(tag: &str) -> TmpDir {
        let d = format!("{}/.build/tmp-{}-{}", VERIF_DIR, tag, std::process::id());
        let _ = std::fs::remove_dir_all(&d);
        if std::fs::create_dir_all(&d).is_err() {
            machinery_error("cannot create a scratch directory under /verif/.build");
        }
        TmpDir(d)
    }
}

impl Drop for TmpDir {
    fn drop(&mut self) {
        let _ = std::fs::remove_dir_all(&self.0);
    }
}
