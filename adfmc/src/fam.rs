//! Input families (all enumerated completely when named) and the writers that turn a truth table into input text.
#![allow(dead_code)]

use crate::oracle::*;

#[derive(Clone)]
pub struct Family {
    pub name: String,
    pub n: usize,
    /// domain of the per-statement functions
    pub funcs: Vec<TT>,
    /// only indices `first + step * k` are members (used for the residue classes of A(3))
    pub first: u64,
    pub step: u64,
}

impl Family {
    pub fn raw_size(&self) -> u64 {
        (self.funcs.len() as u64).pow(self.n as u32)
    }
    pub fn size(&self) -> u64 {
        let raw = self.raw_size();
        if self.first >= raw {
            0
        } else {
            (raw - self.first + self.step - 1) / self.step
        }
    }
    /// k-th member
    pub fn get(&self, k: u64) -> Vec<TT> {
        let mut idx = self.first + self.step * k;
        let nf = self.funcs.len() as u64;
        let mut tts = Vec::with_capacity(self.n);
        for _ in 0..self.n {
            tts.push(self.funcs[(idx % nf) as usize]);
            idx /= nf;
        }
        tts
    }
    pub fn raw_index(&self, k: u64) -> u64 {
        self.first + self.step * k
    }
}

/// A(n): all n-tuples of Boolean functions over n statements
pub fn fam_a(n: usize) -> Family {
    Family {
        name: format!("A({})", n),
        n,
        funcs: (0..=full(n)).collect(),
        first: 0,
        step: 1,
    }
}

/// F(n,k): tuples whose functions each depend on at most k statements
pub fn fam_f(n: usize, k: usize) -> Family {
    let funcs: Vec<TT> = (0..=full(n) as u64)
        .map(|t| t as TT)
        .filter(|tt| support(*tt, n).len() <= k)
        .collect();
    Family {
        name: format!("F({},{})", n, k),
        n,
        funcs,
        first: 0,
        step: 1,
    }
}

/// S_j: residue class j of A(3) modulo 64
pub fn fam_s(j: u64) -> Family {
    let mut f = fam_a(3);
    f.name = format!("S_{}", j % 64);
    f.first = j % 64;
    f.step = 64;
    f
}

pub fn names(n: usize) -> Vec<String> {
    (0..n)
        .map(|i| format!("{}", (b'a' + i as u8) as char))
        .collect()
}

pub const WRITERS: usize = 6;
pub const WRITER_NAMES: [&str; WRITERS] = ["dnf", "cnf", "anf", "imp", "iffor", "shannon"];

fn fold_bin(op: usize, mut items: Vec<Fm>, empty: Fm) -> Fm {
    if items.is_empty() {
        return empty;
    }
    let mut f = items.pop().unwrap();
    while let Some(t) = items.pop() {
        f = Fm::bin(op, t, f);
    }
    f
}

fn dnf(tt: TT, n: usize) -> Fm {
    let tt = tt & full(n);
    if tt == 0 {
        return Fm::Bot;
    }
    if tt == full(n) {
        return Fm::Top;
    }
    let mut terms = vec![];
    for a in 0..(1u32 << n) {
        if eval(tt, a) {
            let lits: Vec<Fm> = (0..n)
                .map(|i| {
                    if a >> i & 1 == 1 {
                        Fm::Atom(i)
                    } else {
                        Fm::not(Fm::Atom(i))
                    }
                })
                .collect();
            terms.push(fold_bin(0, lits, Fm::Top));
        }
    }
    fold_bin(1, terms, Fm::Bot)
}

fn cnf(tt: TT, n: usize) -> Fm {
    let tt = tt & full(n);
    if tt == 0 {
        return Fm::Bot;
    }
    if tt == full(n) {
        return Fm::Top;
    }
    let mut clauses = vec![];
    for a in 0..(1u32 << n) {
        if !eval(tt, a) {
            let lits: Vec<Fm> = (0..n)
                .map(|i| {
                    if a >> i & 1 == 1 {
                        Fm::not(Fm::Atom(i))
                    } else {
                        Fm::Atom(i)
                    }
                })
                .collect();
            clauses.push(fold_bin(1, lits, Fm::Bot));
        }
    }
    fold_bin(0, clauses, Fm::Top)
}

/// algebraic normal form: xor of monomials, the constant monomial written c(v)
fn anf(tt: TT, n: usize) -> Fm {
    // Moebius transform
    let rows = 1usize << n;
    let mut c: Vec<bool> = (0..rows).map(|a| eval(tt, a as u32)).collect();
    for i in 0..n {
        for a in 0..rows {
            if a >> i & 1 == 1 {
                c[a] ^= c[a ^ (1 << i)];
            }
        }
    }
    let mut monos = vec![];
    for a in 0..rows {
        if c[a] {
            let vars: Vec<Fm> = (0..n).filter(|i| a >> i & 1 == 1).map(Fm::Atom).collect();
            monos.push(fold_bin(0, vars, Fm::Top));
        }
    }
    fold_bin(4, monos, Fm::Bot)
}

/// rewrite into implication and falsum only
fn imp_only(f: &Fm) -> Fm {
    let neg = |x: Fm| Fm::bin(2, x, Fm::Bot);
    match f {
        Fm::Top => Fm::bin(2, Fm::Bot, Fm::Bot),
        Fm::Bot => Fm::Bot,
        Fm::Atom(i) => Fm::Atom(*i),
        Fm::Not(x) => neg(imp_only(x)),
        Fm::And(x, y) => neg(Fm::bin(2, imp_only(x), neg(imp_only(y)))),
        Fm::Or(x, y) => Fm::bin(2, neg(imp_only(x)), imp_only(y)),
        Fm::Imp(x, y) => Fm::bin(2, imp_only(x), imp_only(y)),
        _ => unreachable!("writers only produce and/or/neg before this rewriting"),
    }
}

/// rewrite into iff / or / neg: conjunction by De Morgan, negative literals as iff(x, c(f))
fn iff_or(f: &Fm) -> Fm {
    match f {
        Fm::Top => Fm::Top,
        Fm::Bot => Fm::Bot,
        Fm::Atom(i) => Fm::Atom(*i),
        Fm::Not(x) => match **x {
            Fm::Atom(i) => Fm::bin(3, Fm::Atom(i), Fm::Bot),
            _ => Fm::not(iff_or(x)),
        },
        Fm::And(x, y) => Fm::not(Fm::bin(1, Fm::not(iff_or(x)), Fm::not(iff_or(y)))),
        Fm::Or(x, y) => Fm::bin(1, iff_or(x), iff_or(y)),
        _ => unreachable!(),
    }
}

/// nested Shannon expansion written as if-then-else with and/or/neg, constants at the leaves
fn shannon(tt: TT, n: usize, from: usize) -> Fm {
    let tt = tt & full(n);
    if from == n || support(tt, n).iter().all(|i| *i < from) {
        return if eval(tt, 0) { Fm::Top } else { Fm::Bot };
    }
    if !depends(tt, n, from) {
        return shannon(tt, n, from + 1);
    }
    let hi = shannon(cofactor(tt, n, from, true), n, from + 1);
    let lo = shannon(cofactor(tt, n, from, false), n, from + 1);
    Fm::bin(
        1,
        Fm::bin(0, Fm::Atom(from), hi),
        Fm::bin(0, Fm::not(Fm::Atom(from)), lo),
    )
}

/// formula denoting truth table `tt` over n variables, written by writer `w`
pub fn write_fm(tt: TT, n: usize, w: usize) -> Fm {
    match w % WRITERS {
        0 => dnf(tt, n),
        1 => cnf(tt, n),
        2 => anf(tt, n),
        3 => imp_only(&dnf(tt, n)),
        4 => iff_or(&cnf(tt, n)),
        _ => shannon(tt, n, 0),
    }
}

/// self check of the writers (machinery, not subject): every writer denotes the table it was given
pub fn writers_selfcheck() {
    for n in 1..=3usize {
        for tt in 0..=full(n) {
            for w in 0..WRITERS {
                let f = write_fm(tt, n, w);
                assert_eq!(f.tt(n), tt, "writer {} wrong on tt {} n {}", w, tt, n);
            }
        }
    }
    for tt in (0..=full(4)).step_by(97) {
        for w in 0..WRITERS {
            assert_eq!(write_fm(tt, 4, w).tt(4), tt);
        }
    }
}

/// the writer tuple used for member `idx` of a big family: a fixed function of the index, so that all
/// combinations of writers occur
pub fn writer_for(idx: u64, stmt: usize) -> usize {
    ((idx / (WRITERS as u64).pow(stmt as u32)) % WRITERS as u64) as usize
}

/// the plain text of an ADF: all statements first, then all conditions
pub fn adf_text_fm(fms: &[Fm], nm: &[String]) -> String {
    let mut text = String::new();
    for s in nm.iter().take(fms.len()) {
        text += &format!("s({}).", s);
    }
    for (s, f) in fms.iter().enumerate() {
        text += &format!("ac({},{}).", nm[s], f.text(nm, ("", "")));
    }
    text
}

pub fn adf_fms(tts: &[TT], widx: u64) -> Vec<Fm> {
    let n = tts.len();
    tts.iter()
        .enumerate()
        .map(|(s, tt)| write_fm(*tt, n, writer_for(widx, s)))
        .collect()
}

pub fn adf_text(tts: &[TT], widx: u64) -> String {
    adf_text_fm(&adf_fms(tts, widx), &names(tts.len()))
}


/// Feeds a generated text to a parser. The ADF without statements has no text (the parser rejects empty input): it is
/// the ADF made from a parser that has parsed nothing.
pub fn parse_into<'a>(parser: &'a adf_bdd::parser::AdfParser<'a>, text: &'a str) -> bool {
    text.is_empty() || parser.parse()(text).is_ok()
}
