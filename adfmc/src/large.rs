//! L: deterministic generator of large ADFs (12 / 24 / 48 statements; ladder, tree and wide shapes; connectives
//! cycled; every condition mentions at most 10 statements), and the definitional three-valued machinery for them
//! (validity decided by enumeration over the small support of each condition).
#![allow(dead_code)]

use crate::oracle::*;
use std::collections::BTreeSet;

pub struct LargeAdf {
    pub labels: Vec<String>,  // label proper, declaration order
    pub written: Vec<String>, // spelling in the file
    pub conds: Vec<Fm>,       // atoms = declaration index
    pub shape: &'static str,
}

struct Lcg(u64);
impl Lcg {
    fn next(&mut self) -> u64 {
        self.0 = self.0.wrapping_mul(6364136223846793005).wrapping_add(1442695040888963407);
        self.0 >> 33
    }
    fn below(&mut self, n: usize) -> usize {
        (self.next() % n as u64) as usize
    }
}

fn tree(rng: &mut Lcg, depth: usize, window: &[usize], opc: &mut usize) -> Fm {
    if depth == 0 {
        return match rng.below(12) {
            0 => Fm::Top,
            1 => Fm::Bot,
            _ => Fm::Atom(window[rng.below(window.len())]),
        };
    }
    *opc += 1;
    if *opc % 7 == 0 {
        return Fm::not(tree(rng, depth - 1, window, opc));
    }
    let op = *opc % 5;
    let left = tree(rng, depth - 1, window, opc);
    let rdepth = depth.saturating_sub(1 + rng.below(2));
    Fm::bin(op, left, tree(rng, rdepth, window, opc))
}

pub fn label_scheme(scheme: usize, i: usize) -> (String, String) {
    match scheme {
        0 => (format!("s{}", i), format!("s{}", i)),
        // chosen to reorder under both sortings: a10 < a9 bytewise but 9 < 10 naturally; upper case before lower case
        1 => {
            let l = match i % 4 {
                0 => format!("a{}", 30 - (i as i64 % 23)),
                1 => format!("B{}", i),
                2 => format!("{}", 100 - i),
                _ => format!("z{}x", i),
            };
            (l.clone(), l)
        }
        _ => {
            let l = format!("st {} x.{},y", i, i % 3);
            (format!("\"{}\"", l), l)
        }
    }
}

pub fn large(idx: u64) -> LargeAdf {
    let n = [12usize, 24, 48][(idx % 3) as usize];
    let shape = (idx / 3 % 3) as usize;
    let scheme = (idx / 9 % 3) as usize;
    let mut rng = Lcg(0x9E3779B97F4A7C15u64.wrapping_mul(idx + 1));
    let mut labels = vec![];
    let mut written = vec![];
    for i in 0..n {
        let (w, l) = label_scheme(scheme, i);
        // make labels unique whatever the scheme produced
        let l = if labels.contains(&l) { format!("{}u{}", l, i) } else { l };
        let w = if w.starts_with('"') { format!("\"{}\"", l) } else { l.clone() };
        labels.push(l);
        written.push(w);
    }
    let mut conds = vec![];
    let mut opc = idx as usize;
    for i in 0..n {
        // window of at most 10 statements around i
        let wsize = 2 + rng.below(9);
        let start = (i + n - rng.below(4)) % n;
        let window: Vec<usize> = (0..wsize).map(|k| (start + k * (1 + (idx as usize % 3))) % n).collect::<BTreeSet<_>>().into_iter().collect();
        let f = match (shape, rng.below(10)) {
            (_, 0) => Fm::Top,
            (_, 1) => Fm::Bot,
            // ladder: each statement looks at its predecessor and two successors
            (0, _) => {
                opc += 1;
                let p = Fm::Atom((i + n - 1) % n);
                let q = Fm::Atom((i + 1) % n);
                let r = Fm::Atom((i + 2) % n);
                Fm::bin(opc % 5, if opc % 3 == 0 { Fm::not(p) } else { p }, Fm::bin((opc / 5) % 5, q, r))
            }
            // tree of depth 5-8 over the window
            (1, _) => {
                let d = 5 + rng.below(4);
                tree(&mut rng, d, &window, &mut opc)
            }
            // wide: a long conjunction / disjunction / xor of literals
            _ => {
                opc += 1;
                let lits: Vec<Fm> = window.iter().map(|v| if rng.below(3) == 0 { Fm::not(Fm::Atom(*v)) } else { Fm::Atom(*v) }).collect();
                let op = [0, 1, 4, 3][opc % 4];
                let mut it = lits.into_iter();
                let mut f = it.next().unwrap();
                for l in it {
                    f = Fm::bin(op, f, l);
                }
                f
            }
        };
        conds.push(f);
    }
    LargeAdf { labels, written, conds, shape: ["ladder", "tree", "wide"][shape] }
}

impl LargeAdf {
    /// facts in the order given by `perm` over the 2n facts (s facts are 0..n, ac facts n..2n)
    pub fn text(&self, perm: Option<&[usize]>, ws: (&str, &str, &str)) -> String {
        let n = self.labels.len();
        let order: Vec<usize> = match perm {
            Some(p) => p.to_vec(),
            None => (0..2 * n).collect(),
        };
        let mut t = String::new();
        for k in order {
            if k < n {
                t += &format!("s({}).{}", self.written[k], ws.0);
            } else {
                let i = k - n;
                t += &format!("ac({}{},{}{}).{}", self.written[i], ws.1, ws.2, self.conds[i].text(&self.written, (ws.1, ws.2)), ws.0);
            }
        }
        t
    }

    pub fn supports(&self) -> Vec<Vec<usize>> {
        self.conds
            .iter()
            .map(|c| {
                let mut s = BTreeSet::new();
                c.atoms(&mut s);
                s.into_iter().collect()
            })
            .collect()
    }

    /// Gamma for large ADFs: validity by enumeration of each condition's support
    pub fn gamma(&self, v: &[u8]) -> Vec<u8> {
        let sup = self.supports();
        let mut res = vec![U; v.len()];
        for (s, c) in self.conds.iter().enumerate() {
            let free: Vec<usize> = sup[s].iter().copied().filter(|x| v[*x] == U).collect();
            let (mut anyt, mut anyf) = (false, false);
            for a in 0..(1u64 << free.len()) {
                let val = c.eval_with(&|x| {
                    if v[x] != U {
                        v[x] == T
                    } else {
                        free.iter().position(|f| *f == x).map(|p| a >> p & 1 == 1).unwrap_or(false)
                    }
                });
                if val {
                    anyt = true
                } else {
                    anyf = true
                }
                if anyt && anyf {
                    break;
                }
            }
            res[s] = if anyt && !anyf {
                T
            } else if anyf && !anyt {
                F
            } else {
                U
            };
        }
        res
    }

    pub fn grounded(&self) -> Vec<u8> {
        let mut v = vec![U; self.labels.len()];
        loop {
            let w = self.gamma(&v);
            if w == v {
                return v;
            }
            v = w;
        }
    }
}
