//! adfmc - bounded exhaustive exploration of the real adf-obdd code against definitional oracles.
//!
//! usage: adfmc check <ID> [--tier quick|thorough] [--seed N]
//!        adfmc replay <file>

mod adfcalls;
mod bddx;
mod c05;
mod c06_07;
mod c08;
mod c09;
mod c10;
mod c11;
mod c12;
mod c13;
mod c14;
mod c15;
mod cli;
mod c18;
#[cfg(feature = "frontend")]
mod c19;
mod c20;
mod fam;
mod large;
mod mid;
mod oracle;
mod refbdd;
mod report;
mod sem;
mod src_adf;
mod store;

use report::*;


pub fn replay_dispatch(prop: &str, case: &serde_json::Value) -> Vec<(String, String)> {
    // cases recorded in a "with trace logging" section are replayed with the discarding TRACE logger installed
    if case["trace_logging"].as_bool().unwrap_or(false) && !matches!(prop, "C01" | "C02" | "C03" | "C04" | "C20") {
        let mut c2 = case.clone();
        c2["trace_logging"] = serde_json::json!(false);
        trace_logging(true);
        let mut r = replay_dispatch(prop, &c2);
        trace_logging(false);
        for f in r.iter_mut() {
            f.0 = format!("trace-logging:{}", f.0);
        }
        return r;
    }
    match prop {
        "C01" | "C02" | "C03" | "C04" => sem::replay_sem(prop, case),
        "C05" => c05::replay(case),
        "C06" | "C07" => c06_07::replay(prop, case),
        "C08" => c08::replay(case),
        "C09" => c09::replay(case),
        "C10" => c10::replay(case),
        "C11" => c11::replay(case),
        "C13" => c13::replay(case),
        "C14" => c14::replay(case),
        "C15" => c15::replay(case),
        "C18" => c18::replay(case),
        #[cfg(feature = "frontend")]
        "C19" => c19::replay(case),
        "C20" => c20::replay(case),
        "C12" => c12::replay(case),
        _ => machinery_error("replay: unknown property"),
    }
}

fn arg_after(args: &[String], key: &str) -> Option<String> {
    args.iter().position(|a| a == key).and_then(|i| args.get(i + 1).cloned())
}

fn main() {
    let args: Vec<String> = std::env::args().collect();
    if args.len() < 2 || (args.len() < 3 && args[1] != "featdigest") {
        machinery_error("usage: adfmc check <ID> [--tier quick|thorough] [--seed N] | adfmc replay <file>");
    }
    silence_panics();
    match args[1].as_str() {
        "check" => {
            let id = args[2].clone();
            let tier = match arg_after(&args, "--tier")
                .or_else(|| std::env::var("VERIF_TIER").ok())
                .as_deref()
            {
                Some("thorough") => Tier::Thorough,
                _ => Tier::Quick,
            };
            let seed: u64 = arg_after(&args, "--seed")
                .or_else(|| std::env::var("VERIF_SEED").ok())
                .and_then(|s| s.parse::<i64>().ok())
                .map(|s| s.unsigned_abs())
                .unwrap_or(0);
            let run = Run::new(&id, tier, seed);
            match id.as_str() {
                "C01" | "C02" | "C03" | "C04" => sem::run_sem(&run),
                "C05" => c05::run_c05(&run),
                "C06" => c06_07::run_c06(&run),
                "C07" => c06_07::run_c07(&run),
                "C08" => c08::run_c08(&run),
                "C09" => c09::run_c09(&run),
                "C10" => c10::run_c10(&run),
                "C11" => c11::run_c11(&run),
                "C12" => c12::run_c12(&run),
                "C13" => c13::run_c13(&run),
                "C14" => c14::run_c14(&run),
                "C15" => c15::run_c15(&run),
                "C18" => c18::run_c18(&run),
                #[cfg(feature = "frontend")]
                "C19" => c19::run_c19(&run),
                "C20" => c20::run_c20(&run),
                _ => machinery_error("unknown property id"),
            }
            run.finish();
        }
        "featdigest" => {
            let tier = if arg_after(&args, "--tier").as_deref() == Some("thorough") { Tier::Thorough } else { Tier::Quick };
            let seed: u64 = arg_after(&args, "--seed").and_then(|s| s.parse().ok()).unwrap_or(0);
            c12::featdigest(tier, seed);
        }
        "dump-sparse" => {
            // debugging aid: prints a member of the sparse family and what the oracle says about it
            let l = mid::sparse(args[2].parse().unwrap_or(0));
            let o = mid::Oracle::from_formulas(&l);
            let und: Vec<usize> = (0..o.n).filter(|i| o.grounded[*i] == 2).collect();
            eprintln!("statements {} undecided in grounded {:?} complete {} two-valued {} stable {}", o.n, und, o.complete.len(), o.two.len(), o.stable.len());
            println!("{}", l.text(None, ("\n", "", "")));
        }
        "case" => isolated_child(&args[2], replay_dispatch),
        "replay" => {
            let text = std::fs::read_to_string(&args[2]).unwrap_or_else(|_| machinery_error("cannot read replay file"));
            let rec: serde_json::Value = serde_json::from_str(&text).unwrap_or_else(|_| machinery_error("replay file is not JSON"));
            let prop = rec["property"].as_str().unwrap_or("").to_string();
            let case = &rec["case"];
            let once = |_: usize| -> Vec<(String, String)> { replay_dispatch(&prop, case) };
            let a = once(0);
            let b = once(1);
            if a != b {
                println!("REPLAY-NONDETERMINISTIC: two executions of the stored case differ:\n  {:?}\n  {:?}", a, b);
                std::process::exit(2);
            }
            if a.is_empty() {
                println!("REPLAY property={} verdict=holds (the stored case no longer violates the property)", prop);
                std::process::exit(0);
            }
            for (k, m) in &a {
                println!("REPLAY property={} verdict=violation kind={} {}", prop, k, m);
            }
            std::process::exit(1);
        }
        _ => machinery_error("unknown sub-command"),
    }
}
