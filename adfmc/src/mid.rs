//! Mid-size ADFs (6-8 statements) in complete topological families, with the definitional oracle computed from the
//! formulas (validity by enumeration of each condition's small support), so that the semantics checks are not limited
//! to truth tables of <= 5 statements.
//!
//! R(n): ring ADFs - statement i's condition is one of RING_OPS applied to its neighbours (i-1, i+1); all |RING_OPS|^n
//! assignments of operators are members. The oracle is still brute force: all 3^n interpretations for complete models,
//! all 2^n for two-valued / stable models.
#![allow(dead_code)]

use crate::large::LargeAdf;
use crate::oracle::*;
use std::collections::BTreeSet;

pub const RING_OPS: usize = 10;

/// the condition of statement i in a ring of n statements under operator choice `op`
pub fn ring_cond(op: usize, i: usize, n: usize) -> Fm {
    let p = Fm::Atom((i + n - 1) % n);
    let q = Fm::Atom((i + 1) % n);
    match op % RING_OPS {
        0 => Fm::Top,
        1 => Fm::Bot,
        2 => Fm::bin(0, p, q),
        3 => Fm::bin(1, p, q),
        4 => Fm::bin(4, p, q),
        5 => Fm::bin(2, p, q),
        6 => Fm::bin(0, Fm::not(p), q),
        7 => Fm::not(Fm::bin(1, p, q)),
        8 => Fm::not(p),
        _ => q,
    }
}

pub const TERN_OPS: usize = 12;

/// T3(n): statement i's condition is a ternary operator over (itself, i+1, i+2) - self-referential conditions with two
/// further parents
pub fn tern_cond(op: usize, i: usize, n: usize) -> Fm {
    let a = || Fm::Atom(i);
    let b = || Fm::Atom((i + 1) % n);
    let c = || Fm::Atom((i + 2) % n);
    match op % TERN_OPS {
        0 => Fm::bin(1, Fm::bin(0, a(), b()), Fm::bin(0, Fm::not(a()), c())),          // if a then b else c
        1 => Fm::bin(0, b(), Fm::bin(1, Fm::not(a()), c())),                          // b & (!a | c)
        2 => Fm::bin(1, Fm::bin(0, a(), b()), Fm::bin(1, Fm::bin(0, a(), c()), Fm::bin(0, b(), c()))), // majority
        3 => Fm::bin(0, a(), Fm::bin(0, b(), c())),
        4 => Fm::bin(1, a(), Fm::bin(1, b(), c())),
        5 => Fm::bin(4, a(), Fm::bin(4, b(), c())),
        6 => Fm::bin(1, Fm::bin(0, a(), b()), c()),
        7 => Fm::bin(0, a(), Fm::bin(1, b(), Fm::not(c()))),
        8 => Fm::bin(0, Fm::not(a()), Fm::bin(1, b(), c())),
        9 => Fm::bin(0, Fm::bin(2, a(), b()), c()),
        10 => Fm::bin(0, b(), Fm::not(c())),
        _ => Fm::not(b()),
    }
}

pub fn tern_size(n: usize) -> u64 {
    (TERN_OPS as u64).pow(n as u32)
}

pub fn tern(n: usize, mut idx: u64) -> Vec<Fm> {
    let mut conds = vec![];
    for i in 0..n {
        conds.push(tern_cond((idx % TERN_OPS as u64) as usize, i, n));
        idx /= TERN_OPS as u64;
    }
    conds
}

pub fn ring_size(n: usize) -> u64 {
    (RING_OPS as u64).pow(n as u32)
}

/// member `idx` of R(n)
pub fn ring(n: usize, mut idx: u64) -> LargeAdf {
    let labels: Vec<String> = (0..n).map(|i| format!("r{}", i)).collect();
    let mut conds = vec![];
    for i in 0..n {
        conds.push(ring_cond((idx % RING_OPS as u64) as usize, i, n));
        idx /= RING_OPS as u64;
    }
    LargeAdf { written: labels.clone(), labels, conds, shape: "ring" }
}

/// k self-supporting statements (2^k two-valued models, one stable model) and one statement that follows two of them:
/// an input with MANY models (more than any buffer of 256 holds for k = 9)
pub fn selfsup(k: usize) -> LargeAdf {
    let mut labels: Vec<String> = (0..k).map(|i| format!("m{}", i)).collect();
    let mut conds: Vec<Fm> = (0..k).map(Fm::Atom).collect();
    labels.push("z".into());
    conds.push(Fm::bin(1, Fm::Atom(0), Fm::not(Fm::Atom(k - 1))));
    LargeAdf { written: labels.clone(), labels, conds, shape: "self-supporting" }
}

pub const LADDER_SIZES: [usize; 10] = [63, 64, 65, 66, 127, 128, 129, 255, 256, 257];

/// ladders with EXACTLY n statements (highest variable index n - 1): statement i follows from statements i+1 and i+2 by
/// or-not / and / xor in turn, so the grounded propagation needs one round per statement and substitutes the highest
/// positions first. Variant 0: the last statement is a fact, everything is decided. Variant 1: the last two statements
/// attack each other (an open pair at the two highest positions), the ladder below hangs off a fact at position n - 3,
/// and statement 0 also depends on the last statement (three open statements, two stable models).
pub fn ladder(n: usize, variant: u64) -> LargeAdf {
    let labels: Vec<String> = (0..n).map(|i| format!("l{:03}", i)).collect();
    let top = if variant == 0 { n } else { n - 2 }; // the ladder proper occupies 0..top
    let mut conds: Vec<Fm> = vec![];
    for i in 0..n {
        conds.push(if i >= top {
            Fm::not(Fm::Atom(if i == n - 1 { n - 2 } else { n - 1 }))
        } else if i == top - 1 {
            Fm::Top
        } else if i == top - 2 {
            Fm::not(Fm::Atom(top - 1))
        } else {
            let f = match i % 3 {
                0 => Fm::bin(1, Fm::Atom(i + 1), Fm::not(Fm::Atom(i + 2))),
                1 => Fm::bin(0, Fm::Atom(i + 1), Fm::Atom(i + 2)),
                _ => Fm::bin(4, Fm::Atom(i + 1), Fm::Atom(i + 2)),
            };
            if i == 0 && variant != 0 {
                Fm::bin(4, f, Fm::Atom(n - 1))
            } else {
                f
            }
        });
    }
    LargeAdf { written: labels.clone(), labels, conds, shape: "ladder" }
}

/// the semantics of an ADF given by formulas, from the definitions
pub struct Oracle {
    pub n: usize,
    pub grounded: Interp,
    pub rounds: usize,
    pub complete: BTreeSet<Interp>,
    pub two: BTreeSet<Interp>,
    pub stable: BTreeSet<Interp>,
}

impl Oracle {
    pub fn from_tts(tts: &[TT]) -> Oracle {
        let n = tts.len();
        let mut v = vec![U; n];
        let mut rounds = 0;
        loop {
            let w = gamma(tts, &v);
            if w == v {
                break;
            }
            v = w;
            rounds += 1;
        }
        Oracle { n, grounded: v, rounds, complete: complete(tts), two: models2(tts), stable: stable(tts) }
    }

    /// brute force with Gamma computed from the formulas. Complete, two-valued and stable models all refine the grounded
    /// interpretation (a two-valued model is a total fixpoint of Gamma), so only the positions the grounded
    /// interpretation leaves undecided are enumerated: 3^u resp. 2^u candidates (u <= 10), for any number of statements.
    pub fn from_formulas(l: &LargeAdf) -> Oracle {
        let n = l.labels.len();
        let mut v = vec![U; n];
        let mut rounds = 0;
        loop {
            let w = l.gamma(&v);
            if w == v {
                break;
            }
            v = w;
            rounds += 1;
        }
        let grounded = v;
        let und: Vec<usize> = (0..n).filter(|i| grounded[*i] == U).collect();
        let u = und.len();
        assert!(u <= 10, "the brute-force oracle needs <= 10 statements left undecided by the grounded interpretation");
        let mut complete = BTreeSet::new();
        for k in 0..3usize.pow(u as u32) {
            let mut k = k;
            let mut c = grounded.clone();
            for p in &und {
                c[*p] = (k % 3) as u8;
                k /= 3;
            }
            if l.gamma(&c) == c {
                complete.insert(c);
            }
        }
        let sup = l.supports();
        let mut two = BTreeSet::new();
        let mut stable = BTreeSet::new();
        for a in 0..(1u32 << u) {
            let mut m = grounded.clone();
            for (j, p) in und.iter().enumerate() {
                m[*p] = (a >> j & 1) as u8;
            }
            let _ = &sup;
            if (0..n).all(|s| l.conds[s].eval_with(&|x| m[x] == T) == (m[s] == T)) {
                // reduct: false statements replaced by falsum, then the least fixpoint
                let red = LargeAdf {
                    labels: l.labels.clone(),
                    written: l.written.clone(),
                    conds: l.conds.iter().map(|c| subst_false(c, &m)).collect(),
                    shape: l.shape,
                };
                let g = red.grounded();
                if (0..n).all(|s| m[s] != T || g[s] == T) {
                    stable.insert(m.clone());
                }
                two.insert(m);
            }
        }
        Oracle { n, grounded, rounds, complete, two, stable }
    }
}

/// SP: large sparse ADFs - a long decided backbone (chains from constants) and a ring of 7 / 6 / 5 open statements placed at the
/// highest positions, whose conditions also mention decided statements. Sizes cross 64 and 255.
pub fn sparse(idx: u64) -> LargeAdf {
    let n = [70usize, 130, 270][(idx % 3) as usize];
    // fewer open statements in the larger members (the library's enumeration cost grows with both)
    let open = [7usize, 6, 5][(idx % 3) as usize];
    let back = n - open;
    let pad = |i: usize| format!("t{:03}", i);
    // every second instance numbers the statements downwards, so that lexicographic sorting reverses the order
    let down = (idx / 3) % 2 == 1;
    let labels: Vec<String> = (0..n).map(|i| if down { pad(n - 1 - i) } else { pad(i) }).collect();
    let mut conds = vec![];
    for i in 0..back {
        conds.push(match i {
            0 => Fm::Top,
            1 => Fm::Bot,
            _ => match (i + idx as usize) % 4 {
                0 => Fm::not(Fm::Atom(i - 1)),
                1 => Fm::bin(1, Fm::Atom(i - 1), Fm::Atom(i - 2)),
                2 => Fm::bin(0, Fm::Atom(i - 1), Fm::not(Fm::Atom(i - 2))),
                _ => Fm::bin(4, Fm::Atom(i - 1), Fm::Atom(i - 2)),
            },
        });
    }
    // values of the backbone (every statement there depends on its two predecessors only)
    let mut val: Vec<bool> = vec![];
    for c in &conds {
        let v = c.eval_with(&|x| val[x]);
        val.push(v);
    }
    // operators of the open ring: spread over all combinations (small indices must not mean constant conditions); only
    // the first ring statement may have a constant operator, so that most members keep an open part and some are
    // decided step by step
    let mut ri = crate::report::hash64(&(idx / 6).to_le_bytes());
    for j in 0..open {
        let op = if j == 0 { (ri % RING_OPS as u64) as usize } else { 2 + (ri % (RING_OPS as u64 - 2)) as usize };
        ri /= RING_OPS as u64;
        let c = ring_cond(op, j, open);
        // shift the ring's atoms to the high positions and tie every condition to two decided statements in a way that
        // is neutral under their values (so the open part keeps the semantics of the ring)
        let c = shift_atoms(&c, back);
        let (p1, p2) = ((j * 9 + 3) % back, (j * 5 + 40) % back);
        let (d1, d2) = (Fm::Atom(p1), Fm::Atom(p2));
        let t1 = if val[p1] { Fm::bin(0, c, d1) } else { Fm::bin(1, c, d1) };
        conds.push(match j % 3 {
            0 => if val[p2] { Fm::bin(3, t1, d2) } else { Fm::bin(4, t1, d2) },
            1 => if val[p2] { Fm::bin(2, d2, t1) } else { Fm::bin(1, d2, t1) },
            _ => Fm::bin(4, t1, Fm::bin(0, d2.clone(), Fm::not(d2))),
        });
    }
    LargeAdf { written: labels.clone(), labels, conds, shape: "sparse" }
}

fn shift_atoms(f: &Fm, by: usize) -> Fm {
    let b = |x: &Fm| Box::new(shift_atoms(x, by));
    match f {
        Fm::Top => Fm::Top,
        Fm::Bot => Fm::Bot,
        Fm::Atom(i) => Fm::Atom(*i + by),
        Fm::Not(x) => Fm::Not(b(x)),
        Fm::And(x, y) => Fm::And(b(x), b(y)),
        Fm::Or(x, y) => Fm::Or(b(x), b(y)),
        Fm::Imp(x, y) => Fm::Imp(b(x), b(y)),
        Fm::Iff(x, y) => Fm::Iff(b(x), b(y)),
        Fm::Xor(x, y) => Fm::Xor(b(x), b(y)),
    }
}

/// the formula with every statement that is false in m replaced by falsum
fn subst_false(f: &Fm, m: &[u8]) -> Fm {
    let b = |x: &Fm| Box::new(subst_false(x, m));
    match f {
        Fm::Top => Fm::Top,
        Fm::Bot => Fm::Bot,
        Fm::Atom(i) => {
            if m[*i] == F {
                Fm::Bot
            } else {
                Fm::Atom(*i)
            }
        }
        Fm::Not(x) => Fm::Not(b(x)),
        Fm::And(x, y) => Fm::And(b(x), b(y)),
        Fm::Or(x, y) => Fm::Or(b(x), b(y)),
        Fm::Imp(x, y) => Fm::Imp(b(x), b(y)),
        Fm::Iff(x, y) => Fm::Iff(b(x), b(y)),
        Fm::Xor(x, y) => Fm::Xor(b(x), b(y)),
    }
}

/// self check (machinery): on small ADFs the formula oracle and the truth-table oracle agree
pub fn selfcheck() {
    for idx in (0..ring_size(4)).step_by(37) {
        let l = ring(4, idx);
        let tts: Vec<TT> = l.conds.iter().map(|c| c.tt(4)).collect();
        let a = Oracle::from_tts(&tts);
        let b = Oracle::from_formulas(&l);
        assert!(a.grounded == b.grounded && a.complete == b.complete && a.two == b.two && a.stable == b.stable, "oracle self check failed on ring {}", idx);
    }
}
