//! Reference model ("oracle"): ADF semantics written from the definitions, on truth tables.
//!
//! Nothing in here shares code or data structures with the library under test.
//! A Boolean function over n <= 5 statements is a truth table in a `u32`:
//! bit `a` of the table is the value under assignment `a`, statement `i` is true in `a` iff bit `i` of `a` is set.
//! Three-valued interpretations are `Vec<u8>` with 0 = false, 1 = true, 2 = undecided.
#![allow(dead_code)]

use std::collections::BTreeSet;

pub type TT = u32;
pub type Interp = Vec<u8>;

pub const F: u8 = 0;
pub const T: u8 = 1;
pub const U: u8 = 2;

/// mask of the valid bits of a truth table over n variables
pub fn full(n: usize) -> TT {
    let rows = 1u32 << n;
    if rows == 32 {
        u32::MAX
    } else {
        (1u32 << rows) - 1
    }
}

pub fn eval(tt: TT, a: u32) -> bool {
    tt >> a & 1 == 1
}

/// truth table of the projection onto variable i
pub fn var_tt(n: usize, i: usize) -> TT {
    let mut r = 0;
    for a in 0..(1u32 << n) {
        if a >> i & 1 == 1 {
            r |= 1 << a;
        }
    }
    r
}

/// cofactor: the function with variable i fixed to val (still a function over n variables)
pub fn cofactor(tt: TT, n: usize, i: usize, val: bool) -> TT {
    let mut r = 0;
    for a in 0..(1u32 << n) {
        let b = if val { a | (1 << i) } else { a & !(1 << i) };
        if eval(tt, b) {
            r |= 1 << a;
        }
    }
    r
}

pub fn depends(tt: TT, n: usize, i: usize) -> bool {
    (0..(1u32 << n)).any(|a| eval(tt, a) != eval(tt, a ^ (1 << i)))
}

pub fn support(tt: TT, n: usize) -> Vec<usize> {
    (0..n).filter(|i| depends(tt, n, *i)).collect()
}

pub fn ite(n: usize, i: TT, t: TT, e: TT) -> TT {
    ((i & t) | (!i & e)) & full(n)
}

/// does total assignment a extend the three-valued interpretation v?
pub fn extends(v: &[u8], a: u32) -> bool {
    v.iter()
        .enumerate()
        .all(|(i, x)| *x == U || (*x == T) == (a >> i & 1 == 1))
}

/// three-valued consequence operator Gamma
pub fn gamma(tts: &[TT], v: &[u8]) -> Interp {
    let n = tts.len();
    let mut res = vec![U; n];
    for s in 0..n {
        let (mut anyt, mut anyf) = (false, false);
        for a in 0..(1u32 << n) {
            if extends(v, a) {
                if eval(tts[s], a) {
                    anyt = true
                } else {
                    anyf = true
                }
            }
        }
        res[s] = if anyt && !anyf {
            T
        } else if anyf && !anyt {
            F
        } else {
            U
        };
    }
    res
}

/// least fixpoint of Gamma from the all-undecided interpretation
pub fn grounded(tts: &[TT]) -> Interp {
    let mut v = vec![U; tts.len()];
    loop {
        let w = gamma(tts, &v);
        if w == v {
            return v;
        }
        v = w;
    }
}

pub fn all3(n: usize) -> Vec<Interp> {
    let mut out = vec![];
    for k in 0..3usize.pow(n as u32) {
        let mut k = k;
        let mut v = vec![];
        for _ in 0..n {
            v.push((k % 3) as u8);
            k /= 3;
        }
        out.push(v);
    }
    out
}

pub fn complete(tts: &[TT]) -> BTreeSet<Interp> {
    all3(tts.len())
        .into_iter()
        .filter(|v| &gamma(tts, v) == v)
        .collect()
}

pub fn models2(tts: &[TT]) -> BTreeSet<Interp> {
    let n = tts.len();
    (0..(1u32 << n))
        .filter(|a| (0..n).all(|s| eval(tts[s], *a) == (a >> s & 1 == 1)))
        .map(|a| (0..n).map(|i| (a >> i & 1) as u8).collect())
        .collect()
}

/// reduct of the ADF with respect to the two-valued interpretation v: false statements replaced by falsum
pub fn reduct(tts: &[TT], v: &[u8]) -> Vec<TT> {
    let n = tts.len();
    let mask: u32 = (0..n).filter(|i| v[*i] == T).map(|i| 1u32 << i).sum();
    tts.iter()
        .map(|tt| {
            let mut r = 0u32;
            for a in 0..(1u32 << n) {
                if eval(*tt, a & mask) {
                    r |= 1 << a
                }
            }
            r
        })
        .collect()
}

pub fn stable(tts: &[TT]) -> BTreeSet<Interp> {
    let n = tts.len();
    models2(tts)
        .into_iter()
        .filter(|v| {
            let g = grounded(&reduct(tts, v));
            (0..n).all(|s| v[s] != T || g[s] == T)
        })
        .collect()
}

// ---------------------------------------------------------------------------------------------
// formulas (for "every syntactic way of writing")

#[derive(Debug, Clone, PartialEq, Eq, Hash, PartialOrd, Ord)]
pub enum Fm {
    Top,
    Bot,
    Atom(usize),
    Not(Box<Fm>),
    And(Box<Fm>, Box<Fm>),
    Or(Box<Fm>, Box<Fm>),
    Imp(Box<Fm>, Box<Fm>),
    Iff(Box<Fm>, Box<Fm>),
    Xor(Box<Fm>, Box<Fm>),
}

impl Fm {
    pub fn not(a: Fm) -> Fm {
        Fm::Not(Box::new(a))
    }
    pub fn bin(op: usize, a: Fm, b: Fm) -> Fm {
        let (a, b) = (Box::new(a), Box::new(b));
        match op {
            0 => Fm::And(a, b),
            1 => Fm::Or(a, b),
            2 => Fm::Imp(a, b),
            3 => Fm::Iff(a, b),
            _ => Fm::Xor(a, b),
        }
    }
    /// value under assignment a, given as a closure so that supports larger than 5 can be used (C09)
    pub fn eval_with(&self, val: &dyn Fn(usize) -> bool) -> bool {
        match self {
            Fm::Top => true,
            Fm::Bot => false,
            Fm::Atom(i) => val(*i),
            Fm::Not(x) => !x.eval_with(val),
            Fm::And(x, y) => x.eval_with(val) && y.eval_with(val),
            Fm::Or(x, y) => x.eval_with(val) || y.eval_with(val),
            Fm::Imp(x, y) => !x.eval_with(val) || y.eval_with(val),
            Fm::Iff(x, y) => x.eval_with(val) == y.eval_with(val),
            Fm::Xor(x, y) => x.eval_with(val) != y.eval_with(val),
        }
    }
    pub fn eval(&self, a: u32) -> bool {
        self.eval_with(&|i| a >> i & 1 == 1)
    }
    pub fn tt(&self, n: usize) -> TT {
        let mut r = 0;
        for a in 0..(1u32 << n) {
            if self.eval(a) {
                r |= 1 << a;
            }
        }
        r
    }
    pub fn atoms(&self, out: &mut BTreeSet<usize>) {
        match self {
            Fm::Top | Fm::Bot => {}
            Fm::Atom(i) => {
                out.insert(*i);
            }
            Fm::Not(x) => x.atoms(out),
            Fm::And(x, y) | Fm::Or(x, y) | Fm::Imp(x, y) | Fm::Iff(x, y) | Fm::Xor(x, y) => {
                x.atoms(out);
                y.atoms(out);
            }
        }
    }
    pub fn size(&self) -> usize {
        match self {
            Fm::Top | Fm::Bot | Fm::Atom(_) => 1,
            Fm::Not(x) => 1 + x.size(),
            Fm::And(x, y) | Fm::Or(x, y) | Fm::Imp(x, y) | Fm::Iff(x, y) | Fm::Xor(x, y) => {
                1 + x.size() + y.size()
            }
        }
    }
    /// text in the documented input syntax; `sep` is put around the commas of binary connectives
    pub fn text(&self, names: &[String], sep: (&str, &str)) -> String {
        match self {
            Fm::Top => "c(v)".into(),
            Fm::Bot => "c(f)".into(),
            Fm::Atom(i) => names[*i].clone(),
            Fm::Not(x) => format!("neg({})", x.text(names, sep)),
            Fm::And(x, y) => Self::bt("and", x, y, names, sep),
            Fm::Or(x, y) => Self::bt("or", x, y, names, sep),
            Fm::Imp(x, y) => Self::bt("imp", x, y, names, sep),
            Fm::Iff(x, y) => Self::bt("iff", x, y, names, sep),
            Fm::Xor(x, y) => Self::bt("xor", x, y, names, sep),
        }
    }
    fn bt(op: &str, x: &Fm, y: &Fm, names: &[String], sep: (&str, &str)) -> String {
        format!(
            "{}({}{},{}{})",
            op,
            x.text(names, sep),
            sep.0,
            sep.1,
            y.text(names, sep)
        )
    }
}

/// all formulas of depth <= d over the two constants, `atoms` atoms, neg and the five binary connectives
pub fn formulas_depth(atoms: usize, d: usize) -> Vec<Fm> {
    let mut level: Vec<Fm> = vec![Fm::Top, Fm::Bot];
    for i in 0..atoms {
        level.push(Fm::Atom(i));
    }
    for _ in 0..d {
        let mut next = level.clone();
        // formulas of exactly the next depth need at least one argument of the previous maximal depth;
        // for simplicity all combinations are produced and duplicates removed by the set
        let mut set: BTreeSet<Fm> = level.iter().cloned().collect();
        for x in &level {
            let f = Fm::not(x.clone());
            if set.insert(f.clone()) {
                next.push(f);
            }
        }
        for x in &level {
            for y in &level {
                for op in 0..5 {
                    let f = Fm::bin(op, x.clone(), y.clone());
                    if set.insert(f.clone()) {
                        next.push(f);
                    }
                }
            }
        }
        level = next;
    }
    level
}

/// all formulas with at most `max` AST nodes
pub fn formulas_size(atoms: usize, max: usize) -> Vec<Fm> {
    let mut by: Vec<Vec<Fm>> = vec![vec![]; max + 1];
    if max >= 1 {
        by[1].push(Fm::Top);
        by[1].push(Fm::Bot);
        for i in 0..atoms {
            by[1].push(Fm::Atom(i));
        }
    }
    for s in 2..=max {
        let mut cur = vec![];
        for x in &by[s - 1] {
            cur.push(Fm::not(x.clone()));
        }
        for ls in 1..s - 1 {
            let rs = s - 1 - ls;
            if rs < 1 {
                continue;
            }
            for x in &by[ls] {
                for y in &by[rs] {
                    for op in 0..5 {
                        cur.push(Fm::bin(op, x.clone(), y.clone()));
                    }
                }
            }
        }
        by[s] = cur;
    }
    by.into_iter().flatten().collect()
}

pub fn interp_str(v: &[u8]) -> String {
    v.iter()
        .map(|x| match *x {
            F => 'F',
            T => 'T',
            _ => 'u',
        })
        .collect()
}
