//! An independent, deliberately plain reduced ordered BDD (hash-consed nodes, memoised apply) used as the reference
//! for diagrams that are too large for truth tables, and the isomorphism check against the library's node table.
//! It shares nothing with the library under test.
#![allow(dead_code)]

use crate::oracle::Fm;
use adf_bdd::datatypes::{BddNode, Term};
use std::collections::HashMap;

pub struct RefBdd {
    /// (var, lo, hi); 0 = false, 1 = true
    pub nodes: Vec<(usize, usize, usize)>,
    unique: HashMap<(usize, usize, usize), usize>,
    memo: HashMap<(u8, usize, usize), usize>,
}

impl Default for RefBdd {
    fn default() -> Self {
        Self::new()
    }
}

impl RefBdd {
    pub fn new() -> RefBdd {
        RefBdd { nodes: vec![(usize::MAX, 0, 0), (usize::MAX, 1, 1)], unique: HashMap::new(), memo: HashMap::new() }
    }
    fn mk(&mut self, v: usize, lo: usize, hi: usize) -> usize {
        if lo == hi {
            return lo;
        }
        if let Some(x) = self.unique.get(&(v, lo, hi)) {
            return *x;
        }
        self.nodes.push((v, lo, hi));
        self.unique.insert((v, lo, hi), self.nodes.len() - 1);
        self.nodes.len() - 1
    }
    pub fn var(&mut self, v: usize) -> usize {
        self.mk(v, 0, 1)
    }
    fn top_var(&self, x: usize) -> usize {
        if x < 2 {
            usize::MAX
        } else {
            self.nodes[x].0
        }
    }
    fn cof(&self, x: usize, v: usize, val: bool) -> usize {
        if x < 2 || self.nodes[x].0 != v {
            x
        } else if val {
            self.nodes[x].2
        } else {
            self.nodes[x].1
        }
    }
    /// op: 0 and, 1 or, 2 imp, 3 iff, 4 xor
    pub fn apply(&mut self, op: u8, a: usize, b: usize) -> usize {
        if a < 2 && b < 2 {
            let (x, y) = (a == 1, b == 1);
            return match op {
                0 => x && y,
                1 => x || y,
                2 => !x || y,
                3 => x == y,
                _ => x != y,
            } as usize;
        }
        if let Some(r) = self.memo.get(&(op, a, b)) {
            return *r;
        }
        let v = self.top_var(a).min(self.top_var(b));
        let lo = {
            let (x, y) = (self.cof(a, v, false), self.cof(b, v, false));
            self.apply(op, x, y)
        };
        let hi = {
            let (x, y) = (self.cof(a, v, true), self.cof(b, v, true));
            self.apply(op, x, y)
        };
        let r = self.mk(v, lo, hi);
        self.memo.insert((op, a, b), r);
        r
    }
    pub fn not(&mut self, a: usize) -> usize {
        self.apply(4, a, 1)
    }
    /// restriction of variable v to val
    pub fn restrict(&mut self, a: usize, v: usize, val: bool) -> usize {
        let mut memo = HashMap::new();
        self.restrict_rec(a, v, val, &mut memo)
    }
    fn restrict_rec(&mut self, a: usize, v: usize, val: bool, memo: &mut HashMap<usize, usize>) -> usize {
        if a < 2 || self.nodes[a].0 > v {
            return a;
        }
        if let Some(r) = memo.get(&a) {
            return *r;
        }
        let (nv, lo, hi) = self.nodes[a];
        let r = if nv == v {
            if val {
                hi
            } else {
                lo
            }
        } else {
            let l = self.restrict_rec(lo, v, val, memo);
            let h = self.restrict_rec(hi, v, val, memo);
            self.mk(nv, l, h)
        };
        memo.insert(a, r);
        r
    }
    /// compiles a formula; `var_of` maps an atom to its variable index in the order under test
    pub fn compile(&mut self, f: &Fm, var_of: &dyn Fn(usize) -> usize) -> usize {
        match f {
            Fm::Top => 1,
            Fm::Bot => 0,
            Fm::Atom(i) => self.var(var_of(*i)),
            Fm::Not(x) => {
                let a = self.compile(x, var_of);
                self.not(a)
            }
            Fm::And(x, y) | Fm::Or(x, y) | Fm::Imp(x, y) | Fm::Iff(x, y) | Fm::Xor(x, y) => {
                let a = self.compile(x, var_of);
                let b = self.compile(y, var_of);
                let op = match f {
                    Fm::And(..) => 0,
                    Fm::Or(..) => 1,
                    Fm::Imp(..) => 2,
                    Fm::Iff(..) => 3,
                    _ => 4,
                };
                self.apply(op, a, b)
            }
        }
    }
    pub fn size_from(&self, root: usize) -> usize {
        let mut seen = std::collections::HashSet::new();
        let mut todo = vec![root];
        while let Some(x) = todo.pop() {
            if x < 2 || !seen.insert(x) {
                continue;
            }
            todo.push(self.nodes[x].1);
            todo.push(self.nodes[x].2);
        }
        seen.len()
    }
}

/// do the library handle `h` (in the public node table) and the reference node `r` denote the same function?
/// Both are reduced and ordered over the same variable order, so this is an isomorphism check by simultaneous
/// traversal with memoisation; it is exact (no sampling) and linear in the size of the diagrams.
pub fn same_function(nodes: &[BddNode], h: Term, rb: &RefBdd, r: usize) -> Result<(), String> {
    let mut memo: HashMap<(usize, usize), ()> = HashMap::new();
    let mut todo = vec![(h.value(), r)];
    while let Some((x, y)) = todo.pop() {
        if memo.contains_key(&(x, y)) {
            continue;
        }
        memo.insert((x, y), ());
        if x >= nodes.len() {
            return Err(format!("handle {} outside the node table", x));
        }
        if x < 2 || y < 2 {
            if x != y {
                return Err(format!("library node {} corresponds to reference leaf/node {} - the functions differ", x, y));
            }
            continue;
        }
        let nd = nodes[x];
        let (rv, rlo, rhi) = rb.nodes[y];
        if nd.var().value() != rv {
            return Err(format!("library node {} tests variable {}, the reference diagram tests {} at the corresponding place", x, nd.var().value(), rv));
        }
        todo.push((nd.lo().value(), rlo));
        todo.push((nd.hi().value(), rhi));
    }
    Ok(())
}
