//! Run context: tiers, budgets, parallel enumeration with a watchdog, violations, known findings, evidence.
#![allow(dead_code)]

use serde_json::{json, Value};
use std::collections::BTreeSet;
use std::sync::atomic::{AtomicBool, AtomicU64, Ordering};
use std::sync::Mutex;
use std::time::Instant;

pub const VERIF_DIR: &str = "/verif";

/// where evidence and replay files are written: /verif, unless a background run from a snapshot redirects it
pub fn out_dir() -> String {
    std::env::var("VERIF_OUT_DIR").unwrap_or_else(|_| VERIF_DIR.to_string())
}

#[derive(Clone, Copy, PartialEq, Eq, Debug)]
pub enum Tier {
    Quick,
    Thorough,
}

#[derive(Clone, Debug)]
pub struct Violation {
    pub kind: String,
    pub msg: String,
    /// replayable description of the case
    pub case: Value,
}

#[derive(Clone, Debug, Default)]
pub struct FamilyCov {
    pub name: String,
    pub size: u64,
    pub done: u64,
    pub exhaustive: bool,
    pub note: String,
}

#[derive(Default)]
pub struct Coverage {
    pub states: u64,
    pub transitions: u64,
    pub evaluations: u64,
    pub nontrivial: u64,
    pub rule: String,
    pub samples: Vec<Value>,
    pub families: Vec<FamilyCov>,
    pub outcomes: BTreeSet<u64>,
    pub extra: serde_json::Map<String, Value>,
    pub assumptions: Vec<String>,
}

pub struct Run {
    pub prop: String,
    pub tier: Tier,
    pub seed: u64,
    pub budget_s: u64,
    pub threads: usize,
    pub start: Instant,
    viols: Mutex<Vec<Violation>>,
    viol_count: AtomicU64,
    pub cov: Mutex<Coverage>,
    pub capped: AtomicBool,
    /// when set, nothing is written and the process does not exit in `finish` (used by replay)
    pub replay_mode: bool,
    /// watchdog slots: (index of the case a worker is executing, time it last showed progress, kernel id of the worker)
    slots: Vec<(AtomicU64, AtomicU64, AtomicU64)>,
}

thread_local! {
    static SLOT: std::cell::Cell<usize> = const { std::cell::Cell::new(usize::MAX) };
}

/// kernel thread id of the calling thread (0 if it cannot be determined)
fn own_tid() -> u64 {
    std::fs::read_link("/proc/thread-self").ok().and_then(|p| p.file_name().and_then(|n| n.to_str().and_then(|s| s.parse().ok()))).unwrap_or(0)
}

/// processor time (user + system, seconds) a thread of this process has consumed; None if it cannot be read
fn thread_cpu_s(tid: u64) -> Option<f64> {
    if tid == 0 {
        return None;
    }
    let text = std::fs::read_to_string(format!("/proc/self/task/{}/stat", tid)).ok()?;
    // fields after the command name (which may contain blanks and brackets): state is #3, utime #14, stime #15
    let rest = &text[text.rfind(')')? + 1..];
    let f: Vec<&str> = rest.split_whitespace().collect();
    let ut: f64 = f.get(11)?.parse().ok()?;
    let st: f64 = f.get(12)?.parse().ok()?;
    Some((ut + st) / 100.0)
}

pub fn machinery_error(msg: &str) -> ! {
    println!("MACHINERY-ERROR {}", msg);
    std::process::exit(2);
}

pub fn silence_panics() {
    if std::env::var("VERIF_SHOW_PANICS").is_ok() {
        return;
    }
    std::panic::set_hook(Box::new(|_| {}));
}

/// runs f, turning a panic into Err(message)
pub fn guard<T>(f: impl FnOnce() -> T) -> Result<T, String> {
    match std::panic::catch_unwind(std::panic::AssertUnwindSafe(f)) {
        Ok(v) => Ok(v),
        Err(e) => Err(if let Some(s) = e.downcast_ref::<&str>() {
            s.to_string()
        } else if let Some(s) = e.downcast_ref::<String>() {
            s.clone()
        } else {
            "panic with non-string payload".to_string()
        }),
    }
}


/// Runs one stored case in a child process (this executable, sub-command `case`; the case travels on stdin, the
/// verdicts come back on one stdout line). A case that kills the process that executes it - stack overflow, abort on an
/// absurd allocation - thereby becomes a verdict about that case instead of a crash of the engine. The child executes
/// the case on a thread with the default stack of spawned Rust threads (2 MiB), as the in-process workers do.
pub fn isolated(prop: &str, case: &Value) -> Vec<(String, String)> {
    use std::io::Write;
    use std::os::unix::process::ExitStatusExt;
    use std::process::{Command, Stdio};
    let exe = std::env::current_exe().unwrap_or_else(|_| machinery_error("cannot locate the engine executable"));
    let mut child = Command::new(exe)
        .args(["case", prop])
        .stdin(Stdio::piped())
        .stdout(Stdio::piped())
        .stderr(Stdio::piped())
        .spawn()
        .unwrap_or_else(|_| machinery_error("cannot start a child engine"));
    {
        let mut stdin = child.stdin.take().unwrap();
        let _ = stdin.write_all(case.to_string().as_bytes());
    }
    let out = child.wait_with_output().unwrap_or_else(|_| machinery_error("cannot wait for a child engine"));
    let stdout = String::from_utf8_lossy(&out.stdout).to_string();
    let stderr = String::from_utf8_lossy(&out.stderr).to_string();
    if out.status.success() {
        for l in stdout.lines() {
            if let Some(j) = l.strip_prefix("CASE-RESULT ") {
                if let Ok(v) = serde_json::from_str::<Vec<(String, String)>>(j) {
                    return v;
                }
            }
        }
        machinery_error("a child engine ended without a result line");
    }
    match out.status.signal() {
        // the process was ended by its own fault handling: a verdict about the code under test
        Some(sig @ (4 | 6 | 7 | 8 | 11)) => {
            let tail: String = stderr.lines().rev().take(3).collect::<Vec<_>>().into_iter().rev().collect::<Vec<_>>().join(" | ");
            vec![("crash".into(), format!("the process executing this case was ended by signal {} ({})", sig, if tail.is_empty() { "no message".into() } else { tail }))]
        }
        _ => machinery_error(&format!("a child engine ended with {:?}: {}", out.status, stderr.lines().last().unwrap_or(""))),
    }
}

/// the child side of `isolated`
pub fn isolated_child(prop: &str, dispatch: fn(&str, &Value) -> Vec<(String, String)>) -> ! {
    let mut text = String::new();
    use std::io::Read;
    let _ = std::io::stdin().read_to_string(&mut text);
    let case: Value = serde_json::from_str(&text).unwrap_or_else(|_| machinery_error("case: stdin is not JSON"));
    // a child that hangs ends itself after the parent's watchdog has fired
    std::thread::spawn(|| {
        std::thread::sleep(std::time::Duration::from_secs(150));
        std::process::exit(3);
    });
    let prop = prop.to_string();
    let h = std::thread::Builder::new().stack_size(2 << 20).spawn(move || dispatch(&prop, &case)).unwrap();
    match h.join() {
        Ok(v) => {
            println!("CASE-RESULT {}", serde_json::to_string(&v).unwrap());
            std::process::exit(0);
        }
        Err(_) => machinery_error("case: panic outside a guarded region"),
    }
}

/// A logger that accepts every record, formats it (as a real logger would) and throws it away. It is installed once;
/// `trace_logging(true)` raises the global level to TRACE, so that every log statement of the library is executed and
/// its arguments are evaluated - what is computed must not depend on whether somebody listens.
struct DiscardLogger;

impl log::Log for DiscardLogger {
    fn enabled(&self, _: &log::Metadata) -> bool {
        true
    }
    fn log(&self, record: &log::Record) {
        struct Sink(u64);
        impl std::fmt::Write for Sink {
            fn write_str(&mut self, s: &str) -> std::fmt::Result {
                self.0 = self.0.wrapping_add(s.len() as u64);
                Ok(())
            }
        }
        let mut s = Sink(0);
        let _ = std::fmt::write(&mut s, *record.args());
    }
    fn flush(&self) {}
}

static DISCARD_LOGGER: DiscardLogger = DiscardLogger;

/// process-wide: callers run their "with trace logging" sections after everything else, one at a time
pub fn trace_logging(on: bool) {
    let _ = log::set_logger(&DISCARD_LOGGER);
    log::set_max_level(if on { log::LevelFilter::Trace } else { log::LevelFilter::Off });
}

pub fn hash64(data: &[u8]) -> u64 {
    // FNV-1a, deterministic across runs (no RandomState)
    let mut h: u64 = 0xcbf29ce484222325;
    for b in data {
        h ^= *b as u64;
        h = h.wrapping_mul(0x100000001b3);
    }
    h
}

impl Run {
    pub fn new(prop: &str, tier: Tier, seed: u64) -> Run {
        let budget_s = std::env::var("VERIF_BUDGET_S")
            .ok()
            .and_then(|s| s.parse().ok())
            .unwrap_or(match tier {
                Tier::Quick => 120,
                Tier::Thorough => 1200,
            });
        let threads = std::env::var("VERIF_THREADS")
            .ok()
            .and_then(|s| s.parse().ok())
            .unwrap_or_else(|| {
                std::thread::available_parallelism()
                    .map(|n| n.get())
                    .unwrap_or(4)
                    .min(16)
            });
        Run {
            prop: prop.to_string(),
            tier,
            seed,
            budget_s,
            threads,
            start: Instant::now(),
            viols: Mutex::new(vec![]),
            viol_count: AtomicU64::new(0),
            cov: Mutex::new(Coverage::default()),
            capped: AtomicBool::new(false),
            replay_mode: false,
            slots: (0..64).map(|_| (AtomicU64::new(u64::MAX), AtomicU64::new(0), AtomicU64::new(0))).collect(),
        }
    }

    /// long-running cases (nested explorations) call this to tell the watchdog that they make progress
    pub fn heartbeat(&self) {
        let slot = SLOT.with(|s| s.get());
        if slot < self.slots.len() {
            self.slots[slot].1.store(self.start.elapsed().as_millis() as u64, Ordering::SeqCst);
        }
    }

    pub fn quick(&self) -> bool {
        self.tier == Tier::Quick
    }

    pub fn out_of_time(&self) -> bool {
        self.start.elapsed().as_secs() >= self.budget_s
    }

    pub fn violation(&self, kind: &str, msg: String, case: Value) {
        let n = self.viol_count.fetch_add(1, Ordering::SeqCst);
        if n < 2000 {
            self.viols.lock().unwrap().push(Violation {
                kind: kind.to_string(),
                msg,
                case,
            });
        }
    }


    /// executes a stored case in a child process (see `isolated`) and records what it reports
    pub fn isolated_case(&self, case: Value, what: &str) {
        self.heartbeat();
        for (kind, msg) in isolated(&self.prop, &case) {
            self.violation(&kind, format!("{} ({})", msg, what), case.clone());
        }
        self.heartbeat();
    }

    /// removes and returns the stored violations (used when a run is only a collector)
    pub fn take_violations(&self) -> Vec<Violation> {
        std::mem::take(&mut *self.viols.lock().unwrap())
    }

    pub fn violations_so_far(&self) -> u64 {
        self.viol_count.load(Ordering::SeqCst)
    }

    pub fn add_family(&self, f: FamilyCov) {
        if !f.exhaustive {
            self.capped.store(true, Ordering::SeqCst);
        }
        self.cov.lock().unwrap().families.push(f);
    }

    pub fn sample(&self, v: Value) {
        let mut c = self.cov.lock().unwrap();
        if c.samples.len() < 12 {
            c.samples.push(v);
        }
    }

    pub fn add_counts(&self, states: u64, transitions: u64, evaluations: u64, nontrivial: u64) {
        let mut c = self.cov.lock().unwrap();
        c.states += states;
        c.transitions += transitions;
        c.evaluations += evaluations;
        c.nontrivial += nontrivial;
    }

    pub fn add_outcomes(&self, o: impl IntoIterator<Item = u64>) {
        let mut c = self.cov.lock().unwrap();
        for x in o {
            if c.outcomes.len() < 5_000_000 {
                c.outcomes.insert(x);
            }
        }
    }

    pub fn set_rule(&self, rule: &str) {
        self.cov.lock().unwrap().rule = rule.to_string();
    }

    pub fn extra(&self, key: &str, v: Value) {
        self.cov.lock().unwrap().extra.insert(key.to_string(), v);
    }

    pub fn assume(&self, a: &str) {
        self.cov.lock().unwrap().assumptions.push(a.to_string());
    }

    /// Enumerates 0..total on all worker threads. Work is handed out in index order in chunks, so when the
    /// time budget strikes the set of completed indices is a prefix [0, done). Each worker owns a state S
    /// (statistics), all of which are returned. A watchdog turns a case that does not return within
    /// `watchdog_s` seconds into a violation (non-termination) and ends the process.
    pub fn par_for<S, I, F>(
        &self,
        name: &str,
        total: u64,
        init: I,
        f: F,
        describe: &(dyn Fn(u64) -> Value + Sync),
    ) -> (Vec<S>, u64)
    where
        S: Send,
        I: Fn() -> S + Sync,
        F: Fn(&mut S, u64) + Sync,
    {
        let threads = self.threads.clamp(1, 64);
        let chunk = (total / (threads as u64 * 16)).clamp(1, 4096);
        let next = AtomicU64::new(0);
        let stop = AtomicBool::new(false);
        let finished = AtomicU64::new(0);
        let cur = &self.slots;
        for c in cur.iter() {
            c.0.store(u64::MAX, Ordering::SeqCst);
        }
        let watchdog_s: u64 = std::env::var("VERIF_WATCHDOG_S")
            .ok()
            .and_then(|s| s.parse().ok())
            .unwrap_or(90);
        let t0 = self.start;
        let mut results = vec![];
        std::thread::scope(|sc| {
            let mut hs = vec![];
            for t in 0..threads {
                let (next, stop, f, init, finished) = (&next, &stop, &f, &init, &finished);
                hs.push(sc.spawn(move || {
                    // counts the worker as finished also when it dies of a panic outside a guarded region
                    struct Done<'a>(&'a AtomicU64);
                    impl Drop for Done<'_> {
                        fn drop(&mut self) {
                            self.0.fetch_add(1, Ordering::SeqCst);
                        }
                    }
                    let _done = Done(finished);
                    SLOT.with(|s| s.set(t));
                    cur[t].2.store(own_tid(), Ordering::SeqCst);
                    let mut s = init();
                    loop {
                        if stop.load(Ordering::SeqCst) {
                            break;
                        }
                        let lo = next.fetch_add(chunk, Ordering::SeqCst);
                        if lo >= total {
                            break;
                        }
                        let hi = (lo + chunk).min(total);
                        for i in lo..hi {
                            cur[t].1.store(t0.elapsed().as_millis() as u64, Ordering::SeqCst);
                            cur[t].0.store(i, Ordering::SeqCst);
                            f(&mut s, i);
                        }
                        cur[t].0.store(u64::MAX, Ordering::SeqCst);
                    }
                    s
                }));
            }
            // monitor
            let mut seen: Vec<(u64, u64, f64)> = vec![(u64::MAX, 0, 0.0); threads];
            loop {
                std::thread::sleep(std::time::Duration::from_millis(100));
                if finished.load(Ordering::SeqCst) as usize == threads {
                    break;
                }
                if self.out_of_time() {
                    stop.store(true, Ordering::SeqCst);
                }
                let now = t0.elapsed().as_millis() as u64;
                for t in 0..threads {
                    let i = cur[t].0.load(Ordering::SeqCst);
                    let since = cur[t].1.load(Ordering::SeqCst);
                    if i == u64::MAX {
                        seen[t] = (u64::MAX, 0, 0.0);
                        continue;
                    }
                    // The limit is on the processor time the worker has spent on the case, not on wall time: on a busy
                    // machine a legitimate case can take many times longer than on an idle one, and that must never be
                    // read as non-termination. A case that does not use the processor (blocked for good) is caught by
                    // a wall limit of five times the watchdog time; cases that wait for a child process have their own,
                    // shorter deadlines.
                    let cpu = thread_cpu_s(cur[t].2.load(Ordering::SeqCst));
                    if seen[t].0 != i || seen[t].1 != since {
                        seen[t] = (i, since, cpu.unwrap_or(0.0));
                        continue;
                    }
                    let spent = cpu.map(|c| c - seen[t].2);
                    let hung = match spent {
                        Some(sp) => sp > watchdog_s as f64 || (now > since && now - since > 5 * watchdog_s * 1000),
                        None => now > since && now - since > 5 * watchdog_s * 1000,
                    };
                    if hung {
                        // re-read to make sure the same case is still running
                        if cur[t].0.load(Ordering::SeqCst) == i
                            && cur[t].1.load(Ordering::SeqCst) == since
                        {
                            self.violation(
                                "nontermination-watchdog",
                                format!(
                                    "case {} of {} did not return within {} s of processor time ({} s after it began)",
                                    i, name, watchdog_s, (now - since) / 1000
                                ),
                                describe(i),
                            );
                            self.add_family(FamilyCov {
                                name: name.to_string(),
                                size: total,
                                done: next.load(Ordering::SeqCst).min(total),
                                exhaustive: false,
                                note: "aborted by watchdog".into(),
                            });
                            self.finish();
                        }
                    }
                }
            }
            for h in hs {
                match h.join() {
                    Ok(s) => results.push(s),
                    Err(_) => machinery_error("worker thread panicked outside a guarded region"),
                }
            }
        });
        let done = next.load(Ordering::SeqCst).min(total);
        let done = if stop.load(Ordering::SeqCst) { done } else { total };
        (results, done)
    }

    /// par_for + family bookkeeping
    pub fn par_family<S, I, F>(
        &self,
        name: &str,
        total: u64,
        init: I,
        f: F,
        describe: &(dyn Fn(u64) -> Value + Sync),
    ) -> Vec<S>
    where
        S: Send,
        I: Fn() -> S + Sync,
        F: Fn(&mut S, u64) + Sync,
    {
        if self.out_of_time() {
            self.add_family(FamilyCov {
                name: name.to_string(),
                size: total,
                done: 0,
                exhaustive: false,
                note: "not started: time budget used up".into(),
            });
            return vec![];
        }
        let t_fam = Instant::now();
        let (r, done) = self.par_for(name, total, init, f, describe);
        self.add_family(FamilyCov {
            name: name.to_string(),
            size: total,
            done,
            exhaustive: done == total,
            note: if done == total {
                format!("{:.1}s", t_fam.elapsed().as_secs_f64())
            } else {
                format!("cut short by the time budget of {} s: indices [0,{}) completed", self.budget_s, done)
            },
        });
        r
    }

    /// writes evidence, prints the verdict lines and ends the process
    pub fn finish(&self) -> ! {
        let wall = self.start.elapsed().as_secs_f64();
        let viols = self.viols.lock().unwrap().clone();
        let total_viol = self.viol_count.load(Ordering::SeqCst);
        let known = load_known(&self.prop);
        let mut known_hits: Vec<(String, String, u64)> = vec![]; // id, what, count
        let mut unknown: Vec<Violation> = vec![];
        for v in &viols {
            if let Some(k) = known.iter().find(|k| k.matches(v)) {
                if let Some(e) = known_hits.iter_mut().find(|e| e.0 == k.id) {
                    e.2 += 1;
                } else {
                    known_hits.push((k.id.clone(), k.what.clone(), 1));
                }
            } else {
                unknown.push(v.clone());
            }
        }
        // order: one violation per distinct kind first, so that the stored replays cover all kinds
        {
            let mut seen = BTreeSet::new();
            let (mut firsts, mut rest): (Vec<Violation>, Vec<Violation>) = (vec![], vec![]);
            for v in unknown.drain(..) {
                if seen.insert(v.kind.clone()) {
                    firsts.push(v)
                } else {
                    rest.push(v)
                }
            }
            firsts.extend(rest);
            unknown = firsts;
        }
        // if more violations occurred than were stored, the surplus cannot be classified: treat as unknown
        let unstored = total_viol - viols.len() as u64;
        let mut replay_paths = vec![];
        if !self.replay_mode {
            let dir = format!("{}/replays/{}", out_dir(), self.prop);
            let _ = std::fs::create_dir_all(&dir);
            // remove stale replays of earlier runs
            if let Ok(rd) = std::fs::read_dir(&dir) {
                for e in rd.flatten() {
                    let _ = std::fs::remove_file(e.path());
                }
            }
            for (i, v) in unknown.iter().take(12).enumerate() {
                let p = format!("{}/{}.json", dir, i);
                let rec = json!({"property": self.prop, "kind": v.kind, "message": v.msg, "case": v.case});
                let _ = std::fs::write(&p, serde_json::to_string_pretty(&rec).unwrap());
                replay_paths.push(p);
            }
        }
        let cov = self.cov.lock().unwrap();
        let exhaustive = cov.families.iter().all(|f| f.exhaustive) && !cov.families.is_empty();
        let mut coverage = serde_json::Map::new();
        coverage.insert("states".into(), json!(cov.states.max(1)));
        coverage.insert("transitions".into(), json!(cov.transitions.max(1)));
        coverage.insert(
            "traces_validated_against_impl".into(),
            json!(cov.evaluations),
        );
        coverage.insert("evaluations".into(), json!(cov.evaluations.max(1)));
        coverage.insert("distinct_nontrivial".into(), json!(cov.nontrivial));
        coverage.insert("rule".into(), json!(cov.rule));
        coverage.insert(
            "samples".into(),
            if cov.samples.is_empty() {
                json!(["(no sample recorded)"])
            } else {
                json!(cov.samples)
            },
        );
        coverage.insert("exhaustive".into(), json!(exhaustive));
        coverage.insert(
            "families".into(),
            json!(cov
                .families
                .iter()
                .map(|f| json!({"name": f.name, "size": f.size, "done": f.done, "exhaustive": f.exhaustive, "note": f.note}))
                .collect::<Vec<_>>()),
        );
        coverage.insert("distinct_outcomes".into(), json!(cov.outcomes.len()));
        coverage.insert(
            "known_findings_hit".into(),
            json!(known_hits
                .iter()
                .map(|k| json!({"id": k.0, "what": k.1, "violations": k.2}))
                .collect::<Vec<_>>()),
        );
        coverage.insert("time_budget_s".into(), json!(self.budget_s));
        coverage.insert("threads".into(), json!(self.threads));
        for (k, v) in cov.extra.iter() {
            coverage.insert(k.clone(), v.clone());
        }
        let ev = json!({
            "property_id": self.prop,
            "tier": if self.tier == Tier::Quick { "quick" } else { "thorough" },
            "seed": self.seed,
            "level": "model_checking",
            "coverage": Value::Object(coverage),
            "assumptions": cov.assumptions,
            "wall_s": wall,
            "violations": unknown.len() as u64 + unstored,
        });
        if !self.replay_mode {
            let _ = std::fs::create_dir_all(format!("{}/evidence", out_dir()));
            let p = format!("{}/evidence/{}.json", out_dir(), self.prop);
            if std::fs::write(&p, serde_json::to_string_pretty(&ev).unwrap()).is_err() {
                machinery_error("cannot write evidence file");
            }
        }
        println!(
            "[{}] tier={} states={} transitions={} evaluations={} nontrivial={} outcomes={} exhaustive={} wall={:.1}s",
            self.prop,
            if self.tier == Tier::Quick { "quick" } else { "thorough" },
            cov.states,
            cov.transitions,
            cov.evaluations,
            cov.nontrivial,
            cov.outcomes.len(),
            exhaustive,
            wall
        );
        for f in &cov.families {
            println!(
                "  family {:28} size={:>10} done={:>10} exhaustive={} {}",
                f.name, f.size, f.done, f.exhaustive, f.note
            );
        }
        for k in &known_hits {
            println!(
                "KNOWN-FINDING: property={} {} [{}; {} occurrence(s) in this run]",
                self.prop, k.1, k.0, k.2
            );
        }
        if unknown.is_empty() && unstored == 0 {
            std::process::exit(0);
        }
        let mut kinds: Vec<(String, u64)> = vec![];
        for v in &unknown {
            if let Some(e) = kinds.iter_mut().find(|e| e.0 == v.kind) {
                e.1 += 1
            } else {
                kinds.push((v.kind.clone(), 1))
            }
        }
        for (k, c) in &kinds {
            println!("  violation kind {:40} x{}", k, c);
        }
        for (v, p) in unknown.iter().zip(replay_paths.iter()) {
            println!("  {}: {}", v.kind, v.msg.chars().take(600).collect::<String>());
            println!("VIOLATION property={} replay={}", self.prop, p);
        }
        if replay_paths.is_empty() {
            println!("VIOLATION property={} replay=(see log)", self.prop);
        }
        std::process::exit(1);
    }
}

// -------------------------------------------------------------------------------------------------
// known findings

#[derive(Clone, Debug)]
pub struct Known {
    pub id: String,
    pub property: String,
    pub what: String,
    pub kind_prefix: Vec<String>,
    pub conds: Vec<Value>,
}

fn lookup<'a>(v: &'a Value, path: &str) -> Option<&'a Value> {
    let mut cur = v;
    for p in path.split('.') {
        if p.is_empty() {
            continue;
        }
        cur = cur.get(p)?;
    }
    Some(cur)
}

fn strings_of(v: &Value, out: &mut Vec<String>) {
    match v {
        Value::String(s) => out.push(s.clone()),
        Value::Array(a) => a.iter().for_each(|x| strings_of(x, out)),
        Value::Object(o) => o.values().for_each(|x| strings_of(x, out)),
        _ => {}
    }
}

impl Known {
    pub fn matches(&self, v: &Violation) -> bool {
        if !self.kind_prefix.is_empty() && !self.kind_prefix.iter().any(|p| v.kind.starts_with(p)) {
            return false;
        }
        self.conds.iter().all(|c| {
            let path = c.get("path").and_then(|p| p.as_str()).unwrap_or("");
            let Some(target) = lookup(&v.case, path) else {
                return false;
            };
            if let Some(list) = c.get("in").and_then(|x| x.as_array()) {
                return list.contains(target);
            }
            if let Some(eq) = c.get("equals") {
                return eq == target;
            }
            if let Some(chars) = c.get("any_string_contains_char").and_then(|x| x.as_str()) {
                let mut ss = vec![];
                strings_of(target, &mut ss);
                return ss.iter().any(|s| s.chars().any(|ch| chars.contains(ch)));
            }
            if let Some(sub) = c.get("contains").and_then(|x| x.as_str()) {
                let mut ss = vec![];
                strings_of(target, &mut ss);
                return ss.iter().any(|s| s.contains(sub));
            }
            false
        })
    }
}

pub fn load_known(prop: &str) -> Vec<Known> {
    let p = format!("{}/known_findings.json", VERIF_DIR);
    let Ok(text) = std::fs::read_to_string(&p) else {
        return vec![];
    };
    let Ok(v) = serde_json::from_str::<Value>(&text) else {
        machinery_error("known_findings.json is not valid JSON");
    };
    let mut out = vec![];
    if let Some(arr) = v.get("findings").and_then(|f| f.as_array()) {
        for f in arr {
            let props: Vec<String> = f
                .get("properties")
                .and_then(|p| p.as_array())
                .map(|a| a.iter().filter_map(|x| x.as_str().map(String::from)).collect())
                .unwrap_or_default();
            if !props.iter().any(|p| p == prop) {
                continue;
            }
            out.push(Known {
                id: f.get("id").and_then(|x| x.as_str()).unwrap_or("?").to_string(),
                property: prop.to_string(),
                what: f.get("what").and_then(|x| x.as_str()).unwrap_or("").to_string(),
                kind_prefix: f
                    .get("kind_prefix")
                    .and_then(|p| p.as_array())
                    .map(|a| a.iter().filter_map(|x| x.as_str().map(String::from)).collect())
                    .unwrap_or_default(),
                conds: f
                    .get("where")
                    .and_then(|p| p.as_array())
                    .cloned()
                    .unwrap_or_default(),
            });
        }
    }
    out
}
