//! C01-C04: the semantics of every back-end against the definitions, on complete families of ADFs.

use crate::bddx::conv as conv_raw;
use crate::oracle::*;
use crate::report::*;
use crate::mid::Oracle;
use crate::src_adf::*;
use adf_bdd::adf::Adf;
use adf_bdd::adfbiodivine::Adf as BdAdf;
use adf_bdd::datatypes::Term;
use adf_bdd::parser::AdfParser;
use serde_json::{json, Value};
use std::collections::BTreeSet;

pub const STEP_BUDGET: u64 = 2_000_000;

#[derive(Default)]
pub struct Stats {
    pub cases: u64,
    pub calls: u64,
    pub nontrivial: u64,
    pub outcomes: BTreeSet<u64>,
    pub max_steps: u64,
}

pub type Found = Vec<(String, String)>;

thread_local! {
    /// variable index -> declaration index of the case being judged (None: identity)
    static VARMAP: std::cell::RefCell<Option<Vec<usize>>> = const { std::cell::RefCell::new(None) };
}

/// reads an interpretation (indexed by variable) in declaration order
fn conv(m: &[Term]) -> Interp {
    let c = conv_raw(m);
    VARMAP.with(|vm| match &*vm.borrow() {
        Some(map) if map.len() == c.len() => {
            let mut v = vec![U; c.len()];
            for (var, d) in map.iter().enumerate() {
                v[*d] = c[var];
            }
            v
        }
        _ => c,
    })
}

fn multiset(ms: &[Vec<Term>]) -> Vec<Interp> {
    let mut v: Vec<Interp> = ms.iter().map(|m| conv(m)).collect();
    v.sort();
    v
}

fn set_vec(s: &BTreeSet<Interp>) -> Vec<Interp> {
    s.iter().cloned().collect()
}

fn show(ms: &[Interp]) -> String {
    format!("{:?}", ms.iter().map(|m| interp_str(m)).collect::<Vec<_>>())
}

/// compares an enumerated model list with the definitional set, reporting missing / invented / duplicate
pub fn cmp_models(label: &str, got: &[Vec<Term>], want: &BTreeSet<Interp>, n: usize, out: &mut Found) {
    let g = multiset(got);
    if got.iter().any(|m| m.len() != n) {
        out.push((
            format!("{}:wrong-length", label),
            format!("an interpretation does not have {} entries: {:?}", n, got),
        ));
        return;
    }
    let gs: BTreeSet<Interp> = g.iter().cloned().collect();
    let missing: Vec<Interp> = want.difference(&gs).cloned().collect();
    let invented: Vec<Interp> = gs.difference(want).cloned().collect();
    if !missing.is_empty() {
        out.push((
            format!("{}:missing", label),
            format!("missing {} (got {}, definition {})", show(&missing), show(&g), show(&set_vec(want))),
        ));
    }
    if !invented.is_empty() {
        out.push((
            format!("{}:invented", label),
            format!("not in the definition: {} (got {}, definition {})", show(&invented), show(&g), show(&set_vec(want))),
        ));
    }
    if gs.len() != g.len() {
        out.push((
            format!("{}:duplicate", label),
            format!("listed more than once: got {}", show(&g)),
        ));
    }
}

fn guarded<T>(label: &str, out: &mut Found, st: &mut Stats, f: impl FnOnce() -> T) -> Option<T> {
    adf_bdd::verif::set_budget(Some(STEP_BUDGET));
    st.calls += 1;
    let r = guard(f);
    st.max_steps = st.max_steps.max(adf_bdd::verif::steps());
    adf_bdd::verif::set_budget(None);
    match r {
        Ok(v) => Some(v),
        Err(msg) => {
            if msg.contains(adf_bdd::verif::BUDGET_EXHAUSTED) {
                out.push((format!("{}:nontermination", label), format!("step budget of {} exhausted", STEP_BUDGET)));
            } else {
                out.push((format!("{}:panic", label), format!("panicked: {}", msg)));
            }
            None
        }
    }
}

pub struct Objs<'a> {
    pub parser: &'a AdfParser<'a>,
}

/// one ADF, one property
pub fn sem_case(prop: &str, text: &str, tts: &[TT], out: &mut Found, st: &mut Stats) {
    sem_case_p(prop, text, tts, 0, &crate::fam::names(tts.len()), out, st)
}

/// `sorting` is applied after parsing; `labels` are the labels in declaration order (index = position in `tts`)
pub fn sem_case_p(prop: &str, text: &str, tts: &[TT], sorting: usize, labels: &[String], out: &mut Found, st: &mut Stats) {
    sem_case_o(prop, text, &Oracle::from_tts(tts), sorting, labels, out, st)
}

/// the general form: the definitional answers are given as an `Oracle` (from truth tables or from formulas)
/// a native object whose diagram store has a listener (`Bdd::set_sender`) that has gone away: every node created from
/// now on meets a failing send, which is only logged - the object must keep working
pub fn with_gone_listener(mut adf: Adf) -> Adf {
    #[cfg(feature = "frontend")]
    {
        let (s, r) = crossbeam_channel::unbounded();
        adf.bdd.set_sender(s);
        drop(r);
    }
    adf
}

/// splits a generated text after its first `ac` fact (facts end with a dot outside quotes and brackets); only texts that
/// declare all statements before their first condition are split, so that the first portion declares every statement
/// it mentions
fn split_after_first_ac(text: &str) -> Option<(&str, &str)> {
    let (mut depth, mut quoted, mut start) = (0i32, false, 0usize);
    let mut cut: Option<usize> = None;
    for (i, ch) in text.char_indices() {
        match ch {
            '"' => quoted = !quoted,
            '(' if !quoted => depth += 1,
            ')' if !quoted => depth -= 1,
            '.' if !quoted && depth == 0 => {
                let fact = text[start..=i].trim_start();
                start = i + 1;
                let is_ac = fact.starts_with("ac(") || fact.starts_with("ac (");
                match cut {
                    None if is_ac => cut = Some(start),
                    Some(_) if !is_ac => return None, // a statement is declared after the first condition
                    _ => {}
                }
            }
            _ => {}
        }
    }
    let c = cut?;
    if text[c..].trim().is_empty() {
        None
    } else {
        Some((&text[..c], &text[c..]))
    }
}

pub fn sem_case_o(prop: &str, text: &str, orc: &Oracle, sorting: usize, labels: &[String], out: &mut Found, st: &mut Stats) {
    sem_case_inner(prop, text, orc, sorting, labels, out, st, false, None);
    VARMAP.with(|vm| *vm.borrow_mut() = None);
    if sorting == 0 && (2..=3).contains(&orc.n) && hash64(text.as_bytes()) % 8 == 0 {
        // the same input read in two portions by one parser object, with an instantiation (native and biodivine) after
        // the first portion: every object below is made after the second portion and must be an object of the whole input
        if let Some(portions) = split_after_first_ac(text) {
            let mut out2: Found = vec![];
            let cases = st.cases;
            sem_case_inner(prop, text, orc, sorting, labels, &mut out2, st, false, Some(portions));
            st.cases = cases;
            VARMAP.with(|vm| *vm.borrow_mut() = None);
            for (k, m) in out2 {
                out.push((format!("two-portions:{}", k), format!("{} (the parser read the input in two portions, {:?} and {:?}, and served an instantiation in between)", m, portions.0, portions.1)));
            }
        }
    }
    if sorting != 0 && orc.n <= 8 {
        // the same once more, but the parser has already served an instantiation (native and biodivine) BEFORE it was
        // sorted: every object below is a second instantiation from a re-sorted parser
        let mut out2: Found = vec![];
        let cases = st.cases;
        sem_case_inner(prop, text, orc, sorting, labels, &mut out2, st, true, None);
        st.cases = cases;
        VARMAP.with(|vm| *vm.borrow_mut() = None);
        for (k, m) in out2 {
            out.push((format!("resorted-parser:{}", k), format!("{} (the parser had served an instantiation before it was sorted)", m)));
        }
    }
}

#[allow(clippy::too_many_arguments)]
fn sem_case_inner(prop: &str, text: &str, orc: &Oracle, sorting: usize, labels: &[String], out: &mut Found, st: &mut Stats, instantiate_before_sorting: bool, portions: Option<(&str, &str)>) {
    let n = orc.n;
    st.cases += 1;
    let parser = AdfParser::default();
    let parsed = match portions {
        None => guard(|| crate::fam::parse_into(&parser, text)),
        Some((p1, p2)) => guard(|| {
            let ok1 = matches!(parser.parse()(p1), Ok((rest, _)) if rest.trim().is_empty());
            let _a = Adf::from_parser(&parser);
            let _b = BdAdf::from_parser(&parser);
            let ok2 = matches!(parser.parse()(p2), Ok((rest, _)) if rest.trim().is_empty());
            ok1 && ok2
        }),
    };
    if parsed != Ok(true) {
        out.push(("parse".into(), format!("generated well-formed input was not accepted: {:?}", parsed)));
        return;
    }
    if instantiate_before_sorting {
        let _ = guard(|| {
            let _a = Adf::from_parser(&parser);
            let _b = BdAdf::from_parser(&parser);
        });
    }
    match sorting {
        1 => {
            parser.varsort_lexi();
        }
        2 => {
            parser.varsort_alphanum();
        }
        _ => {}
    }
    // variable order of the objects = order of the parser's name list
    let names_now = parser.var_container().names().read().unwrap().clone();
    let map: Option<Vec<usize>> = names_now.iter().map(|l| labels.iter().position(|x| x == l)).collect();
    match map {
        Some(m) if m.len() == n => VARMAP.with(|vm| *vm.borrow_mut() = Some(m)),
        _ => {
            out.push(("labels".into(), format!("the statements of the parsed input are {:?}, declared were {:?}", names_now, labels)));
            return;
        }
    }
    match prop {
        "C01" => {
            let want = orc.grounded.clone();
            st.outcomes.insert(hash64(&want));
            if orc.rounds >= 2 {
                st.nontrivial += 1;
            }
            let mut chk = |label: &str, r: Option<Vec<Term>>, out: &mut Found| {
                if let Some(r) = r {
                    if r.len() != n {
                        out.push((format!("{}:wrong-length", label), format!("grounded has {} entries for {} statements", r.len(), n)));
                    } else if conv(&r) != want {
                        out.push((
                            format!("{}:grounded", label),
                            format!("grounded is {} but the least fixpoint is {}", interp_str(&conv(&r)), interp_str(&want)),
                        ));
                    }
                }
            };
            let r = guarded("native", out, st, || Adf::from_parser(&parser).grounded());
            chk("native", r, out);
            let r = guarded("native+gone-listener", out, st, || with_gone_listener(Adf::from_parser(&parser)).grounded());
            chk("native+gone-listener", r, out);
            let bd = guarded("biodivine:build", out, st, || BdAdf::from_parser(&parser));
            if let Some(bd) = bd {
                let r = guarded("biodivine", out, st, || bd.grounded());
                chk("biodivine", r, out);
                let r = guarded("hybrid(pre-grounded)", out, st, || bd.hybrid_step().grounded());
                chk("hybrid(pre-grounded)", r, out);
                let r = guarded("hybrid_opt(true)", out, st, || bd.hybrid_step_opt(true).grounded());
                chk("hybrid_opt(true)", r, out);
                let r = guarded("hybrid_opt(false)", out, st, || bd.hybrid_step_opt(false).grounded());
                chk("hybrid_opt(false)", r, out);
                let r = guarded("from_biodivine", out, st, || Adf::from_biodivine(&bd).grounded());
                chk("from_biodivine", r, out);
            }
            let r = guarded("biodivine(rewrite)", out, st, || BdAdf::from_parser_with_stm_rewrite(&parser).grounded());
            chk("biodivine(rewrite)", r, out);
            // re-imported objects (JSON + repair step; node list + ordering + roots as the web service stores them)
            let r = guarded("reimported(serde)", out, st, || crate::c14::roundtrip_serde(&Adf::from_parser(&parser)).grounded());
            chk("reimported(serde)", r, out);
            let r = guarded("reimported(node list)", out, st, || crate::c14::roundtrip_dblayer(&Adf::from_parser(&parser)).grounded());
            chk("reimported(node list)", r, out);
            let r = guarded("bridged+reimported(node list)", out, st, || crate::c14::roundtrip_dblayer(&BdAdf::from_parser(&parser).hybrid_step_opt(false)).grounded());
            chk("bridged+reimported(node list)", r, out);
        }
        "C02" => {
            let want = orc.complete.clone();
            let grd = orc.grounded.clone();
            st.outcomes.insert(hash64(&set_vec(&want).concat()));
            if want.len() >= 2 {
                st.nontrivial += 1;
            }
            let mut chk = |label: &str, r: Option<Vec<Vec<Term>>>, out: &mut Found| {
                if let Some(r) = r {
                    cmp_models(label, &r, &want, n, out);
                    match r.first() {
                        None => out.push((format!("{}:grounded-not-first", label), "no complete model listed at all".into())),
                        Some(f) => {
                            if f.len() == n && conv(f) != grd {
                                out.push((
                                    format!("{}:grounded-not-first", label),
                                    format!("first listed model is {} but grounded is {}", interp_str(&conv(f)), interp_str(&grd)),
                                ));
                            }
                        }
                    }
                }
            };
            let r = guarded("native", out, st, || Adf::from_parser(&parser).complete().collect::<Vec<_>>());
            chk("native", r, out);
            let r = guarded("native+gone-listener", out, st, || with_gone_listener(Adf::from_parser(&parser)).complete().collect::<Vec<_>>());
            chk("native+gone-listener", r, out);
            let r = guarded("reimported(serde)", out, st, || crate::c14::roundtrip_serde(&Adf::from_parser(&parser)).complete().collect::<Vec<_>>());
            chk("reimported(serde)", r, out);
            let r = guarded("reimported(node list)", out, st, || crate::c14::roundtrip_dblayer(&Adf::from_parser(&parser)).complete().collect::<Vec<_>>());
            chk("reimported(node list)", r, out);
            if let Some(bd) = guarded("biodivine:build", out, st, || BdAdf::from_parser(&parser)) {
                let r = guarded("biodivine", out, st, || bd.complete().collect::<Vec<_>>());
                chk("biodivine", r, out);
                let r = guarded("hybrid(pre-grounded)", out, st, || bd.hybrid_step().complete().collect::<Vec<_>>());
                chk("hybrid(pre-grounded)", r, out);
                let r = guarded("hybrid_opt(false)", out, st, || bd.hybrid_step_opt(false).complete().collect::<Vec<_>>());
                chk("hybrid_opt(false)", r, out);
                let r = guarded("from_biodivine", out, st, || Adf::from_biodivine(&bd).complete().collect::<Vec<_>>());
                chk("from_biodivine", r, out);
            }
            // the object that also carries the single-formula stable rewriting (what the CLI builds for --stmrew): every
            // other answer of it, and of the hybrid objects made from it, is an answer about the same ADF
            if let Some(bd) = guarded("biodivine(rewrite):build", out, st, || BdAdf::from_parser_with_stm_rewrite(&parser)) {
                let r = guarded("biodivine(rewrite)", out, st, || bd.complete().collect::<Vec<_>>());
                chk("biodivine(rewrite)", r, out);
                let r = guarded("hybrid(rewrite, pre-grounded)", out, st, || bd.hybrid_step().complete().collect::<Vec<_>>());
                chk("hybrid(rewrite, pre-grounded)", r, out);
            }
        }
        "C03" => {
            let want = orc.stable.clone();
            let two = orc.two.clone();
            st.outcomes.insert(hash64(&set_vec(&want).concat()).wrapping_add(want.len() as u64));
            if want.len() >= 2 || (two.len() > want.len()) {
                st.nontrivial += 1;
            }
            let r = guarded("native.stable", out, st, || Adf::from_parser(&parser).stable().collect::<Vec<_>>());
            if let Some(r) = r {
                cmp_models("native.stable", &r, &want, n, out);
            }
            let r = guarded("native.stable_with_prefilter", out, st, || Adf::from_parser(&parser).stable_with_prefilter().collect::<Vec<_>>());
            if let Some(r) = r {
                cmp_models("native.stable_with_prefilter", &r, &want, n, out);
            }
            for (rl, how) in [("reimported(serde)", 0), ("reimported(node list)", 1), ("native+gone-listener", 2)] {
                let mk = || match how {
                    0 => crate::c14::roundtrip_serde(&Adf::from_parser(&parser)),
                    1 => crate::c14::roundtrip_dblayer(&Adf::from_parser(&parser)),
                    _ => with_gone_listener(Adf::from_parser(&parser)),
                };
                let l = format!("{}.stable", rl);
                if let Some(r) = guarded(&l, out, st, || mk().stable().collect::<Vec<_>>()) {
                    cmp_models(&l, &r, &want, n, out);
                }
                let l = format!("{}.stable_with_prefilter", rl);
                if let Some(r) = guarded(&l, out, st, || mk().stable_with_prefilter().collect::<Vec<_>>()) {
                    cmp_models(&l, &r, &want, n, out);
                }
            }
            let bd = guarded("biodivine:build", out, st, || BdAdf::from_parser(&parser));
            let bd2 = guarded("biodivine(rewrite):build", out, st, || BdAdf::from_parser_with_stm_rewrite(&parser));
            if let (Some(bd), Some(bd2)) = (bd, bd2) {
                if !bd2.has_stm_rewriting() || bd.has_stm_rewriting() {
                    out.push(("biodivine:rewrite-flag".into(), "has_stm_rewriting does not reflect the constructor used".into()));
                }
                for (bl, b) in [("biodivine", &bd), ("biodivine(rewrite)", &bd2)] {
                    let l = format!("{}.stable", bl);
                    if let Some(r) = guarded(&l, out, st, || b.stable().collect::<Vec<_>>()) {
                        cmp_models(&l, &r, &want, n, out);
                    }
                    let l = format!("{}.stable_bdd_representation", bl);
                    if let Some(r) = guarded(&l, out, st, || b.stable_bdd_representation()) {
                        cmp_models(&l, &r, &want, n, out);
                    }
                }
                // native object with candidates from biodivine
                for (bl, b) in [("bd", &bd), ("bd(rewrite)", &bd2)] {
                    let l = format!("native.stable_bdd_representation({})", bl);
                    if let Some(r) = guarded(&l, out, st, || Adf::from_parser(&parser).stable_bdd_representation(b)) {
                        cmp_models(&l, &r, &want, n, out);
                    }
                }
                for (hl, pre) in [("hybrid(pre-grounded)", 1), ("hybrid_opt(false)", 0), ("from_biodivine", 2), ("hybrid(rewrite, pre-grounded)", 3)] {
                    let mk = || match pre {
                        1 => bd.hybrid_step(),
                        0 => bd.hybrid_step_opt(false),
                        3 => bd2.hybrid_step(),
                        _ => Adf::from_biodivine(&bd),
                    };
                    let l = format!("{}.stable", hl);
                    if let Some(r) = guarded(&l, out, st, || mk().stable().collect::<Vec<_>>()) {
                        cmp_models(&l, &r, &want, n, out);
                    }
                    let l = format!("{}.stable_with_prefilter", hl);
                    if let Some(r) = guarded(&l, out, st, || mk().stable_with_prefilter().collect::<Vec<_>>()) {
                        cmp_models(&l, &r, &want, n, out);
                    }
                    for (bl, b) in [("bd", &bd), ("bd(rewrite)", &bd2)] {
                        let l = format!("{}.stable_bdd_representation({})", hl, bl);
                        if let Some(r) = guarded(&l, out, st, || mk().stable_bdd_representation(b)) {
                            cmp_models(&l, &r, &want, n, out);
                        }
                    }
                }
            }
        }
        "C04" => {
            let want = orc.stable.clone();
            let two = orc.two.clone();
            st.outcomes.insert(hash64(&set_vec(&want).concat()).wrapping_add(want.len() as u64));
            if want.len() >= 2 || (two.len() > want.len()) {
                st.nontrivial += 1;
            }
            let bd = guarded("biodivine:build", out, st, || BdAdf::from_parser(&parser));
            let bdr = guarded("biodivine(rewrite):build", out, st, || BdAdf::from_parser_with_stm_rewrite(&parser));
            for which in 0..9 {
                let label = ["native", "hybrid(pre-grounded)", "hybrid_opt(false)", "from_biodivine", "reimported(serde)", "reimported(node list)", "native+gone-listener", "hybrid(rewrite, pre-grounded)", "hybrid_opt(rewrite, false)"][which];
                let mk = || -> Option<Adf> {
                    match which {
                        0 => Some(Adf::from_parser(&parser)),
                        1 => bd.as_ref().map(|b| b.hybrid_step()),
                        2 => bd.as_ref().map(|b| b.hybrid_step_opt(false)),
                        3 => bd.as_ref().map(Adf::from_biodivine),
                        4 => Some(crate::c14::roundtrip_serde(&Adf::from_parser(&parser))),
                        5 => Some(crate::c14::roundtrip_dblayer(&Adf::from_parser(&parser))),
                        6 => Some(with_gone_listener(Adf::from_parser(&parser))),
                        7 => bdr.as_ref().map(|b| b.hybrid_step()),
                        _ => bdr.as_ref().map(|b| b.hybrid_step_opt(false)),
                    }
                };
                if ((1..4).contains(&which) && bd.is_none()) || (which >= 7 && bdr.is_none()) {
                    continue;
                }
                let l = format!("{}.heu_a", label);
                if let Some(r) = guarded(&l, out, st, || mk().unwrap().stable_count_optimisation_heu_a().collect::<Vec<_>>()) {
                    cmp_models(&l, &r, &want, n, out);
                }
                let l = format!("{}.heu_b", label);
                if let Some(r) = guarded(&l, out, st, || mk().unwrap().stable_count_optimisation_heu_b().collect::<Vec<_>>()) {
                    cmp_models(&l, &r, &want, n, out);
                }
                // both on one object, b after a (the second search starts from warm memo tables)
                let l = format!("{}.heu_a-then-heu_b", label);
                if let Some(r) = guarded(&l, out, st, || {
                    let mut adf = mk().unwrap();
                    let _ = adf.stable_count_optimisation_heu_a().collect::<Vec<_>>();
                    adf.stable_count_optimisation_heu_b().collect::<Vec<_>>()
                }) {
                    cmp_models(&l, &r, &want, n, out);
                }
                // ... and a after b (native objects)
                if which == 0 {
                    let l = format!("{}.heu_b-then-heu_a", label);
                    if let Some(r) = guarded(&l, out, st, || {
                        let mut adf = mk().unwrap();
                        let _ = adf.stable_count_optimisation_heu_b().collect::<Vec<_>>();
                        adf.stable_count_optimisation_heu_a().collect::<Vec<_>>()
                    }) {
                        cmp_models(&l, &r, &want, n, out);
                    }
                }
            }
        }
        _ => machinery_error("sem_case: unknown property"),
    }
}

pub fn run_sem(run: &Run) {
    crate::fam::writers_selfcheck();
    crate::mid::selfcheck();
    let prop = run.prop.clone();
    run.set_rule(match prop.as_str() {
        "C01" => "every ADF of each named family (complete enumeration, index order) is written to input text, parsed and built on every back-end; the grounded interpretation of each is compared with the brute-force least fixpoint of Gamma. Non-trivial: ADFs whose least fixpoint needs >= 2 rounds (some statement is decided only through another one).",
        "C02" => "every ADF of each named family; complete() of every back-end compared as a multiset with {v in 3^n | Gamma(v)=v}; first element must be the grounded interpretation. Non-trivial: ADFs with >= 2 complete models.",
        "C03" => "every ADF of each named family; every enumerate-and-check stable variant on every back-end compared as a multiset with the stable models of the definition (reduct + least fixpoint). Non-trivial: ADFs with >= 2 stable models or with a two-valued model that is not stable.",
        _ => "every ADF of each named family; both counting-guided searches on native / hybrid / bridged objects compared as a multiset with the stable models of the definition. Non-trivial: ADFs with >= 2 stable models or with a two-valued model that is not stable.",
    });
    run.assume("reference model: truth tables + brute force over all 2^n / 3^n interpretations (oracle.rs)");
    run.assume("inputs are limited to the named families (n <= 5 statements); larger ADFs are out of the bound");
    let sources = standard_sources(run, true);
    let mut max_steps = 0;
    for src in sources {
        if run.violations_so_far() > 500 {
            break;
        }
        let res = run.par_family(
            &src.name(),
            src.size(),
            Stats::default,
            |st, k| {
                let c = src.get(k);
                let mut out = vec![];
                match &c.formulas {
                    Some(l) => sem_case_o(&prop, &c.text, &Oracle::from_formulas(l), c.sorting, &c.labels, &mut out, st),
                    None => sem_case_p(&prop, &c.text, &c.tts, c.sorting, &c.labels, &mut out, st),
                }
                for (kind, msg) in out {
                    run.violation(&kind, format!("{} on {}{}", msg, c.text, ["", " (varsort_lexi)", " (varsort_alphanum)"][c.sorting]), src.describe(k));
                }
            },
            &|k| src.describe(k),
        );
        for k in [0u64, src.size() / 2, src.size() - 1] {
            if src.size() > 0 {
                run.sample(json!({"source": src.name(), "index": k, "text": src.get(k.min(src.size() - 1)).text}));
            }
        }
        for st in res {
            run.add_counts(st.cases, st.calls, st.calls, st.nontrivial);
            run.add_outcomes(st.outcomes);
            max_steps = max_steps.max(st.max_steps);
        }
    }
    // CLI clause: the flags that print this semantics, in every library mode and sorting
    let flagsets: Vec<u32> = match prop.as_str() {
        "C01" => vec![1 << 0],
        "C02" => vec![1 << 1, 0b11],
        "C03" => vec![1 << 2, 1 << 3, 1 << 4, 1 << 5],
        _ => vec![1 << 6, 1 << 7],
    };
    crate::c15::cli_slice(run, &flagsets, &[None]);
    // once more with a logger that accepts TRACE records (every log statement of the library is executed and its
    // arguments are evaluated): the answers must not depend on whether somebody listens
    crate::report::trace_logging(true);
    for src in [Source::FamPresented(crate::fam::fam_a(2)), Source::Spelled, Source::FamCompact(crate::fam::fam_f(3, 1))] {
        let res = run.par_family(
            &format!("{} with trace logging switched on", src.name()),
            src.size(),
            Stats::default,
            |st, k| {
                let c = src.get(k);
                let mut out = vec![];
                sem_case_p(&prop, &c.text, &c.tts, c.sorting, &c.labels, &mut out, st);
                for (kind, msg) in out {
                    let mut d = src.describe(k);
                    d["trace_logging"] = json!(true);
                    run.violation(&format!("trace-logging:{}", kind), format!("{} on {} (a logger accepting TRACE records is installed)", msg, c.text), d);
                }
            },
            &|k| src.describe(k),
        );
        for st in res {
            run.add_counts(st.cases, st.calls, st.calls, st.nontrivial);
        }
    }
    crate::report::trace_logging(false);
    run.extra("max_loop_steps_observed", json!(max_steps));
    run.extra("loop_step_budget", json!(STEP_BUDGET));
    run.extra("states_are", json!("distinct ADF inputs built on the real back-ends"));
    run.extra("transitions_are", json!("real API calls executed and compared with the definitional oracle"));
}

pub fn replay_sem(prop: &str, case: &Value) -> Found {
    if case["type"] == "cli" {
        return crate::c15::replay(case);
    }
    if case["trace_logging"].as_bool().unwrap_or(false) {
        let mut c2 = case.clone();
        c2["trace_logging"] = json!(false);
        crate::report::trace_logging(true);
        let mut r = replay_sem(prop, &c2);
        crate::report::trace_logging(false);
        for f in r.iter_mut() {
            f.0 = format!("trace-logging:{}", f.0);
        }
        return r;
    }
    let text = case["text"].as_str().unwrap_or_default().to_string();
    let tts: Vec<TT> = case["tts"]
        .as_array()
        .map(|a| a.iter().map(|x| x.as_u64().unwrap_or(0) as TT).collect())
        .unwrap_or_default();
    let mut out = vec![];
    let mut st = Stats::default();
    let labels: Vec<String> = case["labels"]
        .as_array()
        .map(|a| a.iter().map(|x| x.as_str().unwrap_or("").to_string()).collect())
        .unwrap_or_else(|| crate::fam::names(tts.len()));
    if let Some(i) = case.get("sparse").and_then(|x| x.as_u64()) {
        let l = crate::mid::sparse(i);
        sem_case_o(prop, &text, &Oracle::from_formulas(&l), case["sorting"].as_u64().unwrap_or(0) as usize, &l.labels, &mut out, &mut st);
        return out;
    }
    if let Some(r) = case.get("ladder") {
        let l = crate::mid::ladder(r["n"].as_u64().unwrap_or(65) as usize, r["variant"].as_u64().unwrap_or(0));
        sem_case_o(prop, &text, &Oracle::from_formulas(&l), case["sorting"].as_u64().unwrap_or(0) as usize, &l.labels, &mut out, &mut st);
        return out;
    }
    if let Some(r) = case.get("ring") {
        let l = crate::mid::ring(r["n"].as_u64().unwrap_or(6) as usize, r["index"].as_u64().unwrap_or(0));
        sem_case_o(prop, &text, &Oracle::from_formulas(&l), case["sorting"].as_u64().unwrap_or(0) as usize, &l.labels, &mut out, &mut st);
        return out;
    }
    sem_case_p(prop, &text, &tts, case["sorting"].as_u64().unwrap_or(0) as usize, &labels, &mut out, &mut st);
    out
}
