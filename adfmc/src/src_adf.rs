//! Sources of ADF cases: a family member turned into input text, together with its definitional truth tables.
#![allow(dead_code)]

use crate::fam::*;
use crate::oracle::*;
use crate::report::{Run, Tier};
use serde_json::{json, Value};

#[derive(Clone)]
pub enum Source {
    /// family member k written with the index-derived writer tuple
    Fam(Family),
    /// every member of a small family with every writer tuple
    FamAllWriters(Family),
    /// family member k written compactly (Shannon writer, mentions only the variables a function depends on)
    FamCompact(Family),
    /// every formula of a list as condition of statement a of a two-statement ADF
    Formulas(String, std::sync::Arc<Vec<Fm>>),
    /// family member k presented unusually: ac facts in a permuted order that differs from the statement order, labels
    /// that both sortings reorder, and a sorting (none / lexicographic / alphanumeric) - all a fixed function of k
    FamPresented(Family),
    /// ring ADFs R(n): members first + step*k (see mid.rs); sorting and fact order cycle with k
    Ring(usize, u64, u64),
    /// T3(n), n <= 5: self-referential ternary conditions over (i, i+1, i+2); members first + step*k
    Tern(usize, u64, u64),
    /// SP: large sparse ADFs (70 / 130 / 270 statements, 7 open ones at the highest positions), `count` instances
    Sparse(u64, u64),
    /// ladders with exactly 63 ... 257 statements (mid::ladder), both variants
    Ladder,
    /// labels that spell formulas: statements a, b and X, where the quoted label X is a rendering of a formula f(a,b) -
    /// in the input syntax or as the library itself prints the parsed condition; f is the whole condition of a, the
    /// atom X the whole condition of b (in both fact orders), neg(a) the condition of X
    Spelled,
    /// three statements whose conditions are written literally as one of 15 short formulas (atoms, negated atoms,
    /// constants, and / or / imp of two atoms, chains of 3-5 negations): all 15^3 combinations - the writers of the other families never write a
    /// bare atom or a bare negation
    Literal3,
}

pub const LITERALS: usize = 15;

fn literal(k: usize) -> Fm {
    let a = Fm::Atom;
    match k % LITERALS {
        0 => a(0),
        1 => a(1),
        2 => a(2),
        3 => Fm::not(a(0)),
        4 => Fm::not(a(1)),
        5 => Fm::not(a(2)),
        6 => Fm::Top,
        7 => Fm::Bot,
        8 => Fm::bin(0, a(0), a(1)),
        9 => Fm::bin(1, a(1), a(2)),
        10 => Fm::bin(2, Fm::not(a(0)), Fm::not(a(2))),
        11 => Fm::bin(0, a(0), Fm::not(a(0))),
        // a connective applied to its own result: chains of three, four and five negations
        12 => Fm::not(Fm::not(Fm::not(a(1)))),
        13 => Fm::not(Fm::not(Fm::not(Fm::not(a(2))))),
        _ => Fm::not(Fm::not(Fm::not(Fm::not(Fm::not(a(0)))))),
    }
}

/// the fixed formulas over the two atoms a and b (every connective in every argument position)
fn spelled_formulas() -> Vec<Fm> {
    crate::c08::position_formulas()
        .into_iter()
        .filter(|f| {
            let mut s = std::collections::BTreeSet::new();
            f.atoms(&mut s);
            // (a bare atom would spell the label of an existing statement)
            s.iter().all(|a| *a < 2) && !matches!(f, Fm::Atom(_))
        })
        .collect()
}

pub fn spelled_size() -> u64 {
    spelled_formulas().len() as u64 * 4
}

/// the library's own rendering of a parsed condition
fn library_rendering(f: &Fm) -> String {
    let labels = names(2);
    let text = format!("s(a).s(b).ac(a,{}).ac(b,b).", f.text(&labels, ("", "")));
    let parser = adf_bdd::parser::AdfParser::default();
    if parser.parse()(&text).is_err() {
        return f.text(&labels, ("", ""));
    }
    // the conditions are kept in the order in which they were written
    parser.ac_at(0).map(|x| format!("{:?}", x)).unwrap_or_default()
}

/// labels that are not declared in sorted order under either sorting (b10 < b9 byte-wise, 9 < 10 naturally)
const PRESENT_LABELS: [&str; 5] = ["b10", "b9", "a", "B", "c"];

pub const PSI: usize = 5;

fn psi(k: usize) -> Fm {
    match k % PSI {
        0 => Fm::Atom(1),
        1 => Fm::not(Fm::Atom(0)),
        2 => Fm::Top,
        3 => Fm::bin(0, Fm::Atom(0), Fm::Atom(1)),
        _ => Fm::bin(4, Fm::Atom(0), Fm::Atom(1)),
    }
}

pub struct Case {
    pub tts: Vec<TT>,
    pub text: String,
    pub fms: Vec<Fm>,
    /// 0 none, 1 varsort_lexi, 2 varsort_alphanum (applied after parsing)
    pub sorting: usize,
    /// labels in declaration order (index = position in `tts`)
    pub labels: Vec<String>,
    /// mid-size ADFs are given by formulas (their truth tables do not fit a u32); `tts` is empty then
    pub formulas: Option<std::sync::Arc<crate::large::LargeAdf>>,
}

impl Source {
    pub fn name(&self) -> String {
        match self {
            Source::Fam(f) | Source::FamCompact(f) => f.name.clone(),
            Source::FamAllWriters(f) => format!("{} x all writer tuples", f.name),
            Source::Formulas(n, _) => n.clone(),
            Source::FamPresented(f) => format!("{} presented with permuted ac facts, reordering labels and sortings", f.name),
            Source::Tern(n, first, step) => {
                if *step == 1 {
                    format!("T3({}): all ADFs with {} self-referential ternary conditions", n, n)
                } else {
                    format!("T3({}) class {} mod {}: self-referential ternary conditions", n, first, step)
                }
            }
            Source::Sparse(_, count) => format!("SP: {} large sparse ADFs (70/130/270 statements, open ring at positions beyond 63 / 255)", count),
            Source::Ladder => "ladders with exactly 63-66 / 127-129 / 255-257 statements (decided / with an open pair at the two highest positions)".to_string(),
            Source::Spelled => "labels that spell a formula of the same ADF (input syntax and the library's own rendering)".to_string(),
            Source::Literal3 => "Lit(3): three statements x 15 literally written short conditions".to_string(),
            Source::Ring(n, first, step) => {
                if *step == 1 {
                    format!("R({}): all ring ADFs with {} statements", n, n)
                } else {
                    format!("R({}) class {} mod {}: ring ADFs with {} statements", n, first, step, n)
                }
            }
        }
    }
    pub fn n(&self) -> usize {
        match self {
            Source::Fam(f) | Source::FamAllWriters(f) | Source::FamCompact(f) | Source::FamPresented(f) => f.n,
            Source::Formulas(..) => 2,
            Source::Ring(n, _, _) | Source::Tern(n, _, _) => *n,
            Source::Sparse(..) => 270,
            Source::Ladder => 257,
            Source::Spelled | Source::Literal3 => 3,
        }
    }
    pub fn size(&self) -> u64 {
        match self {
            Source::Fam(f) | Source::FamCompact(f) | Source::FamPresented(f) => f.size(),
            Source::FamAllWriters(f) => f.size() * (WRITERS as u64).pow(f.n as u32),
            Source::Formulas(_, l) => l.len() as u64,
            Source::Sparse(_, count) => *count,
            Source::Ladder => 2 * crate::mid::LADDER_SIZES.len() as u64,
            Source::Spelled => spelled_size(),
            Source::Literal3 => (LITERALS as u64).pow(3),
            Source::Tern(n, first, step) => {
                let raw = crate::mid::tern_size(*n);
                if *first >= raw {
                    0
                } else {
                    (raw - first + step - 1) / step
                }
            }
            Source::Ring(n, first, step) => {
                let raw = crate::mid::ring_size(*n);
                if *first >= raw {
                    0
                } else {
                    (raw - first + step - 1) / step
                }
            }
        }
    }
    pub fn get(&self, k: u64) -> Case {
        match self {
            Source::Fam(f) => {
                let tts = f.get(k);
                let fms = adf_fms(&tts, f.raw_index(k));
                let text = adf_text_fm(&fms, &names(f.n));
                Case { labels: names(tts.len()), tts, text, fms, sorting: 0, formulas: None }
            }
            Source::FamCompact(f) => {
                let tts = f.get(k);
                let fms: Vec<Fm> = tts.iter().map(|tt| write_fm(*tt, f.n, 5)).collect();
                let text = adf_text_fm(&fms, &names(f.n));
                Case { labels: names(tts.len()), tts, text, fms, sorting: 0, formulas: None }
            }
            Source::FamAllWriters(f) => {
                let wn = (WRITERS as u64).pow(f.n as u32);
                let tts = f.get(k / wn);
                let fms = adf_fms(&tts, k % wn);
                let text = adf_text_fm(&fms, &names(f.n));
                Case { labels: names(tts.len()), tts, text, fms, sorting: 0, formulas: None }
            }
            Source::FamPresented(f) => {
                let n = f.n;
                let tts = f.get(k);
                let fms: Vec<Fm> = tts.iter().map(|tt| write_fm(*tt, n, 5)).collect();
                let labels: Vec<String> = PRESENT_LABELS.iter().take(n).map(|s| s.to_string()).collect();
                // ac facts: rotated by 1 + (k mod (n-1)) positions (never the statement order for n >= 2), and reversed for odd k/3
                let rot = if n > 1 { 1 + (k as usize % (n - 1).max(1)) } else { 0 };
                let mut order: Vec<usize> = (0..n).map(|i| (i + rot) % n).collect();
                if (k / 3) % 2 == 1 {
                    order.reverse();
                }
                let mut text = String::new();
                // statements are declared interleaved with the conditions for every fourth member
                if (k / 6) % 4 == 3 {
                    for (j, i) in order.iter().enumerate() {
                        text += &format!("ac({},{}).", labels[*i], fms[*i].text(&labels, ("", "")));
                        text += &format!("s({}).", labels[j]);
                    }
                } else {
                    for l in &labels {
                        text += &format!("s({}).", l);
                    }
                    for i in &order {
                        text += &format!("ac({},{}).", labels[*i], fms[*i].text(&labels, ("", "")));
                    }
                }
                Case { tts, text, fms, sorting: (k % 3) as usize, labels, formulas: None }
            }
            Source::Tern(n, first, step) => {
                let fms = crate::mid::tern(*n, first + step * k);
                let tts: Vec<TT> = fms.iter().map(|f| f.tt(*n)).collect();
                let text = adf_text_fm(&fms, &names(*n));
                Case { labels: names(*n), tts, text, fms, sorting: 0, formulas: None }
            }
            Source::Sparse(first, _) => {
                // stride 7: consecutive members differ in size, numbering direction and ring
                let idx = first + 7 * k;
                let l = crate::mid::sparse(idx);
                let text = l.text(None, ("\n", "", ""));
                Case { tts: vec![], text, fms: l.conds.clone(), sorting: ((idx / 2) % 3) as usize, labels: l.labels.clone(), formulas: Some(std::sync::Arc::new(l)) }
            }
            Source::Ladder => {
                let l = crate::mid::ladder(crate::mid::LADDER_SIZES[(k / 2) as usize], k % 2);
                let text = l.text(None, ("\n", "", ""));
                Case { tts: vec![], text, fms: l.conds.clone(), sorting: (k % 3) as usize, labels: l.labels.clone(), formulas: Some(std::sync::Arc::new(l)) }
            }
            Source::Ring(n, first, step) => {
                let idx = first + step * k;
                let l = crate::mid::ring(*n, idx);
                // fact order: statements then conditions, conditions rotated by k; every third member sorted
                let nn = *n;
                let rot = (k % nn as u64) as usize;
                let perm: Vec<usize> = (0..nn).chain((0..nn).map(|i| nn + (i + rot) % nn)).collect();
                let text = l.text(Some(&perm), ("", "", ""));
                Case { tts: vec![], text, fms: l.conds.clone(), sorting: (k % 3) as usize, labels: l.labels.clone(), formulas: Some(std::sync::Arc::new(l)) }
            }
            Source::Literal3 => {
                let fms: Vec<Fm> = vec![literal(k as usize % LITERALS), literal(k as usize / LITERALS % LITERALS), literal(k as usize / (LITERALS * LITERALS))];
                let tts: Vec<TT> = fms.iter().map(|g| g.tt(3)).collect();
                let text = adf_text_fm(&fms, &names(3));
                Case { labels: names(3), tts, text, fms, sorting: 0, formulas: None }
            }
            Source::Spelled => {
                let pf = spelled_formulas();
                let f = pf[(k / 4) as usize].clone();
                let plain = names(2);
                let x = if k % 2 == 0 { f.text(&plain, ("", "")) } else { library_rendering(&f) };
                let labels = vec!["a".to_string(), "b".to_string(), x.clone()];
                let written = vec!["a".to_string(), "b".to_string(), format!("\"{}\"", x)];
                let fms = vec![f, Fm::Atom(2), Fm::not(Fm::Atom(0))];
                let tts: Vec<TT> = fms.iter().map(|g| g.tt(3)).collect();
                let mut text = format!("s(a).s(b).s({}).", written[2]);
                let order: [usize; 3] = if (k / 2) % 2 == 0 { [0, 1, 2] } else { [1, 0, 2] };
                for i in order {
                    text += &format!("ac({},{}).", written[i], fms[i].text(&written, ("", "")));
                }
                Case { tts, text, fms, sorting: 0, labels, formulas: None }
            }
            Source::Formulas(_, l) => {
                let phi = l[k as usize].clone();
                let ps = psi(k as usize);
                let tts = vec![phi.tt(2), ps.tt(2)];
                let fms = vec![phi, ps];
                let text = adf_text_fm(&fms, &names(2));
                Case { labels: names(tts.len()), tts, text, fms, sorting: 0, formulas: None }
            }
        }
    }
    pub fn describe(&self, k: u64) -> Value {
        let c = self.get(k);
        let mut v = json!({"type": "adf", "source": self.name(), "index": k, "tts": c.tts, "text": c.text, "sorting": c.sorting, "labels": c.labels});
        if let Source::Ring(n, first, step) = self {
            v["ring"] = json!({"n": n, "index": first + step * k});
        }
        if let Source::Sparse(first, _) = self {
            v["sparse"] = json!(first + 7 * k);
        }
        if let Source::Ladder = self {
            v["ladder"] = json!({"n": crate::mid::LADDER_SIZES[(k / 2) as usize], "variant": k % 2});
        }
        v
    }
}

/// the standard list of sources for the semantics properties
pub fn standard_sources(run: &Run, with_formulas: bool) -> Vec<Source> {
    let mut v = vec![
        // the ADF without statements
        Source::Fam(fam_a(0)),
        Source::FamAllWriters(fam_a(1)),
        Source::FamAllWriters(fam_a(2)),
        Source::Fam(fam_f(3, 2)),
        Source::Fam(fam_f(4, 1)),
        Source::FamPresented(fam_a(2)),
        Source::FamPresented(fam_f(3, 2)),
        Source::Spelled,
        Source::Literal3,
    ];
    if with_formulas {
        let l = if run.tier == Tier::Quick {
            formulas_depth(2, 2)
        } else {
            formulas_size(2, 7)
        };
        let name = if run.tier == Tier::Quick {
            "Phi(2): formulas of depth <= 2".to_string()
        } else {
            "Phi_s(7): formulas with <= 7 nodes".to_string()
        };
        v.push(Source::Formulas(name, std::sync::Arc::new(l)));
    }
    if run.tier == Tier::Quick {
        // one residue class modulo 128 of A(3) (index-derived writer tuples)
        let mut a3 = fam_a(3);
        a3.first = run.seed % 128;
        a3.step = 128;
        a3.name = format!("A(3) class {} mod 128", run.seed % 128);
        v.push(Source::Fam(a3));
        // one residue class modulo 256 of F(4,2) (four statements, conditions with up to two parents), compactly written
        let mut f42 = fam_f(4, 2);
        f42.first = run.seed % 256;
        f42.step = 256;
        f42.name = format!("F(4,2) class {} mod 256", run.seed % 256);
        v.push(Source::FamCompact(f42));
        // mid-size: ring ADFs with 6 and 7 statements, one residue class each (complete in the thorough tier)
        v.push(Source::Tern(4, 0, 1));
        v.push(Source::Tern(5, run.seed % 8, 8));
        v.push(Source::Ring(6, run.seed % 32, 32));
        v.push(Source::Ring(7, run.seed % 512, 512));
        v.push(Source::Ring(8, run.seed % 16384, 16384));
        v.push(Source::Sparse(run.seed * 1000, 24));
        v.push(Source::Ladder);
    } else {
        v.push(Source::Ladder);
        v.push(Source::Sparse(run.seed * 1000, 480));
        v.push(Source::Tern(4, 0, 1));
        v.push(Source::Tern(5, 0, 1));
        v.push(Source::Ring(6, 0, 1));
        v.push(Source::Ring(7, run.seed % 16, 16));
        v.push(Source::Ring(8, run.seed % 512, 512));
        v.push(Source::Fam(fam_a(3)));
        v.push(Source::Fam(fam_f(5, 1)));
        v.push(Source::Fam(fam_f(4, 2)));
    }
    v
}
