//! Explicit-state exploration of the diagram store (shared by C06, C07, C11, C13).
//!
//! State = a real `Bdd`; it is not Clone, so a state is restored by replaying its operation history on a fresh
//! object. Breadth-first by levels, deterministic: successors are merged in (state, operation) order.

use crate::bddx::*;
use crate::oracle::*;
use crate::report::*;
use adf_bdd::datatypes::{BddNode, Term, Var};
use adf_bdd::obdd::Bdd;
use serde_json::{json, Value};
use std::collections::HashSet;

#[derive(Clone, Copy, Debug, PartialEq, Eq)]
pub enum Op {
    Var(u8),
    Not(u16),
    Bin(u8, u16, u16),
    Restrict(u16, u8, bool),
    ReimportNodes,
    ReimportSerde,
    /// `Bdd::node(var, lo, hi)` called directly (public; used by the streaming checks only: the label need not respect
    /// the variable order, a mirror copies what it is sent)
    RawNode(u8, u16, u16),
}

pub const BIN_NAMES: [&str; 5] = ["and", "or", "imp", "iff", "xor"];

pub fn op_json(op: &Op) -> Value {
    match op {
        Op::Var(v) => json!({"op": "variable", "var": v}),
        Op::Not(h) => json!({"op": "not", "a": h}),
        Op::Bin(k, a, b) => json!({"op": BIN_NAMES[*k as usize], "a": a, "b": b}),
        Op::Restrict(h, v, b) => json!({"op": "restrict", "a": h, "var": v, "val": b}),
        Op::ReimportNodes => json!({"op": "reimport-nodes"}),
        Op::ReimportSerde => json!({"op": "reimport-serde"}),
        Op::RawNode(v, a, b) => json!({"op": "node", "var": v, "a": a, "b": b}),
    }
}

pub fn op_from_json(v: &Value) -> Option<Op> {
    let name = v["op"].as_str()?;
    let a = v["a"].as_u64().unwrap_or(0) as u16;
    let b = v["b"].as_u64().unwrap_or(0) as u16;
    Some(match name {
        "variable" => Op::Var(v["var"].as_u64()? as u8),
        "not" => Op::Not(a),
        "restrict" => Op::Restrict(a, v["var"].as_u64()? as u8, v["val"].as_bool()?),
        "reimport-nodes" => Op::ReimportNodes,
        "reimport-serde" => Op::ReimportSerde,
        "node" => Op::RawNode(v["var"].as_u64()? as u8, a, b),
        _ => Op::Bin(BIN_NAMES.iter().position(|n| *n == name)? as u8, a, b),
    })
}

pub fn hist_json(vars: usize, init: &Value, h: &[Op]) -> Value {
    json!({"type": "store_ops", "vars": vars, "initial": init, "ops": h.iter().map(op_json).collect::<Vec<_>>()})
}

/// applies one operation to the real object; returns the handle an operation yields (None for re-imports)
pub fn apply(bdd: &mut Bdd, op: &Op) -> Option<Term> {
    match *op {
        Op::Var(v) => Some(bdd.variable(Var(v as usize))),
        Op::Not(h) => Some(bdd.not(Term(h as usize))),
        Op::Bin(k, a, b) => {
            let (a, b) = (Term(a as usize), Term(b as usize));
            Some(match k {
                0 => bdd.and(a, b),
                1 => bdd.or(a, b),
                2 => bdd.imp(a, b),
                3 => bdd.iff(a, b),
                _ => bdd.xor(a, b),
            })
        }
        Op::Restrict(h, v, b) => Some(bdd.restrict(Term(h as usize), Var(v as usize), b)),
        Op::RawNode(v, lo, hi) => Some(bdd.node(Var(v as usize), Term(lo as usize), Term(hi as usize))),
        Op::ReimportNodes => {
            *bdd = Bdd::from(bdd.nodes.clone());
            None
        }
        Op::ReimportSerde => {
            let text = serde_json::to_string(&*bdd).expect("a store must be serialisable");
            let mut b: Bdd = serde_json::from_str(&text).expect("an exported store must be importable");
            b.fix_import();
            *bdd = b;
            None
        }
    }
}

/// the reference result of an operation on truth tables
pub fn expect_tt(op: &Op, tts: &[TT], n: usize) -> Option<TT> {
    match *op {
        Op::Var(v) => Some(var_tt(n, v as usize)),
        Op::Not(h) => Some(!tts[h as usize] & full(n)),
        Op::Bin(k, a, b) => {
            let (x, y) = (tts[a as usize], tts[b as usize]);
            Some(
                match k {
                    0 => x & y,
                    1 => x | y,
                    2 => !x | y,
                    3 => !(x ^ y),
                    _ => x ^ y,
                } & full(n),
            )
        }
        Op::Restrict(h, v, b) => Some(cofactor(tts[h as usize], n, v as usize, b)),
        _ => None,
    }
}

pub fn alphabet(vars: usize, len: usize, reimports: bool) -> Vec<Op> {
    let mut ops = vec![];
    for v in 0..vars {
        ops.push(Op::Var(v as u8));
    }
    for h in 0..len {
        ops.push(Op::Not(h as u16));
    }
    for k in 0..5u8 {
        for a in 0..len {
            for b in 0..len {
                ops.push(Op::Bin(k, a as u16, b as u16));
            }
        }
    }
    for h in 0..len {
        for v in 0..vars {
            for b in [false, true] {
                ops.push(Op::Restrict(h as u16, v as u8, b));
            }
        }
    }
    if reimports {
        ops.push(Op::ReimportNodes);
        ops.push(Op::ReimportSerde);
    }
    ops
}

#[derive(Clone, Copy, Default)]
pub struct Flags {
    pub canonical: bool, // C06: I1, I2, re-import identity
    pub functions: bool, // C07: result function, append-only, old handles unchanged
    pub memo: bool,      // C11: I4
    pub queries: bool,   // C13: public queries on every node
}

#[derive(Clone)]
pub enum Init {
    Empty,
    /// an empty store that streams its nodes to a listener which has gone away (every send fails and is only logged)
    GoneListener,
    /// the store produced by building an ADF (native or bridged) from text
    Adf(String, bool),
}

impl Init {
    pub fn json(&self) -> Value {
        match self {
            Init::Empty => json!("empty"),
            Init::GoneListener => json!("empty, with a listener that has gone away"),
            Init::Adf(t, bridged) => json!({"adf": t, "bridged": bridged}),
        }
    }
    pub fn from_json(v: &Value) -> Init {
        if let Some(t) = v.get("adf").and_then(|x| x.as_str()) {
            Init::Adf(t.to_string(), v["bridged"].as_bool().unwrap_or(false))
        } else if v.as_str().map(|s| s.contains("listener")).unwrap_or(false) {
            Init::GoneListener
        } else {
            Init::Empty
        }
    }
    pub fn build(&self) -> Bdd {
        match self {
            Init::Empty => Bdd::new(),
            Init::GoneListener => {
                #[cfg(feature = "frontend")]
                {
                    let (s, r) = crossbeam_channel::unbounded();
                    drop(r);
                    Bdd::with_sender(s)
                }
                #[cfg(not(feature = "frontend"))]
                Bdd::new()
            }
            Init::Adf(text, bridged) => {
                let parser = adf_bdd::parser::AdfParser::default();
                parser.parse()(text).expect("initial ADF text must parse");
                if *bridged {
                    let bd = adf_bdd::adfbiodivine::Adf::from_parser(&parser);
                    adf_bdd::adf::Adf::from_biodivine(&bd).bdd
                } else {
                    adf_bdd::adf::Adf::from_parser(&parser).bdd
                }
            }
        }
    }
}

pub fn rebuild(init: &Init, hist: &[Op]) -> Bdd {
    let mut b = init.build();
    for op in hist {
        apply(&mut b, op);
    }
    b
}

fn key_of(bdd: &Bdd, with_memo: bool) -> Vec<u8> {
    let mut k = Vec::with_capacity(bdd.nodes.len() * 3 + 8);
    for nd in bdd.nodes.iter().skip(2) {
        k.push(nd.var().value() as u8);
        k.push(nd.lo().value() as u8);
        k.push(nd.hi().value() as u8);
    }
    // the unique table belongs to the state: an object whose table differs from the node vector has other futures
    let d = bdd.verif_dump();
    k.push(254);
    for (nd, t) in &d.cache {
        k.extend_from_slice(&[nd.var().value() as u8, nd.lo().value() as u8, nd.hi().value() as u8, t.value() as u8]);
    }
    // ... and so do the per-node bookkeeping tables (variable lists, cached counts): a re-imported object has the same
    // node table as the exported one but rebuilt bookkeeping, and what is built on it afterwards depends on that
    k.push(253);
    if let Some(vd) = &d.var_deps {
        for l in vd {
            let mut l: Vec<u8> = l.iter().map(|v| v.value() as u8).collect();
            l.sort();
            k.push(l.len() as u8);
            k.extend_from_slice(&l);
        }
    }
    k.push(252);
    for (t, (mc, pc, depth)) in &d.count_cache {
        k.push(t.value() as u8);
        for x in [mc.cmodels, mc.models, pc.cmodels, pc.models, *depth] {
            k.extend_from_slice(&(x as u32).to_le_bytes());
        }
    }
    if with_memo {
        k.push(255);
        for ((i, t, e), r) in &d.ite_cache {
            k.extend_from_slice(&[i.value() as u8, t.value() as u8, e.value() as u8, r.value() as u8]);
        }
        k.push(255);
        for ((t, v, b), r) in &d.restrict_cache {
            k.extend_from_slice(&[t.value() as u8, v.value() as u8, *b as u8, r.value() as u8]);
        }
    }
    k
}

/// checks of one node table / object (state invariants); returns the truth tables if the table is readable
pub fn check_state(bdd: &Bdd, vars: usize, fl: &Flags, out: &mut Vec<(String, String)>) -> Option<Vec<TT>> {
    if fl.canonical {
        if let Err(e) = check_structure(&bdd.nodes) {
            out.push(("store:not-canonical".into(), e));
        }
    }
    let tts = match all_tts(&bdd.nodes, vars) {
        Ok(t) => t,
        Err(e) => {
            out.push(("store:malformed".into(), e));
            return None;
        }
    };
    if fl.canonical {
        if let Err(e) = check_semantic_canonicity(&bdd.nodes, vars) {
            out.push(("store:same-function-two-handles".into(), e));
        }
        // the unique table must be exactly the inverse of the node vector, or a later operation creates a duplicate
        let d = bdd.verif_dump();
        if d.cache.len() != bdd.nodes.len() - 2 {
            out.push(("store:unique-table".into(), format!("unique table has {} entries for {} inner nodes", d.cache.len(), bdd.nodes.len() - 2)));
        } else {
            for (nd, t) in &d.cache {
                if t.value() >= bdd.nodes.len() || bdd.nodes[t.value()] != *nd {
                    out.push(("store:unique-table".into(), format!("unique table maps {} to {} which holds another node", nd, t)));
                    break;
                }
            }
        }
    }
    if fl.memo {
        let f = features();
        let d = bdd.verif_dump();
        if let Err(e) = check_dump(&bdd.nodes, &tts, vars, &d, !f.adhoccounting || f.adhoccountmodels, f.adhoccounting) {
            out.push(("memo:wrong-entry".into(), e));
        }
    }
    if fl.queries {
        query_checks(bdd, &tts, vars, out);
    }
    Some(tts)
}

/// C13 on every node of a store: counts, depth, supports against independent recounts
pub fn query_checks(bdd: &Bdd, tts: &[TT], vars: usize, out: &mut Vec<(String, String)>) {
    let rc = recount(&bdd.nodes);
    let f = features();
    for h in 0..bdd.nodes.len() {
        let t = Term(h);
        for memo in [false, true] {
            match guard(|| bdd.paths(t, memo)) {
                Err(m) => out.push(("query:panic".into(), format!("paths({},{}) panicked: {}", h, memo, m))),
                Ok(p) => {
                    if p.cmodels as u128 != rc[h].0 || p.models as u128 != rc[h].1 {
                        out.push((
                            "query:paths".into(),
                            format!("paths({}, memo={}) = ({},{}) but the diagram has ({},{}) paths to bottom/top", h, memo, p.cmodels, p.models, rc[h].0, rc[h].1),
                        ));
                    }
                }
            }
            // memoised model counts are documented not to work with adhoccounting but without adhoccountmodels
            if memo && f.adhoccounting && !f.adhoccountmodels {
                continue;
            }
            match guard(|| bdd.models(t, memo)) {
                Err(m) => out.push(("query:panic".into(), format!("models({},{}) panicked: {}", h, memo, m))),
                Ok(m) => {
                    let sat = tts[h].count_ones() as u128;
                    let unsat = (1u128 << vars) - sat;
                    if (m.models as u128) * unsat != (m.cmodels as u128) * sat || m.models + m.cmodels == 0 {
                        out.push((
                            "query:models".into(),
                            format!("models({}, memo={}) = ({},{}) is not in the ratio {}:{} of counter-models to models", h, memo, m.cmodels, m.models, unsat, sat),
                        ));
                    }
                }
            }
        }
        match guard(|| bdd.max_depth(t)) {
            Err(m) => out.push(("query:panic".into(), format!("max_depth({}) panicked: {}", h, m))),
            Ok(d) => {
                if d != rc[h].2 {
                    out.push(("query:depth".into(), format!("max_depth({}) = {} but the longest path has {} decisions", h, d, rc[h].2)));
                }
            }
        }
        match guard(|| bdd.var_dependencies(t)) {
            Err(m) => out.push(("query:panic".into(), format!("var_dependencies({}) panicked: {}", h, m))),
            Ok(s) => {
                let mut have: Vec<usize> = s.iter().map(|v| v.value()).collect();
                have.sort();
                let want = support(tts[h], vars);
                if have != want {
                    out.push(("query:dependencies".into(), format!("var_dependencies({}) = {:?} but the function depends on {:?}", h, have, want)));
                }
            }
        }
    }
}

/// checks of one transition
#[allow(clippy::too_many_arguments)]
pub fn check_transition(
    before_nodes: &[BddNode],
    before_tts: &[TT],
    op: &Op,
    res: Option<Term>,
    after: &Bdd,
    vars: usize,
    fl: &Flags,
    out: &mut Vec<(String, String)>,
) -> Option<Vec<TT>> {
    let tts = check_state(after, vars, fl, out)?;
    match op {
        Op::ReimportNodes | Op::ReimportSerde => {
            if (fl.canonical || fl.functions) && after.nodes != before_nodes {
                out.push((
                    "reimport:renumbered".into(),
                    format!("re-imported node table differs: {:?} vs {:?}", nodes_json(&after.nodes), nodes_json(before_nodes)),
                ));
            }
        }
        _ => {
            if fl.functions || fl.canonical {
                if after.nodes.len() < before_nodes.len() || after.nodes[..before_nodes.len()] != *before_nodes {
                    out.push(("op:table-rewritten".into(), "existing entries of the node table changed (the table must be append-only)".into()));
                } else if tts[..before_tts.len()] != *before_tts {
                    out.push(("op:old-handle-changed".into(), "a previously issued handle denotes another function now".into()));
                }
            }
            if fl.functions {
                let r = res.expect("operation yields a handle");
                let want = expect_tt(op, before_tts, vars).unwrap();
                if r.value() >= tts.len() {
                    out.push(("op:dangling-result".into(), format!("result handle {} is not in the node table", r)));
                } else if tts[r.value()] != want {
                    out.push((
                        "op:wrong-function".into(),
                        format!("{} returned handle {} with table {:#x}, expected {:#x}", op_json(op), r, tts[r.value()], want),
                    ));
                }
            }
            if fl.canonical {
                // same function => same handle: the result must be the unique handle of its function
                if let (Some(r), Some(want)) = (res, expect_tt(op, before_tts, vars)) {
                    if r.value() < tts.len() && tts[r.value()] != want {
                        out.push((
                            "op:handle-of-another-function".into(),
                            format!("{} was given handle {}, which denotes {:#x}, although the formula denotes {:#x}: same handle for different functions", op_json(op), r, tts[r.value()], want),
                        ));
                    }
                    if r.value() < tts.len() {
                        if let Some(first) = tts.iter().position(|t| *t == want) {
                            if first != r.value() && tts[r.value()] == want {
                                out.push(("op:second-handle".into(), format!("{} returned handle {} although handle {} already denotes the same function", op_json(op), r, first)));
                            }
                        }
                    }
                }
            }
        }
    }
    Some(tts)
}

pub struct Explore {
    pub vars: usize,
    pub depth: usize,
    pub with_memo_key: bool,
    pub reimports: bool,
    pub flags: Flags,
    pub init: Init,
    pub name: String,
}

#[derive(Default)]
pub struct ExpStats {
    pub states: u64,
    pub transitions: u64,
    pub max_nodes: usize,
    pub completed_depth: usize,
}

struct Cand {
    state: u32,
    oi: u32,
    op: Op,
    key: u128,
}

#[derive(Default)]
struct WorkerOut {
    cands: Vec<Cand>,
    /// keys this worker has already proposed at this level (it meets its states in increasing order, so the first
    /// proposal of a key is the one with the smallest (state, operation) - dropping the later ones changes nothing)
    proposed: HashSet<u128>,
    transitions: u64,
    max_nodes: usize,
}

/// States are merged on a 128-bit hash of their canonical key (SipHash with fixed keys over the key and over the key
/// with a suffix): with 10^8 states the probability of any collision is below 10^-22, and the table stays small
/// enough for the deep bounds of the thorough tier.
fn digest(key: &[u8]) -> u128 {
    use std::hash::Hasher;
    let mut a = std::collections::hash_map::DefaultHasher::new();
    a.write(key);
    let mut b = std::collections::hash_map::DefaultHasher::new();
    b.write(key);
    b.write(&[0xA5, 0x5A, 0x3C]);
    ((a.finish() as u128) << 64) | b.finish() as u128
}

/// no level may grow beyond this many new states (memory); the search then ends with the depth it completed
const MAX_FRONTIER: usize = 6_000_000;

/// breadth-first exploration; every violation is reported to `run`
pub fn explore(run: &Run, cfg: &Explore) -> ExpStats {
    explore_with(run, cfg, true)
}

/// `parallel == false`: runs inline on the calling thread and records no family (for use inside a worker)
pub fn explore_with(run: &Run, cfg: &Explore, parallel: bool) -> ExpStats {
    let mut stats = ExpStats::default();
    let mut seen: HashSet<u128> = HashSet::new();
    let init_json = cfg.init.json();
    let b0 = match guard(|| cfg.init.build()) {
        Ok(b) => b,
        Err(m) => {
            run.violation("store:init-panic", m, hist_json(cfg.vars, &init_json, &[]));
            return stats;
        }
    };
    {
        let mut out = vec![];
        check_state(&b0, cfg.vars, &cfg.flags, &mut out);
        for (k, m) in out {
            run.violation(&k, format!("{} in the initial store {}", m, init_json), hist_json(cfg.vars, &init_json, &[]));
        }
    }
    seen.insert(digest(&key_of(&b0, cfg.with_memo_key)));
    stats.states = 1;
    let mut frontier: Vec<Vec<Op>> = vec![vec![]];
    for level in 0..cfg.depth {
        if frontier.is_empty() {
            break;
        }
        let fr = &frontier;
        let seen_ref = &seen;
        let expand = |w: &mut WorkerOut, si: u64| {
            run.heartbeat();
                if run.violations_so_far() > 300 {
                    return;
                }
                let hist = &fr[si as usize];
                let base = match guard(|| rebuild(&cfg.init, hist)) {
                    Ok(b) => b,
                    Err(m) => machinery_error(&format!("a history that was executed before panics on replay: {}", m)),
                };
                let before_nodes = base.nodes.clone();
                let Ok(before_tts) = all_tts(&before_nodes, cfg.vars) else {
                    return; // already reported when the state was first reached
                };
                w.max_nodes = w.max_nodes.max(before_nodes.len());
                let ops = alphabet(cfg.vars, before_nodes.len(), cfg.reimports);
                let mut cur = Some(base);
                // operations applied to `cur` since it was rebuilt which left the node table unchanged (they may
                // have filled memo tables): the object is reused for the next operation, which explores the
                // operation from a memo-warm variant of the same state; the replay record names them all
                let mut extra: Vec<Op> = vec![];
                for (oi, op) in ops.iter().enumerate() {
                    let mut b = match cur.take() {
                        Some(b) => b,
                        None => {
                            extra.clear();
                            rebuild(&cfg.init, hist)
                        }
                    };
                    w.transitions += 1;
                    let res = guard(|| apply(&mut b, op));
                    let mut out = vec![];
                    let mut reusable = false;
                    match res {
                        Err(m) => out.push(("op:panic".to_string(), format!("{} panicked: {}", op_json(op), m))),
                        Ok(r) => {
                            if check_transition(&before_nodes, &before_tts, op, r, &b, cfg.vars, &cfg.flags, &mut out).is_some() {
                                if b.nodes.len() == before_nodes.len() {
                                    reusable = !cfg.with_memo_key && r.is_some();
                                }
                                let key = digest(&key_of(&b, cfg.with_memo_key));
                                if !seen_ref.contains(&key) && w.proposed.insert(key) {
                                    w.cands.push(Cand { state: si as u32, oi: oi as u32, op: *op, key });
                                }
                            }
                        }
                    }
                    if !out.is_empty() {
                        reusable = false;
                        let mut h2 = hist.clone();
                        if !extra.is_empty() {
                            // prefer the short history if the operation also fails on the exact state
                            let mut b2 = rebuild(&cfg.init, hist);
                            let mut out2 = vec![];
                            match guard(|| apply(&mut b2, op)) {
                                Err(m) => out2.push(("op:panic".to_string(), m)),
                                Ok(r) => {
                                    check_transition(&before_nodes, &before_tts, op, r, &b2, cfg.vars, &cfg.flags, &mut out2);
                                }
                            }
                            if out2.is_empty() {
                                h2.extend(extra.iter().copied());
                            }
                        }
                        h2.push(*op);
                        for (k, m) in out {
                            run.violation(&k, format!("{} after {} operation(s) on {} variables", m, h2.len(), cfg.vars), hist_json(cfg.vars, &init_json, &h2));
                        }
                    }
                    if reusable {
                        extra.push(*op);
                        cur = Some(b);
                    }
                }
        };
        let (outs, done) = if parallel {
            run.par_for(
                &format!("{} level {}", cfg.name, level),
                fr.len() as u64,
                WorkerOut::default,
                expand,
                &|si| hist_json(cfg.vars, &init_json, &fr[si as usize]),
            )
        } else {
            let mut w = WorkerOut::default();
            for si in 0..fr.len() as u64 {
                expand(&mut w, si);
            }
            (vec![w], fr.len() as u64)
        };
        let mut cands: Vec<Cand> = vec![];
        for o in outs {
            stats.transitions += o.transitions;
            stats.max_nodes = stats.max_nodes.max(o.max_nodes);
            cands.extend(o.cands);
        }
        if done < fr.len() as u64 {
            run.add_family(FamilyCov {
                name: format!("{} depth {}", cfg.name, level + 1),
                size: fr.len() as u64,
                done,
                exhaustive: false,
                note: format!("time budget: only {} of {} states of depth {} were expanded", done, fr.len(), level),
            });
            return stats;
        }
        cands.sort_by_key(|c| (c.state, c.oi));
        let mut next = vec![];
        for c in cands {
            if seen.insert(c.key) {
                let mut h = frontier[c.state as usize].clone();
                h.push(c.op);
                next.push(h);
            }
        }
        stats.states += next.len() as u64;
        stats.completed_depth = level + 1;
        if next.len() > MAX_FRONTIER && level + 1 < cfg.depth {
            run.add_family(FamilyCov {
                name: format!("{}: all operation sequences up to depth {} ({} variables)", cfg.name, level + 1, cfg.vars),
                size: stats.states,
                done: stats.states,
                exhaustive: true,
                note: format!("{} transitions; depth {} of the planned {} completed - the next level would start from {} states (cap {})", stats.transitions, level + 1, cfg.depth, next.len(), MAX_FRONTIER),
            });
            return stats;
        }
        frontier = next;
    }
    if !parallel {
        return stats;
    }
    run.add_family(FamilyCov {
        name: format!("{}: all operation sequences up to depth {} ({} variables)", cfg.name, cfg.depth, cfg.vars),
        size: stats.states,
        done: stats.states,
        exhaustive: true,
        note: format!("{} transitions, largest node table {}", stats.transitions, stats.max_nodes),
    });
    stats
}

/// replays a stored history with all checks on
pub fn replay(c: &Value, fl: &Flags) -> Vec<(String, String)> {
    let vars = c["vars"].as_u64().unwrap_or(3) as usize;
    let init = Init::from_json(&c["initial"]);
    let ops: Vec<Op> = c["ops"].as_array().map(|a| a.iter().filter_map(op_from_json).collect()).unwrap_or_default();
    let mut out = vec![];
    let mut b = match guard(|| init.build()) {
        Ok(b) => b,
        Err(m) => return vec![("store:init-panic".into(), m)],
    };
    let mut tts = match check_state(&b, vars, fl, &mut out) {
        Some(t) => t,
        None => return out,
    };
    for op in &ops {
        let before = b.nodes.clone();
        match guard(|| apply(&mut b, op)) {
            Err(m) => {
                out.push(("op:panic".into(), format!("{} panicked: {}", op_json(op), m)));
                return out;
            }
            Ok(r) => match check_transition(&before, &tts, op, r, &b, vars, fl, &mut out) {
                Some(t) => tts = t,
                None => return out,
            },
        }
    }
    out
}
