#!/usr/bin/env python3
"""Generates MANIFEST.json from the per-property table below (keeps the file consistent and valid)."""
import json, subprocess, os

HERE = os.path.dirname(os.path.abspath(__file__))

P = {}

def prop(pid, technique, text, note, design, engine="adfmc", implemented=True):
    P[pid] = dict(technique=technique, text=text, note=note, design=design, engine=engine, implemented=implemented)

ORACLE = "Trusted: the reference model in adfmc/src/oracle.rs (truth tables, brute force over all 2^n / 3^n interpretations) and the Rust compiler; bound: the named finite families (<= 5 statements), nothing is sampled."

prop("C01", "exhaustive enumeration of complete ADF families on the real back-ends vs. brute-force least fixpoint",
     "Every ADF of the complete families A(1), A(2) (all writer tuples), F(3,2), F(4,1), all formulas of depth <= 2 and one residue class of A(3) (thorough: all 2^24 ADFs of A(3), F(5,1), F(4,2), formulas with <= 7 nodes) is built on native, biodivine, hybrid(+/- pre-grounding) and bridged back-ends; each grounded vector is compared with the least fixpoint computed from the definition. Small-scope exhaustive: no ADF inside the bound can violate the property unnoticed.",
     ORACLE, "DESIGN.md 4 C01")
prop("C02", "exhaustive enumeration of complete ADF families; complete() multiset vs. all 3^n fixpoints of Gamma",
     "Same families; the list returned by complete() on every back-end is compared as a multiset with {v | Gamma(v)=v} enumerated over all 3^n interpretations; the first element must be the grounded interpretation.",
     ORACLE, "DESIGN.md 4 C02")
prop("C03", "exhaustive enumeration of complete ADF families; every stable variant vs. reduct-based definition",
     "Same families; plain, pre-filter and both rewriting variants on native, biodivine, hybrid(+/-) and bridged objects are each compared as multisets with the stable models of the definition (reduct + least fixpoint), never with each other.",
     ORACLE, "DESIGN.md 4 C03")
prop("C04", "exhaustive enumeration of complete ADF families; counting-guided searches vs. definition",
     "Same families (thorough adds all 24M ADFs of F(4,2), where the search branches three deep); heuristics a and b on native, hybrid(+/-) and bridged objects, also b after a on one object; verdict kinds missing / invented / duplicate.",
     ORACLE, "DESIGN.md 4 C04")


def main():
    checks = []
    na = []
    for pid in ["C%02d" % i for i in range(1, 21)]:
        if pid in P and P[pid]["implemented"]:
            e = P[pid]
            checks.append({
                "property_id": pid,
                "quick_cmd": "./run check %s --tier quick" % pid,
                "thorough_cmd": "./run check %s --tier thorough" % pid,
                "evidence_file": "/verif/evidence/%s.json" % pid,
                "replay_cmd_template": "./run replay {path}",
                "engine": e["engine"],
                "level_claimed": {"category": "model_checking", "text": e["text"], "design_ref": e["design"]},
                "level_note": e["note"],
                "technique": e["technique"],
            })
        else:
            na.append({"property_id": pid, "reason": "check not built yet in this round (work in progress; design in DESIGN.md section 4) - not a statement that the technique cannot apply"})
    hooks = subprocess.run(["git", "-C", "/repo", "log", "--format=%H %s", "--grep=^verif hook"], capture_output=True, text=True).stdout.split("\n")
    hooks = [h.split(" ")[0] for h in hooks if h.strip()]
    m = {
        "version": 1,
        "setup_cmd": "./run setup",
        "hooks": {
            "guard": "--cfg adf_obdd_verif (rustc cfg flag, set through RUSTFLAGS / adfmc/.cargo/config.toml)",
            "enable": "cd /verif/adfmc && cargo build --release --offline   # .cargo/config.toml sets rustflags = [\"--cfg\", \"adf_obdd_verif\"] and target-dir /verif/.build/hooked; the library is linked by path from /repo/lib",
            "baseline_off_cmd": "cd /repo && cargo test --workspace --no-fail-fast --offline",
            "source_commits": hooks,
            "add_only": True,
        },
        "engines": [
            {"name": "adfmc", "path": "/verif/adfmc", "serves_properties": [c["property_id"] for c in checks if c["engine"] == "adfmc"],
             "kind_free_text": "Rust; stateless/explicit-state bounded exhaustive exploration of the real library and CLI against definitional oracles"},
            {"name": "srvmc", "path": "/verif/srvmc", "serves_properties": [c["property_id"] for c in checks if c["engine"] == "srvmc"],
             "kind_free_text": "Python; explicit-state and controlled-scheduler exploration of the real server binary over an in-harness MongoDB wire-protocol stub"},
        ],
        "checks": checks,
        "not_applicable": na,
        "notes": "Entry point ./run (see DESIGN.md 2.4). Exit 0 = held (KNOWN-FINDING lines for findings listed in known_findings.json), 1 = VIOLATION line, 2 = MACHINERY-ERROR (not a verdict).",
    }
    json.dump(m, open(os.path.join(HERE, "MANIFEST.json"), "w"), indent=1)
    print("checks:", [c["property_id"] for c in checks], "n/a:", [x["property_id"] for x in na])


if __name__ == "__main__":
    main()
