#!/usr/bin/env python3
"""Generates MANIFEST.json from the per-property table below (keeps the file consistent and valid)."""
import json, subprocess, os

HERE = os.path.dirname(os.path.abspath(__file__))

P = {}

def prop(pid, technique, text, note, design, engine="adfmc", implemented=True):
    P[pid] = dict(technique=technique, text=text, note=note, design=design, engine=engine, implemented=implemented)

ORACLE = "Trusted: the reference model in adfmc/src/oracle.rs (truth tables, brute force over all 2^n / 3^n interpretations) and the Rust compiler; bound: the named finite families (<= 5 statements), nothing is sampled."

prop("C01", "exhaustive enumeration of complete ADF families on the real back-ends vs. brute-force least fixpoint",
     "Every ADF of the complete families A(1), A(2) (all writer tuples), F(3,2), F(4,1), their presented variants (ac facts permuted against the statements, labels both sortings reorder, sorting applied), all formulas of depth <= 2, one residue class of A(3) and of F(4,2), and residue classes of the ring families R(6), R(7), R(8) (6-8 statements, oracle from the formulas by brute force over all 3^n interpretations) (thorough: all 2^24 ADFs of A(3), F(5,1), F(4,2), all of R(6), formulas with <= 7 nodes) is built on native, biodivine, hybrid(+/- pre-grounding) and bridged back-ends; each grounded vector is compared with the least fixpoint computed from the definition; plus the CLI flag of the semantics x 3 modes x 3 sortings on label-sensitive files. Small-scope exhaustive: no ADF inside the bound can violate the property unnoticed. Round 2-4 additions: the ADF without statements A(0); sparse ADFs of 70-270 statements; labels that spell formulas; literally written conditions Lit(3) incl. negation chains; objects whose listener has gone away; second instantiations from a re-sorted parser; a repetition of the small families with a logger at level TRACE installed.",
     ORACLE, "DESIGN.md 4 C01")
prop("C02", "exhaustive enumeration of complete ADF families; complete() multiset vs. all 3^n fixpoints of Gamma",
     "Same families and CLI clause (--com); the list returned by complete() on every back-end is compared as a multiset with {v | Gamma(v)=v} enumerated over all 3^n interpretations; the first element must be the grounded interpretation.",
     ORACLE, "DESIGN.md 4 C02")
prop("C03", "exhaustive enumeration of complete ADF families; every stable variant vs. reduct-based definition",
     "Same families and CLI clause (--stm, --stmpre, --stmrew, --stmrew2); plain, pre-filter and both rewriting variants on native, biodivine, hybrid(+/-) and bridged objects are each compared as multisets with the stable models of the definition (reduct + least fixpoint), never with each other.",
     ORACLE, "DESIGN.md 4 C03")
prop("C04", "exhaustive enumeration of complete ADF families; counting-guided searches vs. definition",
     "Same families and CLI clause (--stmca, --stmcb) (thorough adds all 24M ADFs of F(4,2), where the search branches three deep); heuristics a and b on native, hybrid(+/-) and bridged objects, also b after a on one object; verdict kinds missing / invented / duplicate.",
     ORACLE, "DESIGN.md 4 C04")

STORE = "Trusted: truth tables read from the public node table by an independent walker (adfmc/src/bddx.rs); bound: <= 3-4 variables and the stated depth; states with equal node tables are merged (justified by the memo invariant checked on every transition in C11)."

prop("C05", "stateless exploration of all heuristic choice sequences (deviation-bounded DFS with replay) of the real nogood search + exhaustive families for built-ins + RNG outcome-class cover for Rand",
     "The heuristic is the environment of the search and is explored like a scheduler: a scripted Heuristic::Custom offers (undecided statement x {T,F}); every choice sequence (all of A(1), A(2), F(3,1); all with <= 2 deviations on F(3,2) and F(4,1); thorough: all of F(3,2) and a residue class of A(3), <= 3 deviations on F(4,1), <= 1 on A(3)) is executed on a fresh object in both modes and compared with the definition; termination through the cfg(adf_obdd_verif) step budget; channel closed after return. Built-in heuristics through all three entry points on native and hybrid objects over complete families incl. ring ADFs with 6-8 statements; bounded(0/1/2) result channels with a late consumer; Rand with the first seed of every RNG outcome-class prefix; CLI --stmng/--twoval x every --heu value.",
     ORACLE + " Termination = step budget of 20000 loop iterations (largest observed value is in the evidence). Rand is covered by outcome-class prefixes, not by all seeds.", "DESIGN.md 4 C05")
prop("C06", "explicit-state breadth-first search over the real diagram store (state restored by history replay), invariants in every state",
     "All operation sequences (variable, not, and/or/imp/iff/xor over all handle pairs, restrict, re-import through node list and through serde+fix_import) up to depth 6 on 2 variables and depth 5 on 3 variables (thorough: 7/6 and 4 variables), from the empty store and from the stores built for every ADF of A(2) and F(3,1) (native and bridged); states keyed by node table + unique table; in every state: constants at 0/1, every node reduced, ordered and unique, unique table = inverse of the node vector, all handles pairwise different functions, every operation returns the unique handle of ITS function, re-imports reproduce the table.",
     STORE, "DESIGN.md 4 C06")
prop("C07", "explicit-state search over the real diagram store; every transition compared with the reference operation on truth tables; flat cold-cache sweep of all operand pairs",
     "Same exploration; per transition the returned handle's truth table equals the reference operation on the operands' tables (restriction = cofactor), the node table only grows and old handles keep their function; warm and cold memo tables (every (state, operation) pair, operations re-executed from memo-warm variants). Plus all 256x256 operand pairs over 3 variables x 5 connectives, negation and all restrictions on fresh stores.",
     STORE, "DESIGN.md 4 C07")
prop("C08", "exhaustive enumeration of the documented language up to bounds (formulas, label spellings, layouts, fact orders) and of all single-edit mutants in the four named error categories",
     "Accept side: every formula of depth <= 2 (thorough: <= 7 nodes), 40 formulas x all ordered pairs of 27 label spellings, x all 64 layouts, all fact orders: accepted, labels verbatim in first-declaration order, ac_at equals the expected AST, the native diagram denotes the written function. Reject side: every bracket/terminator/arity/trailing-garbage mutant of every accepted text that an independent blank-permissive recogniser rejects must give Err without panic; the CLI (3 modes) must exit non-zero with empty stdout on a slice of them.",
     "Trusted: the formula evaluator and the independent recogniser of the documented grammar (adfmc/src/c08.rs), which is deliberately permissive so that only definitely-invalid texts are asserted. The web clause of the property is exercised in C16.", "DESIGN.md 4 C08")
prop("C09", "per-program validation with complete enumeration of each condition's assignment space (all small programs of the families + a deterministic family of large ADFs)",
     "Every program (all formulas of depth <= 2 as small ADFs, A(2) x all writers, F(3,2), 54 large ADFs with 12-48 statements in quick / 540 in thorough) x 3 sortings (and once more after re-sorting the same parser object) is compiled natively, bridged, and bridged after pre-grounding; each statement's stored handle is walked through the public node table for EVERY assignment of the condition's syntactic support (<= 1024) and compared with the written formula (pre-grounded: with the definitional grounded values substituted); reachable variables lie in the support; store structurally canonical.",
     "Trusted: the formula evaluator and the large-ADF three-valued oracle (validity by enumeration of each support, adfmc/src/large.rs).", "DESIGN.md 4 C09")
prop("C10", "metamorphic exploration: exhaustive enumeration of presentations (fact permutations x sortings x renamings x layouts) on all back-ends, answers read label by label",
     "A(2) x all 24 fact orders x 3 sortings x 9 renamings (incl. escape images, prefixes / case variants, labels that read like formulas) x 2 layouts; Lit(3) x 4 orders x 3 sortings x 4 renamings; F(3,1) x all 720 orders; F(3,2) x fixed orders; large ADFs x 14 orders x 3 sortings; native, biodivine, hybrid. Grounded and the multisets of complete / stable / two-valued models as maps label -> T/F/u equal the definition (small) or the first presentation (large); after varsort_lexi labels are byte-wise sorted and the dictionary agrees.",
     ORACLE + " Large instances: complete models only when <= 5 statements stay undecided, stable/two-valued when <= 9.", "DESIGN.md 4 C10")
prop("C11", "explicit-state search over the store with a memo-table audit on every transition + enumeration of ALL public call sequences up to length 3 on one Adf object, each replayed twice",
     "Store: every ite/restrict memo entry, variable list and cached count is recomputed from the node table on every transition of the breadth-first search (depth 6 / 5; a second search keyed by node table + memo tables). ADF objects: for every ADF of A(2) and F(3,1), every sequence over a 15-call alphabet (all semantics, counting, nogood search with four heuristics incl. seeded Rand, formula building, restriction) up to length 3 (bridged: 2; a class of F(3,2): 2; thorough 4/3): last answer = fresh object's answer, earlier answers still read the same, memo tables right, and a second run on a fresh object reproduces raw answers and node table. Extended alphabet (abandoned enumerations, fix_import() on a live object) in all sequences that contain one of them; seeded Rand search around the repair step; a store whose listener has gone away. Mid-size objects: residue classes of the ring families R(6), R(7) (length <= 2) and sparse ADFs of 70-270 statements (length <= 1), handles identified by structural signatures.",
     STORE + " Model lists are compared with the fresh object's element by element in the order produced.", "DESIGN.md 4 C11")
prop("C12", "the same exhaustive battery compiled and run under every cargo feature combination, each against the definitional oracle",
     "The harness is built against the library under default + 4 corner feature sets (thorough: all 12); each build runs all semantics on A(2), F(3,1) and a residue class of F(3,2), every query on every node of every function of <= 3 variables (4: strided), each query also as the first query on a never-counted and a freshly restricted diagram followed by the whole battery on every node (and again after building on top), deep chains and a re-import sweep, a store exploration with all invariants incl. serde re-import, persistence round trips and all call histories of length <= 2 on A(2). The CLI binary is built under the same feature sets and run directly and through --export / --import; raw answers of derived queries (facet counts, impact measures) are hashed and compared between builds. No build may deviate from the oracle; case counts must agree; the documented memoised-model-count exception is masked by name.",
     ORACLE, "DESIGN.md 4 C12")
prop("C13", "exhaustive enumeration of all Boolean functions of <= 4 variables + store exploration; every public query against independent recounts",
     "All 65536 functions of 4 variables (and fewer), two writers, every node: paths, models (naive; memoised where documented), max_depth, var_dependencies vs. independent recounts; interpretations() cubes for both goals and every goal variable (disjoint, consistent, exact cover); the store exploration with the same queries in every state; impact measures, formulacounts, facet_count on the term lists of A(2) and F(3,2); more_models/minimum on [0,16]^2; adf-bdd --counter nai on A(2). The same functions in stores that stream their nodes (receiver alive / gone). Deep diagrams: 8 formula shapes x sizes up to 64 variables x 3 kinds of store, the diagram compared with a reference BDD package and every node queried against values recomputed from the node table (exact u128 model counts, structural cube cover); ADFs with wide conditions incl. the CLI counter. The list arguments of interpretations(); trace-logging repetition. Diagrams of 65-100 levels are queried too: known finding K3 (model counts overflow the machine word).",
     "Trusted: path / depth / support recounts from the public node table (adfmc/src/bddx.rs). Cubes on non-constant diagrams only (pinned by the repository's own unit test).", "DESIGN.md 4 C13")
prop("C14", "explicit-state: every ADF object state (input x back-end x call history up to length 2) x both round trips, answers of the re-imported object vs. definition; CLI export/import runs",
     "Objects (native, bridged) of A(2), F(3,1) after every call sequence of length <= 2 and F(3,2) after length <= 1: serde JSON + fix_import and the string-encoded node list / ordering / roots of the web service's database layer rebuilt through Bdd::from and Adf::from: identical node table, roots, ordering; re-imported store satisfies canonicity, memo and query invariants; all semantics of the re-imported object equal the definition. CLI --export then --import with each flag on all of A(2); existing file / empty file / symlink / directory targets untouched, also when the target appears while the CLI is blocked reading its input (the input is a FIFO fed by the harness). Objects whose shared dictionary grew after construction; objects at scale (sparse 70-270 statements, rings, a 2^17-node bridged diagram, diagrams of 40-70 levels: K3) in child processes; a fresh export into a directory with files named like scratch files of the target (listing and contents unchanged); the restored object answers in the original's order.",
     ORACLE, "DESIGN.md 4 C14")
prop("C15", "exhaustive enumeration of CLI configurations (inputs x library modes x sortings x flag subsets x heuristics) on the binary built from the working tree",
     "59k process runs (quick): A(2) x 3 modes x 3 sortings x every flag; F(3,1) x flag pairs; fixed files x all 1024 flag subsets; --heu x 4 values; larger inputs (ring ADFs of 6-8 statements, sparse ADFs of 70/130/270 statements with undecided statements beyond positions 63 and 255) x 3 modes x 3 sortings; every verbosity setting; --export in the same run; malformed inputs incl. conditions for undeclared statements. Exit status, line format, label set and order, grounded first, complete section, and the remaining multiset = a x stable + b x two-valued with a, b between 'flags the mode must honour' and 'flags given'.",
     ORACLE + " Support matrix: naive must honour grd/com/stm/stmng, biodivine grd/com/stm/stmrew/stmrew2, hybrid all; other pairs may print nothing or the right section.", "DESIGN.md 4 C15")
prop("C18", "explicit-state exploration of the real NoGoodStore: all add sequences x modes x all partial interpretations vs. brute force",
     "Every sequence of up to 3 adds (a mode per add for length <= 2, one mode per sequence for length 3; thorough: V=4) over 3 variables; in each store conclusions() and the conclusion closure for all 3^V interpretations: concluded literals forced, conflict only if no extension avoids all added nogoods, always when the interpretation matches one, decided positions unchanged, closure is a fixpoint; pairwise NoGood operations. The same exploration with the three variables embedded at positions around 64 / 128 / 65536 of long interpretations; long histories (12 variables, about 2600 - thorough 4095 - nogoods of one size per mode, every total assignment queried); the empty nogood; repeated nogoods with a final mode switch; results handed back to the store.",
     "Trusted: brute force over the 2^V total assignments (adfmc/src/c18.rs).", "DESIGN.md 4 C18")
prop("C19", "controlled-scheduler exploration: every placement of receiver polls between individual node creations x every requested handle, on the real Bdd objects and channels",
     "86 producer programs (all operation sequences of length <= 3 over 3 variables creating nodes, deduplicated, + the pinned ones) x all placements of <= 3 polls x all handles (1.1M schedules); a threaded rendezvous scheduler that blocks the real producer thread inside Bdd::node at every node (25k schedules) must observe the same outcomes as the sequential scheduler; chains producer -> relay -> end with every order of deliveries and polls, also with the end of the chain going away at every point; producers whose receiver goes away after every number of operations; long streams (> 2^16 messages, polls around message 65536) in a child process; stores made with new + set_sender / set_receiver; chains wired up late; both ends re-wired to a fresh channel at every operation boundary. Prefix property after every poll, found iff present, never 'not found' for a delivered handle, identical tables after draining.",
     "Trusted: crossbeam channels are FIFO; producer and receiver share nothing else, so polls between message deliveries are all receiver-visible schedules. Memory-level interleavings inside one channel operation are not modelled.", "DESIGN.md 4 C19")
prop("C20", "exhaustive enumeration of all interpretation vectors up to length 7 (thorough 9)",
     "All 21845 vectors over {false, true, Term(2), Term(12)} of length <= 7: both public iterators collected and compared as multisets with the 2^k completions / 3^k refinements, first three-valued item = input; exhausted iterators stay exhausted. Long vectors (up to 70000 entries, undecided positions at 63/64/65, 255/256, 65535/65536) and prefixes of the enumeration for 20-70 undecided positions; iterator adaptors (nth, count, last, skip, step_by, fold, ...) agree with plain next from every number of items taken; repetition with a TRACE logger.",
     "Trusted: the independent enumeration of completions/refinements (adfmc/src/c20.rs).", "DESIGN.md 4 C20")

REG = " Registry of running tasks: loom (DPOR, preemption bound 2, thorough 3-4; every execution runs to completion) over threads that execute the server's own RunningGuard / RunningInfo / Task / listing source text (extracted from server/src at build time by runlock/build.rs and compiled against loom's Mutex): a listing or admission test never reports a task that had ended before the request began or that belongs to another (user, problem, kind); once every task has ended the registry is empty; no deadlock, panic or poisoned lock in any schedule."
SRV = "Trusted: the in-harness MongoDB stub's semantics for the six commands the server uses (equality filters, $set with dotted paths, replacement keeping _id, unique index on insert and update, n/nModified) - the environment model; the Python copy of the definitional oracle (srvmc/harness.py). Timing (the 120 s compute time-out) is not explored; inside one handler only the lock operations on the registry of running tasks are interleaved (loom), not other memory accesses."

prop("C16", "explicit-state search on the real server binary over a MongoDB wire-protocol stub that captures the background result writes as explicit events + loom exploration of all lock interleavings of the running-task registry (source text extracted from the working tree)",
     "Every ADF of A(1) and A(2) (thorough: + F(3,1)) x both parsing strategies is submitted over HTTP; six strategies in rotated order with GETs after the computation ended but before its result is stored and after; for 8 codes (thorough: all of A(2)) a breadth-first search over the whole lattice of solved-strategy subsets (64 states / 192 transitions each, restored from database snapshots); every stored result = definitional answer as multiset; every graph: node set = closure of the roots, one lo/hi edge per decision node, walking from the root label of s under every assignment consistent with the shown model evaluates s's condition; unparseable and ill-formed codes end as Error and are never solved; running_tasks empty whenever every task has ended; label-variety and 12-statement codes; a second user asking while a long computation runs must not see that task (also when the joined account / problem names of the two coincide); a problem name used again after deletion, also with a result write of the deleted problem still on its way. 22k requests in the quick tier.",
     SRV + REG, "DESIGN.md 4 C16", engine="srvmc")
prop("C17", "explicit-state BFS over request histories of two clients (snapshot/restore, deferrable background writes) + controlled-scheduler exploration of all database-command interleavings of concurrent requests, on the real server binary + loom exploration of all lock interleavings of the running-task registry",
     "E1: breadth-first search to depth 3 from the empty service and depth 2-3 from four seeds over an alphabet of 33 requests per client (register/login/update incl. the other's and a shared name, logout, info, delete-account, add with and without session, solve, get, list, delete, unauthenticated variants) plus 'apply pending background write'; E2: for 140 (request, request sequence) pairs every interleaving of their database commands with <= 1 preemption (thorough 3), each replayed from a seed snapshot under a scheduler that parks every command. After every transition: no foreign marker in a response, foreign documents byte-identical, unauthenticated requests refused, login succeeds iff the password is the one last set, credentials are salted argon2 hashes and never plaintext, account names unique, and alone-equivalence (differential: the client's projected history re-executed alone, memoised). E3: the other client asks while a long computation runs (window observed through the stub). Passwords are 80/81 bytes long and share their first 72 bytes; E2 includes concurrent registrations of one fresh name. Login with the name of a temporary account is part of the alphabet.",
     SRV + " Clients never share passwords, so every cross-account access is illegitimate. Known finding K1 (mutable account name as key) is matched on the hand-over pattern in the history, not on the clause." + REG, "DESIGN.md 4 C17", engine="srvmc")


def main():
    checks = []
    na = []
    for pid in ["C%02d" % i for i in range(1, 21)]:
        if pid in P and P[pid]["implemented"]:
            e = P[pid]
            checks.append({
                "property_id": pid,
                "quick_cmd": "./run check %s --tier quick" % pid,
                "thorough_cmd": "./run check %s --tier thorough" % pid,
                "evidence_file": "/verif/evidence/%s.json" % pid,
                "replay_cmd_template": "./run replay {path}",
                "engine": e["engine"],
                "level_claimed": {"category": "model_checking", "text": e["text"], "design_ref": e["design"]},
                "level_note": e["note"],
                "technique": e["technique"],
            })
        else:
            na.append({"property_id": pid, "reason": "check not built yet in this round (work in progress; design in DESIGN.md section 4) - not a statement that the technique cannot apply"})
    hooks = subprocess.run(["git", "-C", "/repo", "log", "--format=%H %s", "--grep=^verif hook"], capture_output=True, text=True).stdout.split("\n")
    hooks = [h.split(" ")[0] for h in hooks if h.strip()]
    m = {
        "version": 1,
        "setup_cmd": "./run setup",
        "hooks": {
            "guard": "--cfg adf_obdd_verif (rustc cfg flag, set through RUSTFLAGS / adfmc/.cargo/config.toml)",
            "enable": "cd /verif/adfmc && cargo build --release --offline   # .cargo/config.toml sets rustflags = [\"--cfg\", \"adf_obdd_verif\"] and target-dir /verif/.build/hooked; the library is linked by path from /repo/lib",
            "baseline_off_cmd": "cd /repo && cargo test --workspace --no-fail-fast --offline",
            "source_commits": hooks,
            "add_only": True,
        },
        "engines": [
            {"name": "adfmc", "path": "/verif/adfmc", "serves_properties": [c["property_id"] for c in checks if c["engine"] == "adfmc"],
             "kind_free_text": "Rust; stateless/explicit-state bounded exhaustive exploration of the real library and CLI against definitional oracles"},
            {"name": "srvmc", "path": "/verif/srvmc", "serves_properties": [c["property_id"] for c in checks if c["engine"] == "srvmc"],
             "kind_free_text": "Python; explicit-state and controlled-scheduler exploration of the real server binary over an in-harness MongoDB wire-protocol stub"},
            {"name": "runlock", "path": "/verif/runlock", "serves_properties": [c["property_id"] for c in checks if c["engine"] == "srvmc"],
             "kind_free_text": "Rust + loom 0.7; build.rs extracts RunningGuard / RunningInfo / Task / Strategy / AdfProblemInfo from /repo/server/src and the harness explores every interleaving of their lock operations (invoked by srvmc, results merged into the evidence of C16 and C17)"},
        ],
        "checks": checks,
        "not_applicable": na,
        "notes": "Entry point ./run (see DESIGN.md 2.4). Exit 0 = held (KNOWN-FINDING lines for findings listed in known_findings.json), 1 = VIOLATION line, 2 = MACHINERY-ERROR (not a verdict).",
    }
    json.dump(m, open(os.path.join(HERE, "MANIFEST.json"), "w"), indent=1)
    print("checks:", [c["property_id"] for c in checks], "n/a:", [x["property_id"] for x in na])


if __name__ == "__main__":
    main()
