//! Extracts the running-task registry of the web server from the working tree (server/src/config.rs, server/src/adf.rs)
//! so that the loom harness compiles and explores the REAL source text of `Task`, `RunningInfo`, `Strategy`,
//! `RunningGuard` (constructor and `Drop`) and `AdfProblemInfo::from_adf_prob_and_tasks` (the listing of running tasks)
//! against loom's `Mutex` / `Arc`. Nothing is re-implemented here; items are copied verbatim, only the serde derives and
//! attributes are removed (the harness has no serde). If an item cannot be found the harness is generated unbound and
//! reports that instead of a verdict.
use std::env;
use std::fs;
use std::path::Path;

/// returns the items (with leading attributes and doc comments) whose header line matches one of `heads`
fn extract(src: &str, heads: &[&str], found: &mut Vec<String>) -> String {
    let lines: Vec<&str> = src.lines().collect();
    let mut out = String::new();
    let mut i = 0;
    while i < lines.len() {
        let l = lines[i];
        let at_top = !l.starts_with(' ') && !l.starts_with('\t');
        if let Some(h) = if at_top { heads.iter().find(|h| header_matches(l, h)).copied() } else { None } {
            // leading attributes / doc comments
            let mut start = i;
            while start > 0 && (lines[start - 1].starts_with("#[") || lines[start - 1].starts_with("///")) {
                start -= 1;
            }
            // to the balancing brace
            let mut depth = 0i32;
            let mut seen_open = false;
            let mut end = i;
            'scan: for (j, line) in lines.iter().enumerate().skip(i) {
                for ch in line.chars() {
                    if ch == '{' {
                        depth += 1;
                        seen_open = true;
                    } else if ch == '}' {
                        depth -= 1;
                    }
                }
                if seen_open && depth == 0 {
                    end = j;
                    break 'scan;
                }
                if !seen_open && line.trim_end().ends_with(';') {
                    end = j;
                    break 'scan;
                }
            }
            for line in &lines[start..=end] {
                let t = line.trim_start();
                if t.starts_with("#[serde") {
                    continue;
                }
                let mut s = line.to_string();
                if t.starts_with("#[derive(") {
                    for d in ["Deserialize, ", "Serialize, ", ", Deserialize", ", Serialize", "Deserialize", "Serialize"] {
                        s = s.replace(d, "");
                    }
                    if s.trim() == "#[derive()]" {
                        continue;
                    }
                }
                out.push_str(&s);
                out.push('\n');
            }
            out.push('\n');
            found.push(h.to_string());
            i = end + 1;
            continue;
        }
        i += 1;
    }
    out
}

fn header_matches(line: &str, head: &str) -> bool {
    // `head` is e.g. "enum Task", "struct RunningGuard", "impl RunningGuard", "impl * for RunningInfo"
    let l = line.trim_end();
    let l = l.strip_prefix("pub(crate) ").or_else(|| l.strip_prefix("pub ")).unwrap_or(l);
    if let Some(ty) = head.strip_prefix("impl * for ") {
        return l.starts_with("impl") && (l.contains(&format!(" for {} ", ty)) || l.contains(&format!(" for {}{{", ty)));
    }
    if let Some(rest) = l.strip_prefix(head) {
        return rest.starts_with(' ') || rest.starts_with('{') || rest.starts_with('<') || rest.starts_with('(');
    }
    false
}

fn main() {
    println!("cargo:rustc-check-cfg=cfg(runlock_bound)");
    println!("cargo:rerun-if-env-changed=VERIF_REPO");
    let repo = env::var("VERIF_REPO").unwrap_or_else(|_| "/repo".to_string());
    let cfg = format!("{}/server/src/config.rs", repo);
    let adf = format!("{}/server/src/adf.rs", repo);
    println!("cargo:rerun-if-changed={}", cfg);
    println!("cargo:rerun-if-changed={}", adf);
    println!("cargo:rerun-if-changed=build.rs");
    let out_dir = env::var("OUT_DIR").unwrap();
    let dest = Path::new(&out_dir).join("extracted.rs");
    let (c, a) = match (fs::read_to_string(&cfg), fs::read_to_string(&adf)) {
        (Ok(c), Ok(a)) => (c, a),
        _ => {
            fs::write(Path::new(&out_dir).join("sites.rs"), "pub const HANDLER_SITES: &[(&str, usize)] = &[];\n").unwrap();
            fs::write(&dest, "").unwrap();
            fs::write(Path::new(&out_dir).join("bound.rs"), "pub const UNBOUND: Option<&str> = Some(\"server sources not readable\");\npub const ITEMS: &[&str] = &[];\n").unwrap();
            return;
        }
    };
    // the thread bodies of the harness are typed copies of three expressions of the handlers; count their occurrences
    // in the handler source (white space removed) so that the evidence can say whether they are still what the handlers do
    let squeezed: String = a.chars().filter(|ch| !ch.is_whitespace()).collect();
    let sites = [
        ("admission test of solve: app_state.currently_running.lock().unwrap().contains(&running_info)", "app_state.currently_running.lock().unwrap().contains(&running_info)"),
        ("listing: AdfProblemInfo::from_adf_prob_and_tasks(adf_problem, &app_state.currently_running.lock().unwrap())", "AdfProblemInfo::from_adf_prob_and_tasks(adf_problem,&app_state.currently_running.lock().unwrap()"),
        ("blocking task: let _running_guard = RunningGuard::new(app_state, running_info);", "let_running_guard=RunningGuard::new(app_state,running_info);"),
    ];
    let mut site_text = String::from("pub const HANDLER_SITES: &[(&str, usize)] = &[");
    for (what, pat) in sites {
        site_text.push_str(&format!("({:?}, {}), ", what, squeezed.matches(pat).count()));
    }
    site_text.push_str("];\n");
    fs::write(Path::new(&out_dir).join("sites.rs"), site_text).unwrap();
    let mut found = Vec::new();
    let mut text = String::new();
    text.push_str(&extract(&c, &["enum Task", "struct RunningInfo", "impl RunningInfo", "impl Task", "impl * for RunningInfo", "impl * for Task"], &mut found));
    text.push_str(&extract(
        &a,
        &["enum Strategy", "impl Strategy", "impl * for Strategy", "struct AdfProblemInfo", "impl AdfProblemInfo", "struct RunningGuard", "impl RunningGuard", "impl * for RunningGuard"],
        &mut found,
    ));
    let required = ["enum Task", "struct RunningInfo", "enum Strategy", "struct AdfProblemInfo", "impl AdfProblemInfo", "struct RunningGuard", "impl RunningGuard", "impl * for RunningGuard"];
    let missing: Vec<&str> = required.iter().filter(|r| !found.iter().any(|f| f == *r)).copied().collect();
    let items = found.iter().map(|f| format!("{:?}", f)).collect::<Vec<_>>().join(", ");
    if missing.is_empty() {
        println!("cargo:rustc-cfg=runlock_bound");
        fs::write(&dest, text).unwrap();
        fs::write(Path::new(&out_dir).join("bound.rs"), format!("pub const UNBOUND: Option<&str> = None;\npub const ITEMS: &[&str] = &[{}];\n", items)).unwrap();
    } else {
        fs::write(&dest, "").unwrap();
        fs::write(
            Path::new(&out_dir).join("bound.rs"),
            format!("pub const UNBOUND: Option<&str> = Some({:?});\npub const ITEMS: &[&str] = &[{}];\n", format!("items not found in the server sources: {}", missing.join(", ")), items),
        )
        .unwrap();
    }
}
