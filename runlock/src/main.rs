//! Exhaustive exploration (loom, DPOR over all interleavings of lock operations) of the web server's registry of
//! running tasks. The registry code is NOT modelled: `Task`, `RunningInfo`, `Strategy`, `RunningGuard` (constructor and
//! `Drop`) and `AdfProblemInfo::from_adf_prob_and_tasks` are the source text of /repo/server/src, extracted by build.rs and
//! compiled here against `loom::sync::{Mutex, Arc}` in place of `std::sync::Mutex` / `actix_web::web::Data`.
//! What is modelled (and stated in the evidence): the threads around it - a blocking task is "register, compute, drop the
//! guard (also while unwinding)", the GET handler is "lock, build the listing, unlock", the solve handler's admission test
//! is "lock, contains, unlock" - exactly the expressions the handlers use.
//!
//! Clauses (property C16 "a task that has ended is not reported as still running", C17 "each user's observable history
//! is what it would be if that user were alone"):
//!   * a listing / an admission test never reports a task unless a task with exactly that (user, problem, kind) was
//!     registered and had not yet ended when the request began;
//!   * when every task has ended the registry is empty and every listing is empty;
//!   * registering and unregistering never panic (a panic there would poison the registry for every later request).
//!
//! Output: one JSON object on stdout. Exit status 0 always (verdicts travel in the JSON), 2 on machinery errors.

mod bound {
    include!(concat!(env!("OUT_DIR"), "/bound.rs"));
    include!(concat!(env!("OUT_DIR"), "/sites.rs"));
}

#[cfg(runlock_bound)]
#[allow(dead_code, unused_imports, clippy::all)]
mod explore {
    use std::collections::{BTreeSet, HashMap, HashSet};
    use std::fmt;
    use std::hash::{Hash, Hasher};
    use std::panic::{catch_unwind, AssertUnwindSafe};
    use std::sync::atomic::{AtomicUsize, Ordering as StdOrdering};
    use std::sync::Arc as StdArc;
    use std::sync::Mutex as StdMutex;

    use std::sync::atomic::{AtomicBool, Ordering};
    use loom::sync::Mutex;

    // ---- stand-ins for what the extracted text refers to ---------------------------------------------------------
    pub(crate) mod web {
        pub type Data<T> = std::sync::Arc<T>;
    }
    pub(crate) type Parsing = u8;
    pub(crate) type AcsPerStrategy = u8;
    pub(crate) struct AdfProblem {
        pub(crate) name: String,
        pub(crate) username: String,
        pub(crate) code: String,
        pub(crate) parsing_used: Parsing,
        pub(crate) acs_per_strategy: AcsPerStrategy,
    }
    pub(crate) struct AppState {
        pub(crate) currently_running: Mutex<HashSet<RunningInfo>>,
    }

    // ---- the server's own source text -------------------------------------------------------------------------------
    include!(concat!(env!("OUT_DIR"), "/extracted.rs"));

    // ---- scenarios ---------------------------------------------------------------------------------------------------
    #[derive(Clone)]
    pub struct TaskSpec {
        pub user: &'static str,
        pub name: &'static str,
        pub task: Task,
        pub panics: bool,
    }
    #[derive(Clone)]
    pub struct Scenario {
        pub id: &'static str,
        pub tasks: Vec<TaskSpec>,
        pub listers: Vec<(&'static str, &'static str)>,
        pub checkers: Vec<(&'static str, &'static str, Task)>,
    }

    pub fn scenarios(thorough: bool) -> Vec<Scenario> {
        let t = |user, name, task, panics| TaskSpec { user, name, task, panics };
        let mut v = vec![
            Scenario { id: "one-task", tasks: vec![t("u", "x", Task::Parse, false)], listers: vec![("u", "x")], checkers: vec![("u", "x", Task::Parse)] },
            Scenario {
                id: "two-problems",
                tasks: vec![t("u", "x", Task::Parse, false), t("u", "y", Task::Solve(Strategy::Ground), false)],
                listers: vec![("u", "x")],
                checkers: vec![("u", "y", Task::Solve(Strategy::Ground))],
            },
            Scenario {
                id: "same-task-twice",
                tasks: vec![t("u", "x", Task::Parse, false), t("u", "x", Task::Parse, false)],
                listers: vec![("u", "x")],
                checkers: vec![("u", "x", Task::Parse)],
            },
            Scenario {
                id: "parse-and-solve",
                tasks: vec![t("u", "x", Task::Solve(Strategy::Stable), false), t("u", "y", Task::Parse, false)],
                listers: vec![("u", "x")],
                checkers: vec![("u", "y", Task::Parse)],
            },
            Scenario {
                id: "joined-names-coincide",
                tasks: vec![t("k", "m/big", Task::Parse, false), t("k/m", "big", Task::Parse, false)],
                listers: vec![("k/m", "big")],
                checkers: vec![("k", "m/big", Task::Parse)],
            },
            Scenario {
                id: "two-strategies",
                tasks: vec![t("u", "x", Task::Solve(Strategy::Ground), false), t("u", "x", Task::Solve(Strategy::Stable), false)],
                listers: vec![("u", "x")],
                checkers: vec![("u", "x", Task::Solve(Strategy::Stable))],
            },
            Scenario {
                id: "two-users-one-problem-name",
                tasks: vec![t("u", "x", Task::Solve(Strategy::Complete), false), t("w", "x", Task::Solve(Strategy::Complete), false)],
                listers: vec![("w", "x")],
                checkers: vec![("u", "x", Task::Solve(Strategy::Complete))],
            },
        ];
        if thorough {
            v.push(Scenario {
                id: "three-tasks",
                tasks: vec![t("u", "x", Task::Parse, false), t("u", "x", Task::Solve(Strategy::StableNogood), false), t("w", "x", Task::Parse, false)],
                listers: vec![("u", "x")],
                checkers: vec![],
            });
            v.push(Scenario {
                id: "two-listers",
                tasks: vec![t("u", "x", Task::Parse, false), t("u", "x", Task::Solve(Strategy::StableCountingA), false)],
                listers: vec![("u", "x"), ("u", "x")],
                checkers: vec![],
            });
            v.push(Scenario {
                id: "same-solve-twice",
                tasks: vec![t("u", "x", Task::Solve(Strategy::StableCountingB), false), t("u", "x", Task::Solve(Strategy::StableCountingB), false)],
                listers: vec![("u", "x")],
                checkers: vec![("u", "x", Task::Solve(Strategy::StableCountingB))],
            });
        }
        v
    }

    pub struct Recorder {
        pub schedules: AtomicUsize,
        pub lock_ops: AtomicUsize,
        pub outcomes: StdMutex<BTreeSet<String>>,
        pub violations: StdMutex<Vec<(String, String)>>,
        pub nontrivial: AtomicUsize,
    }

    fn info_of(t: &TaskSpec) -> RunningInfo {
        RunningInfo { username: t.user.to_string(), adf_name: t.name.to_string(), task: t.task }
    }

    fn listing(state: &web::Data<AppState>, user: &str, name: &str) -> Vec<Task> {
        let adf_problem = AdfProblem { name: name.to_string(), username: user.to_string(), code: String::new(), parsing_used: Default::default(), acs_per_strategy: Default::default() };
        // the expression of the GET handler, `from_adf_prob_and_tasks(adf_problem, &app_state.currently_running.lock().unwrap())`,
        // with a scheduling point while the lock is held (loom does not switch threads inside a critical section
        // without one, and a `try_lock` elsewhere can only fail if it runs at such a moment)
        let guard = state.currently_running.lock().unwrap();
        loom::thread::yield_now();
        let info = AdfProblemInfo::from_adf_prob_and_tasks(adf_problem, &guard);
        drop(guard);
        info.running_tasks
    }

    pub fn explore(sc: &Scenario, preemption_bound: Option<usize>, rec: StdArc<Recorder>) -> Result<(), String> {
        let mut b = loom::model::Builder::new();
        b.preemption_bound = preemption_bound;
        b.max_branches = 200_000;
        let sc = sc.clone();
        let rec2 = rec.clone();
        let r = catch_unwind(AssertUnwindSafe(move || {
            b.check(move || {
                let rec = rec2.clone();
                rec.schedules.fetch_add(1, StdOrdering::Relaxed);
                let state: web::Data<AppState> = web::Data::new(AppState { currently_running: Mutex::new(HashSet::new()) });
                let ended: Vec<StdArc<AtomicBool>> = sc.tasks.iter().map(|_| StdArc::new(AtomicBool::new(false))).collect();
                let mut task_threads = Vec::new();
                for (i, t) in sc.tasks.iter().enumerate() {
                    let st = state.clone();
                    let e = ended[i].clone();
                    let t = t.clone();
                    task_threads.push(loom::thread::spawn(move || {
                        // the body of the spawn_blocking closures of add / solve
                        let r = catch_unwind(AssertUnwindSafe(|| {
                            let _running_guard = RunningGuard::new(st, info_of(&t));
                            // the computation: a scheduling point between registering and unregistering (without one
                            // loom parks the thread AT its next lock operation, where a `try_lock` never sees the lock held)
                            loom::thread::yield_now();
                            // a computation that panics is not executed as a real panic: loom runs all threads as
                            // coroutines of one OS thread, so while one of them unwinds `std::thread::panicking()` is true
                            // for all of them and std would "poison" locks released by the others - an artefact. The guard's
                            // `Drop` runs at the end of this scope either way.
                        }));
                        e.store(true, Ordering::SeqCst);
                        r.is_err()
                    }));
                }
                let mut list_threads = Vec::new();
                for (user, name) in sc.listers.iter().copied() {
                    let st = state.clone();
                    let ended = ended.clone();
                    list_threads.push(loom::thread::spawn(move || {
                        let e0: Vec<bool> = ended.iter().map(|e| e.load(Ordering::SeqCst)).collect();
                        let tasks = listing(&st, user, name);
                        (e0, tasks)
                    }));
                }
                let mut check_threads = Vec::new();
                for (user, name, task) in sc.checkers.iter().copied() {
                    let st = state.clone();
                    let ended = ended.clone();
                    check_threads.push(loom::thread::spawn(move || {
                        let e0: Vec<bool> = ended.iter().map(|e| e.load(Ordering::SeqCst)).collect();
                        let running_info = RunningInfo { username: user.to_string(), adf_name: name.to_string(), task };
                        // the expression of the solve handler's admission test
                        let guard = st.currently_running.lock().unwrap();
                        loom::thread::yield_now();
                        let c = guard.contains(&running_info);
                        drop(guard);
                        (e0, c)
                    }));
                }
                let mut outcome = String::new();
                let mut viol = |kind: &str, msg: String| {
                    let mut v = rec.violations.lock().unwrap();
                    if v.len() < 200 {
                        v.push((kind.to_string(), msg));
                    }
                };
                let live = |e0: &[bool], user: &str, name: &str, task: Task| sc.tasks.iter().enumerate().any(|(i, t)| !e0[i] && t.user == user && t.name == name && t.task == task);
                for (i, h) in task_threads.into_iter().enumerate() {
                    let panicked = h.join().unwrap();
                    if panicked {
                        viol("registry:task-panicked", format!("scenario {}: task {} ({} / {} / {:?}) {} although its computation {}", sc.id, i, sc.tasks[i].user, sc.tasks[i].name, sc.tasks[i].task,
                            if panicked { "panicked" } else { "did not panic" }, if sc.tasks[i].panics { "panics" } else { "does not" }));
                    }
                }
                for (j, h) in list_threads.into_iter().enumerate() {
                    let (e0, tasks) = h.join().unwrap();
                    let (user, name) = sc.listers[j];
                    outcome.push_str(&format!("L{}:{:?}:{:?};", j, e0, tasks));
                    if !tasks.is_empty() && e0.iter().any(|x| *x) {
                        rec.nontrivial.fetch_add(1, StdOrdering::Relaxed);
                    }
                    for t in &tasks {
                        if !live(&e0, user, name, *t) {
                            viol("registry:ended-or-foreign-task-listed", format!("scenario {}: the listing of {}'s problem {} shows {:?} as running; tasks that had ended before the request began: {:?}", sc.id, user, name, t, e0));
                        }
                    }
                }
                for (j, h) in check_threads.into_iter().enumerate() {
                    let (e0, c) = h.join().unwrap();
                    let (user, name, task) = sc.checkers[j];
                    outcome.push_str(&format!("C{}:{:?}:{};", j, e0, c));
                    if c && !live(&e0, user, name, task) {
                        viol("registry:admission-test-sees-ended-or-foreign-task", format!("scenario {}: 'is {} / {} / {:?} running' is answered yes; tasks that had ended before the request began: {:?}", sc.id, user, name, task, e0));
                    }
                }
                // everything has ended
                match state.currently_running.lock() {
                    Ok(g) => {
                        outcome.push_str(&format!("left:{};", g.len()));
                        if !g.is_empty() {
                            let mut left: Vec<String> = g.iter().map(|x| format!("{:?}", x)).collect();
                            left.sort();
                            viol("registry:entry-left-behind", format!("scenario {}: every task has ended but the registry still holds {}", sc.id, left.join(", ")));
                        }
                    }
                    Err(_) => viol("registry:poisoned", format!("scenario {}: the registry's lock is poisoned", sc.id)),
                }
                for t in sc.tasks.iter() {
                    let l = listing(&state, t.user, t.name);
                    if !l.is_empty() {
                        viol("registry:ended-task-listed-at-rest", format!("scenario {}: every task has ended but the listing of {} / {} shows {:?}", sc.id, t.user, t.name, l));
                    }
                }
                rec.outcomes.lock().unwrap().insert(format!("{}|{}", sc.id, outcome));
            });
        }));
        match r {
            Ok(()) => Ok(()),
            Err(p) => Err(p.downcast_ref::<String>().cloned().or_else(|| p.downcast_ref::<&str>().map(|s| s.to_string())).unwrap_or_else(|| "loom ended with a panic".to_string())),
        }
    }
}

fn json_str(s: &str) -> String {
    let mut o = String::from("\"");
    for c in s.chars() {
        match c {
            '"' => o.push_str("\\\""),
            '\\' => o.push_str("\\\\"),
            '\n' => o.push_str("\\n"),
            c if (c as u32) < 0x20 => o.push_str(&format!("\\u{:04x}", c as u32)),
            c => o.push(c),
        }
    }
    o.push('"');
    o
}

fn main() {
    let args: Vec<String> = std::env::args().collect();
    let thorough = args.iter().any(|a| a == "thorough");
    let only: Option<String> = args.iter().position(|a| a == "--scenario").and_then(|i| args.get(i + 1).cloned());
    let bound_arg: Option<usize> = args.iter().position(|a| a == "--bound").and_then(|i| args.get(i + 1).cloned()).and_then(|s| s.parse().ok());
    let items: Vec<String> = bound::ITEMS.iter().map(|s| json_str(s)).collect();
    if let Some(why) = bound::UNBOUND {
        println!("{{\"bound\": false, \"why\": {}, \"items\": [{}]}}", json_str(why), items.join(", "));
        return;
    }
    #[cfg(runlock_bound)]
    {
        use std::sync::atomic::Ordering;
        use std::sync::Arc;
        let t0 = std::time::Instant::now();
        std::panic::set_hook(Box::new(|_| {}));
        let rec = Arc::new(explore::Recorder {
            schedules: Default::default(),
            lock_ops: Default::default(),
            outcomes: Default::default(),
            violations: Default::default(),
            nontrivial: Default::default(),
        });
        let mut per = Vec::new();
        for sc in explore::scenarios(thorough) {
            if let Some(o) = &only {
                if o != sc.id {
                    continue;
                }
            }
            let before = rec.schedules.load(Ordering::Relaxed);
            // all interleavings, no preemption bound
            if let Err(e) = explore::explore(&sc, bound_arg, rec.clone()) {
                // loom ends an exploration at the first schedule in which no thread can run (deadlock) or in which a
                // thread panics outside the guarded computation - e.g. every later `lock().unwrap()` once a panic inside a
                // critical section has poisoned the registry. Both are verdicts about the schedule; anything else
                // (branch limit, internal assertion) is a machinery error.
                if e.contains("deadlock") || e.contains("PoisonError") || e.contains("poisoned") {
                    rec.violations.lock().unwrap().push(("registry:deadlock-or-poisoned".to_string(), format!("scenario {}: {}", sc.id, e)));
                } else {
                    println!("{{\"bound\": true, \"machinery\": {}}}", json_str(&format!("scenario {}: {}", sc.id, e)));
                    std::process::exit(2);
                }
            }
            per.push(format!("{{\"scenario\": {}, \"threads\": {}, \"schedules\": {}}}", json_str(sc.id), sc.tasks.len() + sc.listers.len() + sc.checkers.len(), rec.schedules.load(Ordering::Relaxed) - before));
        }
        let viol = rec.violations.lock().unwrap();
        let outcomes = rec.outcomes.lock().unwrap();
        let vs: Vec<String> = viol.iter().map(|(k, m)| format!("{{\"kind\": {}, \"msg\": {}}}", json_str(k), json_str(m))).collect();
        println!(
            "{{\"bound\": true, \"items\": [{}], \"handler_sites\": [{}], \"schedules\": {}, \"distinct_outcomes\": {}, \"nontrivial\": {}, \"per_scenario\": [{}], \"violations\": [{}], \"sample_outcome\": {}, \"wall\": {:.2}}}",
            items.join(", "),
            bound::HANDLER_SITES.iter().map(|(w, n)| format!("{{\"expression\": {}, \"occurrences_in_server_src\": {}}}", json_str(w), n)).collect::<Vec<_>>().join(", "),
            rec.schedules.load(Ordering::Relaxed),
            outcomes.len(),
            rec.nontrivial.load(Ordering::Relaxed),
            per.join(", "),
            vs.join(", "),
            json_str(outcomes.iter().next().map(|s| s.as_str()).unwrap_or("")),
            t0.elapsed().as_secs_f64()
        );
    }
}
