import struct, datetime
class ObjectId:
    def __init__(self, b): self.b = bytes(b)
    def __repr__(self): return "ObjectId(%s)" % self.b.hex()
    def __eq__(self, o): return isinstance(o, ObjectId) and o.b == self.b
    def __hash__(self): return hash(self.b)
class Int64(int): pass
class Binary:
    def __init__(self, sub, b): self.sub=sub; self.b=b
class Timestamp:
    def __init__(self, v): self.v=v
class DateTime:
    def __init__(self, ms): self.ms=ms
def _cstr(b, i):
    j = b.index(b'\0', i); return b[i:j].decode(), j+1
def decode_doc(b, i=0):
    (ln,) = struct.unpack_from('<i', b, i); end = i+ln; i += 4; d = {}
    while b[i] != 0:
        t = b[i]; i += 1; k, i = _cstr(b, i)
        if t == 1: (v,) = struct.unpack_from('<d', b, i); i += 8
        elif t == 2: (l,) = struct.unpack_from('<i', b, i); v = b[i+4:i+4+l-1].decode(); i += 4+l
        elif t == 3: v, i = decode_doc(b, i)
        elif t == 4: dd, i = decode_doc(b, i); v = [dd[k2] for k2 in dd]
        elif t == 5: (l,) = struct.unpack_from('<i', b, i); v = Binary(b[i+4], b[i+5:i+5+l]); i += 5+l
        elif t == 7: v = ObjectId(b[i:i+12]); i += 12
        elif t == 8: v = b[i] != 0; i += 1
        elif t == 9: (ms,) = struct.unpack_from('<q', b, i); v = DateTime(ms); i += 8
        elif t == 10: v = None
        elif t == 16: (v,) = struct.unpack_from('<i', b, i); i += 4
        elif t == 17: (x,) = struct.unpack_from('<Q', b, i); v = Timestamp(x); i += 8
        elif t == 18: (x,) = struct.unpack_from('<q', b, i); v = Int64(x); i += 8
        else: raise ValueError("bson type %d" % t)
        d[k] = v
    return d, end
def _enc_elem(k, v):
    kb = k.encode()+b'\0'
    if isinstance(v, bool): return b'\x08'+kb+(b'\x01' if v else b'\x00')
    if isinstance(v, Int64): return b'\x12'+kb+struct.pack('<q', int(v))
    if isinstance(v, int):
        if -2**31 <= v < 2**31: return b'\x10'+kb+struct.pack('<i', v)
        return b'\x12'+kb+struct.pack('<q', v)
    if isinstance(v, float): return b'\x01'+kb+struct.pack('<d', v)
    if isinstance(v, str): s = v.encode()+b'\0'; return b'\x02'+kb+struct.pack('<i', len(s))+s
    if isinstance(v, dict): return b'\x03'+kb+encode_doc(v)
    if isinstance(v, (list, tuple)): return b'\x04'+kb+encode_doc({str(i): x for i, x in enumerate(v)})
    if isinstance(v, ObjectId): return b'\x07'+kb+v.b
    if v is None: return b'\x0a'+kb
    if isinstance(v, DateTime): return b'\x09'+kb+struct.pack('<q', v.ms)
    if isinstance(v, Timestamp): return b'\x11'+kb+struct.pack('<Q', v.v)
    if isinstance(v, Binary): return b'\x05'+kb+struct.pack('<i', len(v.b))+bytes([v.sub])+v.b
    raise ValueError("cannot encode %r" % (v,))
def encode_doc(d):
    body = b''.join(_enc_elem(k, v) for k, v in d.items())+b'\0'
    return struct.pack('<i', len(body)+4)+body
