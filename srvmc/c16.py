"""C16: the web service returns the library's answers through its storage round trip (explicit-state search on the
real server process over the Mongo stub)."""
import collections
import json
import time

from harness import (Client, Service, MachineryError, STRATEGIES, adf_text, names, expected, val, check_graph, big_code)

FIELDS = [f for _, f in STRATEGIES]

BAD_CODES = [
    ("unbalanced bracket", "s(a).ac(a,neg(a)."),
    ("missing terminator", "s(a).s(b)ac(a,b).ac(b,a)."),
    ("wrong arity", "s(a).ac(a,and(a))."),
    ("trailing garbage", "s(a).ac(a,a).x"),
    ("wrong arity", "s(a).ac(a,neg(a,a))."),
    ("missing terminator", "s(a).ac(a,c(v))"),
]
ILL_FORMED = [
    ("undeclared statement", "s(a).ac(a,neg(b))."),
    ("undeclared statement", "s(a).s(b).ac(a,b).ac(b,or(a,zz))."),
    ("condition for an undeclared statement", "ac(a,c(v))."),
    ("condition for an undeclared statement", "s(a).s(b).ac(x,c(f)).ac(a,c(v)).ac(b,c(f))."),
]


class Explorer:
    def __init__(self, svc):
        self.svc = svc
        self.stub = svc.stub
        self.c = Client()
        self.viol = []
        self.requests = 0
        self.states = 0
        self.transitions = 0
        self.outcomes = set()
        self.nontrivial = 0
        self.samples = []

    def v(self, kind, msg, case):
        if len(self.viol) < 200:
            self.viol.append({"kind": kind, "msg": msg, "case": case})

    def wait_bg(self, n, what, name=None, case=None):
        """waits until n background result writes have been captured. With `name`: while waiting, the problem is read
        through GET every second; if its task list has been empty for 12 s (the task HAS ended - the server says so)
        and the write still has not been issued, the result is never going to be stored: verdict `result-never-stored`
        (returns False). A task that is still listed keeps the wait going up to the quiescence time-out."""
        t0 = time.time()
        idle_since = None
        while True:
            try:
                self.stub.wait_for(lambda: len(self.stub.bg_writes) >= n, timeout=1.0 if name else 150.0, what=what)
                break
            except TimeoutError as e:
                if not name or time.time() - t0 > 150.0:
                    raise MachineryError(str(e))
            st, d = self.get(name)
            if d is not None and d.get("running_tasks") == []:
                idle_since = idle_since or time.time()
                if time.time() - idle_since > 12.0 and len(self.stub.bg_writes) < n:
                    self.v("result-never-stored", "%s: the server lists no running task for %s any more (for 12 s) but %s has not been issued; GET shows %s" % (
                        what, name, what, json.dumps(d.get("acs_per_strategy", {}))[:200]), case or {"type": "wait", "name": name})
                    return False
            else:
                idle_since = None
        self.svc.check()
        return True

    def login(self):
        st, _ = self.c.register("owner", "pw")
        st2, _ = self.c.login("owner", "pw")
        if st2 != 200:
            raise MachineryError("cannot log in the exploring user (%s/%s)" % (st, st2))

    def get(self, name):
        st, body = self.c.get(name)
        self.requests += 1
        if st != 200:
            return st, None
        try:
            return st, json.loads(body)
        except ValueError:
            return st, None

    def judge(self, d, tts, nm, solved, case, where):
        """d: GET body; solved: set of fields that must hold answers; all other fields must be empty"""
        exp = expected(tts)
        aps = d.get("acs_per_strategy", {})
        if d.get("running_tasks") != []:
            self.v("running-task-after-end", "%s: running_tasks = %s although every task has ended" % (where, d.get("running_tasks")), case)
        po = aps.get("parse_only", {})
        if po.get("type") != "Some" or len(po.get("content", [])) != 1:
            self.v("parse-result", "%s: parse_only is %s for parseable code" % (where, json.dumps(po)[:200]), case)
        else:
            e = check_graph(po["content"][0]["graph"], po["content"][0]["ac"], None, tts, nm)
            for x in e[:3]:
                self.v("graph:parse_only", "%s: %s" % (where, x), case)
        for f in FIELDS:
            got = aps.get(f, {})
            if f not in solved:
                if got.get("type") != "None":
                    self.v("unsolved-not-empty", "%s: strategy %s was not solved but holds %s" % (where, f, json.dumps(got)[:200]), case)
                continue
            if got.get("type") != "Some":
                self.v("answer-missing", "%s: strategy %s solved but the stored result is %s" % (where, f, json.dumps(got)[:200]), case)
                continue
            ms = []
            for x in got["content"]:
                if len(x["ac"]) != len(nm):
                    self.v("answer-length", "%s: strategy %s: model with %d entries" % (where, f, len(x["ac"])), case)
                ms.append(tuple(val(t) for t in x["ac"]))
            if collections.Counter(ms) != collections.Counter(exp[f]):
                self.v("answer:" + f, "%s: strategy %s returned %s, the definition gives %s" % (where, f, sorted(ms), exp[f]), case)
                continue
            self.outcomes.add((f, tuple(sorted(ms))))
            for x, m in zip(got["content"], ms):
                e = check_graph(x["graph"], x["ac"], m, tts, nm)
                for y in e[:2]:
                    self.v("graph:" + f, "%s: strategy %s, model %s: %s" % (where, f, m, y), case)

    def add_problem(self, name, code, parsing, solve_first, case):
        st, body = self.c.add(name, code, parsing)
        self.requests += 1
        self.transitions += 1
        if st // 100 != 2:
            self.v("add-refused", "add answered %s %s" % (st, body[:100]), case)
            return False
        if not self.wait_bg(1, "the parse result write", name, case):
            return False
        if solve_first:
            # the problem exists but its parse result has not reached the database yet
            st, body = self.c.solve(name, "Ground")
            self.requests += 1
            if st // 100 == 2:
                self.v("solve-before-parse", "solve accepted (status %s) before the parse result was stored" % st, case)
                self.wait_bg(2, "a solve write")
                self.stub.apply_bg(1)
        self.stub.apply_bg(0)
        self.transitions += 1
        self.states += 1
        return True

    def solve_step(self, name, strat, field, tts, nm, solved, case):
        st, body = self.c.solve(name, strat)
        self.requests += 1
        self.transitions += 1
        if st // 100 != 2:
            self.v("solve-refused", "solve %s answered %s %s" % (strat, st, body[:100]), case)
            return False
        if not self.wait_bg(1, "the result write of %s" % strat, name, case):
            return False
        # the computation has ended (its write was issued) but the result is not stored yet
        st, d = self.get(name)
        if d is not None:
            self.judge(d, tts, nm, solved, case, "after %s ended, before its result is stored" % strat)
        self.stub.apply_bg(0)
        self.transitions += 1
        solved = solved | {field}
        st, d = self.get(name)
        if d is None:
            self.v("get-failed", "GET answered %s after solving %s" % (st, strat), case)
            return False
        self.judge(d, tts, nm, solved, case, "after %s" % strat)
        # a repeated GET reads the same
        st2, d2 = self.get(name)
        if d2 != d:
            self.v("get-not-repeatable", "two GETs in the same state differ", case)
        self.states += 1
        return True

    def overlap2(self, idx, tts, parsing):
        """two solve tasks of one problem whose result writes are both still on their way: every ordered pair of different
        strategies x both orders in which the two writes reach the database; afterwards BOTH results must be stored"""
        nm = names(len(tts))
        code = adf_text(tts, nm)
        k = 0
        for i, (s1, f1) in enumerate(STRATEGIES):
            for j, (s2, f2) in enumerate(STRATEGIES):
                if i == j:
                    continue
                for first in (0, 1):
                    k += 1
                    name = "o%d_%d%s" % (idx, k, parsing)
                    case = {"type": "overlap2", "tts": list(tts), "parsing": parsing, "code": code, "strategies": [s1, s2], "write_applied_first": first}
                    if not self.add_problem(name, code, parsing, False, case):
                        return
                    ok = True
                    for n, s in ((1, s1), (2, s2)):
                        st, body = self.c.solve(name, s)
                        self.requests += 1
                        self.transitions += 1
                        if st // 100 != 2:
                            self.v("solve-refused", "solve %s answered %s %s while the result write of %s is on its way" % (s, st, body[:100], s1), case)
                            ok = False
                            break
                        if not self.wait_bg(n, "the result write of %s" % s, name, case):
                            ok = False
                            break
                    if not ok:
                        while self.stub.bg_writes:
                            self.stub.apply_bg(0)
                        continue
                    self.stub.apply_bg(first)
                    self.stub.apply_bg(0)
                    self.transitions += 2
                    st, d = self.get(name)
                    if d is None:
                        self.v("get-failed", "GET answered %s after two overlapping solves" % st, case)
                        continue
                    self.judge(d, tts, nm, {f1, f2}, case, "after %s and %s ran with both result writes pending (the write of %s applied first)" % (s1, s2, (s1, s2)[first]))
                    self.states += 1

    def linear(self, idx, tts, parsing, order, nm=None, layout=0):
        nm = nm or names(len(tts))
        code = adf_text(tts, nm)
        if layout == 1:
            # the documented layout freedom: white space after facts and around commas - here line breaks
            code = code.replace(",", ",\n  ").replace(").", ").\n")
        elif layout == 2:
            code = code.replace(",", " ,\t").replace(").", "). \n\n")
        name = "p%d%s" % (idx, parsing)
        case = {"type": "linear", "tts": list(tts), "code": code, "parsing": parsing, "order": order, "solve_first": idx % 2 == 1, "labels": nm, "layout": layout}
        if not self.add_problem(name, code, parsing, idx % 2 == 1, case):
            return
        st, d = self.get(name)
        if d is None:
            self.v("get-failed", "GET answered %s after add" % st, case)
            return
        if d.get("code") != code or d.get("parsing_used") != parsing or d.get("name") != name:
            self.v("get-metadata", "GET returns name/code/parsing %r" % ((d.get("name"), d.get("code"), d.get("parsing_used")),), case)
        self.judge(d, tts, nm, set(), case, "after add")
        solved = set()
        for k in order:
            strat, field = STRATEGIES[k]
            if not self.solve_step(name, strat, field, tts, nm, solved, case):
                return
            solved.add(field)
        # a repeated solve request must not damage the stored answer
        strat, field = STRATEGIES[order[0]]
        st, body = self.c.solve(name, strat)
        self.requests += 1
        if st // 100 == 2:
            self.wait_bg(1, "the write of a repeated solve")
            self.stub.apply_bg(0)
        st, d = self.get(name)
        if d is not None:
            self.judge(d, tts, nm, solved, case, "after a repeated solve request (status %s)" % st)
        if len(order) > 1:
            self.nontrivial += 1

    def lattice(self, idx, tts, parsing):
        """breadth-first search over the subsets of solved strategies; states restored from database snapshots"""
        nm = names(len(tts))
        code = adf_text(tts, nm)
        name = "q%d%s" % (idx, parsing)
        case0 = {"type": "lattice", "tts": list(tts), "code": code, "parsing": parsing}
        if not self.add_problem(name, code, parsing, False, case0):
            return
        snaps = {frozenset(): self.stub.db.snapshot()}
        frontier = [frozenset()]
        while frontier:
            nxt = []
            for s in frontier:
                for k, (strat, field) in enumerate(STRATEGIES):
                    if field in s:
                        continue
                    self.stub.db.restore(snaps[s])
                    case = dict(case0, solved_before=sorted(s), solve=strat)
                    if not self.solve_step(name, strat, field, tts, nm, set(s), case):
                        continue
                    t = frozenset(s | {field})
                    if t not in snaps:
                        snaps[t] = self.stub.db.snapshot()
                        nxt.append(t)
                    self.nontrivial += 1
            frontier = nxt

    def reuse(self, idx, tts1, tts2, parsing, stale):
        """a problem name is used again: a second add under an existing name, then delete and add other code under the
        same name; `stale`: a solve of the old problem is still waiting for its result write when the problem is deleted"""
        nm = names(len(tts1))
        code1, code2 = adf_text(tts1, nm), adf_text(tts2, nm)
        name = "r%d%s%s" % (idx, parsing, "s" if stale else "")
        case = {"type": "reuse", "tts1": list(tts1), "tts2": list(tts2), "parsing": parsing, "stale": stale, "code1": code1, "code2": code2}
        if not self.add_problem(name, code1, parsing, False, case):
            return
        solved = set()
        if not self.solve_step(name, "Complete", "complete", tts1, nm, solved, case):
            return
        solved = {"complete"}
        # adding under an existing name must not touch what is stored
        st, body = self.c.add(name, code2, parsing)
        self.requests += 1
        self.transitions += 1
        if st // 100 == 2:
            self.v("add-over-existing", "a second add under an existing name was accepted (status %s)" % st, case)
            self.wait_bg(1, "the parse write of the second add")
            self.stub.apply_bg(0)
        st, d = self.get(name)
        if d is None:
            self.v("get-failed", "GET answered %s after a refused second add" % st, case)
            return
        if d.get("code") != code1:
            self.v("get-metadata", "after a refused second add the stored code is %r" % d.get("code"), case)
        self.judge(d, tts1, nm, solved, case, "after a refused second add under the same name")
        pending = 0
        if stale:
            st, body = self.c.solve(name, "Stable")
            self.requests += 1
            if st // 100 != 2:
                self.v("solve-refused", "solve Stable answered %s" % st, case)
                return
            self.wait_bg(1, "the result write of Stable")   # the computation has ended, its write is held back
            pending = 1
        st, body = self.c.delete(name)
        self.requests += 1
        self.transitions += 1
        if st // 100 != 2:
            self.v("delete-refused", "delete answered %s" % st, case)
            return
        st, d = self.get(name)
        if st // 100 == 2:
            self.v("deleted-still-there", "GET answers %s for a deleted problem" % st, case)
        # the name is used again for other code
        st, body = self.c.add(name, code2, parsing)
        self.requests += 1
        self.transitions += 1
        if st // 100 != 2:
            self.v("add-refused", "add under the name of a deleted problem answered %s" % st, case)
            return
        self.wait_bg(pending + 1, "the parse write of the new problem")
        self.stub.apply_bg(pending)          # the new problem's parse result
        if pending:
            self.stub.apply_bg(0)            # ... and only now the old problem's result write arrives
            self.nontrivial += 1
        st, d = self.get(name)
        if d is None:
            self.v("get-failed", "GET answered %s after adding under a reused name" % st, case)
            return
        if d.get("code") != code2:
            self.v("get-metadata", "the problem under the reused name holds code %r" % d.get("code"), case)
        self.judge(d, tts2, nm, set(), case, "new problem under the name of a deleted one" + (" (the old problem's result write arrived afterwards)" if pending else ""))
        self.solve_step(name, "Complete", "complete", tts2, nm, set(), case)
        self.states += 1

    def bad_code(self, idx, what, code, parsing):
        name = "b%d%s" % (idx, parsing)
        case = {"type": "bad", "what": what, "code": code, "parsing": parsing}
        st, body = self.c.add(name, code, parsing)
        self.requests += 1
        self.transitions += 1
        if st // 100 != 2:
            # refusing the submission outright is also "reported as an error"
            return
        if not self.wait_bg(1, "the parse result write", name, case):
            return
        self.stub.apply_bg(0)
        st, d = self.get(name)
        if d is None:
            self.v("get-failed", "GET answered %s after adding bad code" % st, case)
            return
        po = d["acs_per_strategy"].get("parse_only", {})
        if po.get("type") != "Error":
            self.v("bad-code-not-error", "%s: parse_only is %s instead of an error" % (what, json.dumps(po)[:160]), case)
        if d.get("running_tasks") != []:
            self.v("running-task-after-end", "%s: running_tasks = %s although the parse task has ended" % (what, d.get("running_tasks")), case)
        for strat, field in STRATEGIES[:3]:
            st, body = self.c.solve(name, strat)
            self.requests += 1
            if st // 100 == 2:
                self.v("bad-code-solved", "%s: solve %s accepted (status %s) for code that could not be parsed" % (what, strat, st), case)
                self.wait_bg(1, "a solve write")
                self.stub.apply_bg(0)
        st, d = self.get(name)
        if d is not None:
            for f in FIELDS:
                if d["acs_per_strategy"].get(f, {}).get("type") == "Some":
                    self.v("bad-code-answer", "%s: strategy %s holds an answer for code that could not be parsed" % (what, f), case)
        self.states += 1


def tts_of(idx):
    """A(1) (idx < 4) then A(2)"""
    if idx < 4:
        return (idx,)
    k = idx - 4
    return (k % 16, k // 16)


def f31(idx):
    funcs = [t for t in range(256) if sum(1 for i in range(3) if any(((t >> a) & 1) != ((t >> (a ^ (1 << i))) & 1) for a in range(8))) <= 1]
    nf = len(funcs)
    return (funcs[idx % nf], funcs[idx // nf % nf], funcs[idx // (nf * nf) % nf])


def specs(tier, seed, nworkers):
    return [{"shard": i, "of": nworkers, "tier": tier, "seed": seed} for i in range(nworkers)] + [{"mode": "overlap", "tier": tier, "seed": seed}]


def overlap_worker(server_bin, spec):
    """two users own equally named problems; one asks while the other's long computation runs: running_tasks (and the
    whole answer) of the asking user's problem must be what it is without the other user's task"""
    import c17
    t0 = time.time()
    svc = Service(server_bin)
    w = c17.World(svc)
    stats = {"states": 0, "transitions": 0}
    res = {"ok": True}
    try:
        svc.stub.mode = "defer_bg"
        c17.EMPTY = w.snapshot()
        c17.overlap(w, stats)
        c17.overlap_coinciding_keys(w, stats)
        c17.inflight(w, stats)
        svc.check()
    except MachineryError as e:
        res = {"ok": False, "machinery": str(e)}
    finally:
        svc.close()
    viol = []
    for v in w.viol:
        viol.append({"kind": "other-users-task:" + v["kind"], "msg": v["msg"], "case": {"type": "overlap"}})
    res.update({"violations": viol, "requests": w.requests, "states": stats["states"], "transitions": stats["transitions"],
                "nontrivial": stats.get("windows_observed", 0), "outcomes": [], "wall": time.time() - t0})
    return res


def meta(tier, seed, results):
    quick = tier == "quick"
    return {
        "rule": "codes = every ADF of A(1) and A(2) (260 codes; thorough: + F(3,1)) x both parsing strategies, submitted to the real server binary over the in-harness MongoDB stub; the background result write of add/solve is captured and applied as an explicit event. Per code: add (solve attempted before the parse result is stored for every second code), then the six strategies in an index-rotated order with a GET after the computation ended but before its result is stored and a GET after it is stored, a repeated GET and a repeated solve; for %s codes additionally a breadth-first search over the whole lattice of solved-strategy subsets (64 states, 192 solve transitions each, states restored from database snapshots). Every stored strategy result is compared as a multiset with the definitional answer; every graph: node set = closure of the roots, one lo and one hi edge per decision node, root labels unique, and following the edges from the root of s under every assignment consistent with the shown model evaluates the acceptance condition of s; unsolved strategies stay empty; running_tasks is empty whenever every task has ended. A problem name is used again: a second add under an existing name is refused and leaves the stored problem alone; after delete + add of other code under the same name the new problem shows only its own answers, also when a result write of the deleted problem arrives afterwards. Unparseable / ill-formed codes end as Error, are never solved. Non-trivial: transitions from a state in which another strategy was solved before." % ("8 representative" if quick else "all A(2)"),
        "samples": [{"code": adf_text((6, 9), names(2)), "parsing": "Hybrid", "order": ["Stable", "Ground", "StableNogood", "Complete", "StableCountingA", "StableCountingB"]},
                    {"bad_code": BAD_CODES[0][1]}, {"ill_formed": ILL_FORMED[0][1]}],
        "exhaustive": True,
        "states_are": "service states (database snapshot after a write was applied)",
        "transitions_are": "HTTP requests that start a task and the application of their background writes",
        "assumptions": ["the Mongo stub implements the six commands the server uses (equality filters, $set, replacement, unique index)",
                        "request orders beyond the solved-subset lattice and codes beyond A(2) (thorough: F(3,1)) are outside the bound",
                        "deferring the application of a background write is observationally a slow database (the server ignores the reply)"],
    }


def worker(server_bin, spec):
    """spec: {"shard": i, "of": n, "tier": ..., "seed": ...}; returns a result dict"""
    t0 = time.time()
    if spec.get("mode") == "overlap" or ("replay" in spec and spec["replay"].get("type") == "overlap"):
        return overlap_worker(server_bin, spec)
    if "replay" in spec:
        try:
            v = replay(server_bin, spec["replay"])
            return {"ok": True, "violations": v, "requests": 0, "states": 0, "transitions": 0, "nontrivial": 0, "outcomes": [], "wall": time.time() - t0}
        except MachineryError as e:
            return {"ok": False, "machinery": str(e), "violations": [], "requests": 0, "states": 0, "transitions": 0, "nontrivial": 0, "outcomes": [], "wall": 0}
    svc = Service(server_bin)
    ex = Explorer(svc)
    try:
        svc.stub.mode = "defer_bg"
        ex.login()
        quick = spec["tier"] == "quick"
        shard, of, seed = spec["shard"], spec["of"], spec.get("seed", 0)
        reps = [4 + 0x6, 4 + 0x69, 4 + 0x9c, 4 + 0x1b, 4 + 0xe4, 4 + 0x2d, 4 + 0x96, 4 + 0x50] if quick else list(range(4, 260))
        for idx in range(260):
            if idx % of != shard:
                continue
            tts = tts_of(idx)
            for pi, parsing in enumerate(("Naive", "Hybrid")):
                order = [(k + idx + pi) % 6 for k in range(6)]
                ex.linear(idx, tts, parsing, order)
                if idx in reps and (not quick or (idx + pi) % 2 == seed % 2):
                    ex.lattice(idx, tts, parsing)
            svc.check()
        if not quick:
            for idx in range(512):
                if idx % of != shard:
                    continue
                ex.linear(1000 + idx, f31(idx), ("Naive", "Hybrid")[idx % 2], [(k + idx) % 6 for k in range(6)])
        # labels: quoted with blanks / characters biodivine reserves, sorting-sensitive, keyword-like
        label_sets = [["a b", "x&y"], ["10", "9"], ["and", "or"], ["q(1)", "p|r"], ["\u00fc", "z"], ["s", "ac"], ["a b", "a_20_b"], ["x(", "x_28_"]]
        for li, nm in enumerate(label_sets):
            for ti, tts in enumerate([(6, 9), (0xe, 0x1), (0x5, 0xc), (0x8, 0x6)]):
                j = li * 4 + ti
                if j % of == shard:
                    ex.linear(5000 + j, tts, ("Naive", "Hybrid")[(li + ti) % 2], [(k + j) % 6 for k in range(6)], nm=nm)
        # two solve tasks with both result writes pending
        for j, (tts, parsing) in enumerate([((6, 9), "Naive"), ((0xe, 0x1), "Hybrid")] + ([] if quick else [((0x5, 0xc), "Hybrid"), ((0x8, 0x6), "Naive")])):
            if j % of == shard:
                ex.overlap2(j, tts, parsing)
        # layouts: line breaks / blanks and tabs after facts and around commas (plain labels)
        for j, (tts, lay) in enumerate([((6, 9), 1), ((0xe, 0x1), 2), ((0x5, 0xc), 1), ((0x8, 0x6), 2), ((0x9, 0x6), 1), ((0x6, 0x9), 2)]):
            if j % of == shard:
                ex.linear(6000 + j, tts, ("Naive", "Hybrid")[j % 2], [(k + j) % 6 for k in range(6)], layout=lay)
        # larger codes (12 statements: variable positions 10 and 11 exist), decided by their grounded interpretation
        for j in range(4 if quick else 12):
            if j % of == shard:
                tts, nm = big_code(j + seed)
                ex.linear(7000 + j, tts, ("Naive", "Hybrid")[j % 2], [(k + j) % 6 for k in range(6)], nm=nm)
        # a problem name is used again (second add, delete + add other code), also with a result write of the old
        # problem still on its way
        pairs = [((6, 9), (0xe, 0x1)), ((0x5, 0xc), (6, 9)), ((0x8, 0x6), (0x9, 0x6)), ((0xe, 0x1), (0x5, 0xc))]
        j = 0
        for (t1, t2) in pairs:
            for parsing in ("Naive", "Hybrid"):
                for stale in (False, True):
                    if j % of == shard:
                        ex.reuse(j, t1, t2, parsing, stale)
                    j += 1
        k = 0
        for what, code in BAD_CODES + ILL_FORMED:
            for parsing in ("Naive", "Hybrid"):
                if k % of == shard:
                    ex.bad_code(k, what, code, parsing)
                k += 1
        svc.check()
        res = {"ok": True}
    except MachineryError as e:
        res = {"ok": False, "machinery": str(e)}
    finally:
        svc.close()
    res.update({"violations": ex.viol, "requests": ex.requests, "states": ex.states, "transitions": ex.transitions,
                "nontrivial": ex.nontrivial, "outcomes": sorted(map(repr, ex.outcomes)), "wall": time.time() - t0})
    return res


def replay(server_bin, case):
    svc = Service(server_bin)
    ex = Explorer(svc)
    try:
        svc.stub.mode = "defer_bg"
        ex.login()
        if case["type"] == "bad":
            ex.bad_code(0, case["what"], case["code"], case["parsing"])
        elif case["type"] == "overlap2":
            ex.overlap2(0, tuple(case["tts"]), case["parsing"])
        elif case["type"] == "lattice":
            ex.lattice(0, tuple(case["tts"]), case["parsing"])
        elif case["type"] == "reuse":
            ex.reuse(0, tuple(case["tts1"]), tuple(case["tts2"]), case["parsing"], case["stale"])
        else:
            idx = 1 if case.get("solve_first") else 0
            ex.linear(idx, tuple(case["tts"]), case["parsing"], case.get("order", list(range(6))), nm=case.get("labels"), layout=case.get("layout", 0))
    finally:
        svc.close()
    return ex.viol
