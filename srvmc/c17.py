"""C17: user isolation and credential protection of the web service.

E1  histories: explicit-state breadth-first search over request histories of two clients (one request at a time, the
    background writes of add/solve as separate deferrable events), states restored from snapshots.
E2  schedules: for pairs (request of A, request sequence of B) every interleaving of their database commands under the
    controlled scheduler (the stub parks every command), replayed from a seed snapshot.

The oracle is not a table of status codes but the clauses of the property:
  1 no response to a client contains the other client's marker
  2 documents carrying the other client's marker are byte-identical before and after a client's request / pending write
  3 requests without cookie get 401 and no marker
  4 a login yields a working session iff the password equals the one most recently set for that account by a successful
    register/update; temporary accounts never log in
  5 no stored document contains a submitted password; every stored credential is an argon2 hash; equal passwords of two
    accounts are stored differently; account names are unique
  6 alone-equivalence: the projection of the history onto one client, re-executed on an otherwise empty service, gives
    that client the same responses - except once a step targeted a name held by the other client
Clients never share passwords, so every cross-account access is illegitimate.
"""
import copy
import json
import re
import threading
import time

from bson import encode_doc
from harness import Client, Service, MachineryError
from stub import is_background_write

DBN = "adf-obdd"
USERS = (DBN, "users")
PROBS = (DBN, "adf-problems")
CLIENTS = ("A", "B")
OWN = {"A": "u1", "B": "u2"}
SHARED = "u3"
# the two passwords of a client are long and share their first 100 bytes (a credential check that looks at a prefix only
# would accept the other one); different clients share nothing
PW = {"A": ("pwA" + "a" * 97 + "-one", "pwA" + "a" * 97 + "-two"), "B": ("pwB" + "\u00e9" * 50 + "-one", "pwB" + "\u00e9" * 50 + "-two")}
MARK = {"A": "ownerA", "B": "ownerB"}
CODE = {"A": "s(ownerA).ac(ownerA,c(v)).", "B": "s(ownerB).ac(ownerB,c(f))."}
ALL_PW = [p for x in CLIENTS for p in PW[x]]


def other(x):
    return "B" if x == "A" else "A"


TEMP0 = "<oldest temporary account>"


def actions_of(x, full=True):
    y = other(x)
    acts = []
    for n in (OWN[x], SHARED):
        for p in PW[x]:
            acts.append((x, "register", n, p))
    for n in (OWN[x], SHARED, OWN[y]):
        for p in PW[x]:
            acts.append((x, "login", n, p))
    # the name of the other client's oldest temporary account (made by an add without a session), if there is one:
    # such accounts have no password and nobody can log into them
    acts.append((x, "login", TEMP0, PW[x][0]))
    # ... and an attempt to register that very name (account names are unique: it is taken, whatever the account holds)
    acts.append((x, "register", TEMP0, PW[x][0]))
    acts += [(x, "logout"), (x, "info")]
    for n in (OWN[x], SHARED):
        for p in PW[x]:
            acts.append((x, "update", n, p))
    acts.append((x, "update", OWN[y], PW[x][0]))
    acts += [(x, "delete-account"), (x, "add", "x"), (x, "add", "y"), (x, "add-anon", "x"), (x, "solve", "x"), (x, "get", "x"), (x, "get", "y"), (x, "list"), (x, "delete", "x")]
    if full:
        acts += [(x, "anon-get", "x"), (x, "anon-list"), (x, "anon-solve", "x"), (x, "anon-delete", "x")]
    return acts


class World:
    def __init__(self, svc):
        self.svc = svc
        self.stub = svc.stub
        self.clients = {x: Client() for x in CLIENTS}
        self.reset_model()
        self.viol = []
        self.requests = 0

    # --------------------------------------------------------------------------------- model
    def reset_model(self):
        self.m = {
            "accounts": {},          # name -> {"creator": X, "password": plaintext or None}
            "session": {x: None for x in CLIENTS},
            "bg_origin": [],         # origin client of every pending background write (parallel to stub.bg_writes)
            "temps": [],             # temporary account names in order of appearance
            "temp_creator": {},
            "diverged": {x: False for x in CLIENTS},
            "proj": {x: () for x in CLIENTS},   # projected history (for the alone runs)
            "bg_stale": [],          # per pending write: None, or the name it is keyed by once its issuer released that name
            "tainted": None,         # set once a known hand-over event happened in this history
        }

    def snapshot(self):
        return {"db": self.stub.db.snapshot(), "bg": copy.deepcopy(self.stub.bg_writes), "cookies": {x: self.clients[x].cookie for x in CLIENTS},
                "m": copy.deepcopy(self.m)}

    def restore(self, s):
        self.stub.db.restore(s["db"])
        with self.stub.cv:
            self.stub.bg_writes = copy.deepcopy(s["bg"])
        for x in CLIENTS:
            self.clients[x].cookie = s["cookies"][x]
        self.m = copy.deepcopy(s["m"])

    def canon_name(self, n):
        if n in (OWN["A"], OWN["B"], SHARED) or n is None:
            return n
        if n in self.m["temps"]:
            return "tmp%d" % self.m["temps"].index(n)
        return "?" + str(n)

    def key(self):
        db = self.stub.db
        users = sorted((self.canon_name(d.get("username")), self.m["accounts"].get(d.get("username"), {}).get("password")) for d in db.docs(*USERS))
        probs = sorted((d.get("name"), self.canon_name(d.get("username")), MARK["A"] in d.get("code", ""), MARK["B"] in d.get("code", ""),
                        (d.get("adf") or {}).get("type"), ((d.get("acs_per_strategy") or {}).get("parse_only") or {}).get("type"),
                        ((d.get("acs_per_strategy") or {}).get("ground") or {}).get("type")) for d in db.docs(*PROBS))
        bg = tuple((o, self.canon_name(c["updates"][0]["q"].get("username")), c["updates"][0]["q"].get("name"), tuple(sorted(c["updates"][0]["u"]["$set"].keys())))
                   for o, c in zip(self.m["bg_origin"], self.stub.bg_writes))
        sess = tuple(self.canon_name(self.m["session"][x]) for x in CLIENTS)
        return repr((users, probs, bg, sess, tuple(self.m["diverged"][x] for x in CLIENTS), self.m["tainted"], tuple(self.m["bg_stale"])))

    # --------------------------------------------------------------------------------- violations
    def v(self, kind, msg, hist, handover=None):
        if len(self.viol) < 300:
            case = {"type": "history", "history": [list(a) for a in hist]}
            if handover:
                case["handover"] = handover
            if self.m["tainted"]:
                case["tainted_by"] = self.m["tainted"]
            self.viol.append({"kind": kind, "msg": msg, "case": case})

    def global_index(self, origin, j):
        own = [k for k, o in enumerate(self.m["bg_origin"]) if o == origin]
        return own[j] if j < len(own) else None

    # --------------------------------------------------------------------------------- one request
    def foreign_docs(self, x):
        """documents that carry the other client's marker, encoded"""
        y = other(x)
        return sorted(encode_doc(d) for d in self.stub.db.docs(*PROBS) if MARK[y] in d.get("code", ""))

    def do_request(self, act):
        """performs the HTTP request of an action; returns (status, body, started_background)"""
        x, kind = act[0], act[1]
        c = self.clients[x]
        self.requests += 1
        if kind == "register":
            return c.register(act[2], act[3]) + (False,)
        if kind == "login":
            return c.login(act[2], act[3]) + (False,)
        if kind == "logout":
            return c.logout() + (False,)
        if kind == "info":
            return c.info() + (False,)
        if kind == "update":
            return c.update(act[2], act[3]) + (False,)
        if kind == "delete-account":
            return c.delete_account() + (False,)
        if kind == "add":
            if c.cookie is None:
                return (0, "(skipped: no session)", False)
            st, b = c.add(act[2], CODE[x], "Naive")
            return st, b, st // 100 == 2
        if kind == "add-anon":
            old = c.cookie
            c.cookie = None
            st, b = c.add(act[2], CODE[x], "Hybrid")
            if c.cookie is None:
                c.cookie = old
            return st, b, st // 100 == 2
        if kind == "solve":
            st, b = c.solve(act[2], "Ground")
            return st, b, st // 100 == 2
        if kind == "get":
            return c.get(act[2]) + (False,)
        if kind == "list":
            return c.list() + (False,)
        if kind == "delete":
            return c.delete(act[2]) + (False,)
        if kind == "anon-get":
            return c.get(act[2], with_cookie=False) + (False,)
        if kind == "anon-list":
            return c.list(with_cookie=False) + (False,)
        if kind == "anon-solve":
            st, b = c.solve(act[2], "Ground", with_cookie=False)
            return st, b, st // 100 == 2
        if kind == "anon-delete":
            return c.delete(act[2], with_cookie=False) + (False,)
        raise MachineryError("unknown action %r" % (act,))

    def mark_released(self, x, name):
        for k, c in enumerate(self.stub.bg_writes):
            if self.m["bg_origin"][k] == x and c["updates"][0]["q"].get("username") == name:
                self.m["bg_stale"][k] = name

    def normalise(self, body):
        # JSON bodies: the graph DTO is built from hash maps, whose serialisation order differs from request to request
        try:
            body = json.dumps(json.loads(body), sort_keys=True)
        except ValueError:
            pass
        return self.normalise_names(body)

    def normalise_names(self, body):
        # temporary names are random: replace each by (creator, index among the creator's temporary accounts), which is
        # the same in the combined and in the alone run
        count = {}
        for t in self.m["temps"]:
            cr = self.m["temp_creator"].get(t, "?")
            body = body.replace(t, "tmp%s%d" % (cr, count.get(cr, 0)))
            count[cr] = count.get(cr, 0) + 1
        return body

    def step(self, act, hist, check_alone=None):
        """executes one action (or pending-write event) in the current state, updates the model, checks clauses 1-5;
        returns the observation (status, normalised body)"""
        x, kind = act[0], act[1]
        y = other(x)
        m = self.m
        if kind in ("login", "register") and act[2] == TEMP0:
            live = [t for t in m["temps"] if t in m["accounts"] and m["temp_creator"].get(t) == y]
            if not live:
                return None
            act = (x, kind, live[0], act[3])
        before_foreign = self.foreign_docs(x)
        users_before = {d.get("username") for d in self.stub.db.docs(*USERS)}
        handover = None
        if kind == "apply":
            k = self.global_index(x, act[2])
            if k is None:
                return None
            stale = m["bg_stale"][k]
            if stale is not None:
                acc = m["accounts"].get(stale)
                if acc is not None and acc["creator"] != x:
                    handover = {"name": self.canon_name(stale), "released_by": x, "taken_by": acc["creator"], "stale": "background write of add/solve keyed by the released name"}
            self.stub.apply_bg(k)
            m["bg_origin"].pop(k)
            m["bg_stale"].pop(k)
            obs = (0, "applied")
        else:
            nbg = len(self.stub.bg_writes)
            st, body, started = self.do_request(act)
            if started:
                try:
                    self.stub.wait_for(lambda: len(self.stub.bg_writes) > nbg, timeout=60.0, what="the background write of %r" % (act,))
                except TimeoutError as e:
                    raise MachineryError(str(e))
                m["bg_origin"].append(x)
                m["bg_stale"].append(None)
            if len(self.stub.bg_writes) != len(m["bg_origin"]):
                raise MachineryError("a background write appeared that no request accounts for (%r)" % (act,))
            self.svc.check()
            # new temporary accounts
            for d in self.stub.db.docs(*USERS):
                n = d.get("username")
                if n not in users_before and d.get("password") is None and n not in m["temps"]:
                    m["temps"].append(n)
                    m["temp_creator"][n] = x
                    m["accounts"][n] = {"creator": x, "password": None}
                    if kind == "add-anon":
                        m["session"][x] = n
            nbody = self.normalise(body)
            obs = (st, nbody)
            ok = st // 100 == 2
            # ---- clause 1 / 3
            if MARK[y] in body:
                self.v("leak:foreign-problem-in-response", "the response to %s for %r contains the other client's problem (status %s)" % (x, act, st), hist + [act])
            if kind.startswith("anon-"):
                if st // 100 == 2:
                    self.v("unauthenticated:not-refused", "%r without a session was accepted (status %s)" % (act, st), hist + [act])
                if MARK["A"] in body or MARK["B"] in body:
                    self.v("unauthenticated:data", "%r without a session returned problem data" % (act,), hist + [act])
            # ---- model update + clause 4
            sess = m["session"][x]
            if kind == "register" and ok:
                if act[2] in m["accounts"]:
                    self.v("names:duplicate-registration", "register(%s) succeeded although the name is taken" % act[2], hist + [act])
                m["accounts"][act[2]] = {"creator": x, "password": act[3]}
            elif kind == "login":
                acc = m["accounts"].get(act[2])
                should = acc is not None and acc["password"] is not None and acc["password"] == act[3]
                if ok != should:
                    self.v("login:wrong-decision", "login(%s, %s) answered %s; the password most recently set for that account is %r" % (act[2], act[3], st, acc and acc["password"]), hist + [act])
                if ok:
                    m["session"][x] = act[2]
                    # the session must really work, and as that account
                    st2, b2 = self.clients[x].info()
                    self.requests += 1
                    if st2 != 200 or json.loads(b2).get("username") != act[2]:
                        self.v("login:session-not-working", "after a successful login(%s) /users/info answers %s %s" % (act[2], st2, b2[:80]), hist + [act])
            elif kind == "logout" and ok:
                m["session"][x] = None
            elif kind == "update" and ok:
                if sess is None or sess not in m["accounts"]:
                    self.v("update:without-account", "update succeeded without a valid session", hist + [act])
                else:
                    if act[2] != sess and act[2] in m["accounts"]:
                        self.v("names:duplicate-registration", "update to the taken name %s succeeded" % act[2], hist + [act])
                    acc = m["accounts"].pop(sess)
                    m["accounts"][act[2]] = {"creator": acc["creator"], "password": act[3]}
                    m["session"][x] = act[2]
                    if act[2] != sess:
                        self.mark_released(x, sess)
            elif kind == "delete-account" and ok:
                if sess in m["accounts"]:
                    del m["accounts"][sess]
                    self.mark_released(x, sess)
                m["session"][x] = None
            elif kind == "info" and st == 404:
                m["session"][x] = None   # the service logs out a session whose account vanished
            # a session must never act for an account the client did not create
            if kind in ("info",) and ok:
                try:
                    nme = json.loads(body).get("username")
                except ValueError:
                    nme = None
                acc = m["accounts"].get(nme)
                if acc is None or acc["creator"] != x:
                    self.v("session:foreign-account", "%s's session is answered as account %r which it did not create" % (x, self.canon_name(nme)), hist + [act])
        # ---- clause 2
        after_foreign = self.foreign_docs(x)
        if after_foreign != before_foreign:
            self.v("foreign-problem-modified", "%r by %s changed, re-owned or deleted a problem of the other client" % (act, x), hist + [act], handover=handover)
            if handover:
                m["tainted"] = "K1"
                m["diverged"][y] = True
        # ---- clause 5
        seen_hashes = {}
        names_seen = set()
        for d in self.stub.db.docs(*USERS):
            pw = d.get("password")
            n = d.get("username")
            if n in names_seen:
                self.v("names:not-unique", "two accounts are called %s" % self.canon_name(n), hist + [act])
            names_seen.add(n)
            if pw is not None:
                if not str(pw).startswith("$argon2"):
                    self.v("credential:not-hashed", "stored credential of %s is not an argon2 hash: %r" % (self.canon_name(n), str(pw)[:20]), hist + [act])
                if pw in seen_hashes:
                    self.v("credential:unsalted", "accounts %s and %s store the same credential string" % (self.canon_name(n), self.canon_name(seen_hashes[pw])), hist + [act])
                seen_hashes[pw] = n
        blob = b"".join(encode_doc(d) for coll in self.stub.db.colls.values() for d in coll)
        for p in ALL_PW:
            if p.encode() in blob:
                self.v("credential:plaintext", "a stored document contains the submitted password %s" % p, hist + [act])
        if set(m["accounts"]) != names_seen:
            self.v("accounts:model-mismatch", "accounts in the database %s, accounts the successful requests account for %s" % (sorted(map(self.canon_name, names_seen)), sorted(map(self.canon_name, m["accounts"]))), hist + [act])
        return obs


def touches_foreign_name(world, act):
    """does the action target a name currently held by an account of the other client (or contested before)?"""
    x, kind = act[0], act[1]
    if kind in ("login", "register") and act[2] == TEMP0:
        return True
    if kind in ("register", "login", "update"):
        acc = world.m["accounts"].get(act[2])
        return acc is not None and acc["creator"] != x
    return False


class Alone:
    """memoised alone runs: projected history of one client -> (observation of its last step, snapshot)"""

    def __init__(self, world):
        self.w = world
        self.memo = {}
        self.requests = 0

    def run(self, x, proj):
        """returns the observation of the last step of proj when client x is alone"""
        if proj in self.memo:
            return self.memo[proj][0]
        w = self.w
        saved = w.snapshot()
        saved_viol = len(w.viol)
        if len(proj) > 1:
            self.run(x, proj[:-1])
            w.restore(self.memo[proj[:-1]][1])
        else:
            w.restore(EMPTY)
        obs = w.step(proj[-1], [("alone",)] + list(proj[:-1]))
        self.requests += 1
        self.memo[proj] = (obs, w.snapshot())
        del w.viol[saved_viol:]   # clause 1-5 findings of alone runs are reported by the combined runs
        w.restore(saved)
        return obs


EMPTY = None


def clause6(world, alone, act, obs, foreign, hist):
    x = act[0]
    m = world.m
    m["proj"][x] = m["proj"][x] + (act,)
    if m["diverged"][x]:
        return
    aobs = alone.run(x, m["proj"][x])
    if aobs == obs:
        return
    if foreign:
        # the step targeted a name held by the other client: account names are unique, the answers may differ
        if act[1] != "login":
            m["diverged"][x] = True
        return
    world.v("alone-equivalence", "%s's request %r is answered %s %r; alone it would be answered %s %r" % (
        x, act, obs[0], obs[1][:160], aobs and aobs[0], (aobs and aobs[1] or "")[:160]), hist + [act])
    m["diverged"][x] = True


# first actions after which the account life cycle has changed (a name released, an account gone, a session ended): what
# the OTHER client can then do with the name is where hand-over effects show, so these are explored to the full depth
# from every seed and under every VERIF_SEED (the residue-class split only decides the depth of the remaining ones)
ALWAYS_DEEP_FIRST = {"delete-account", "update", "logout"}


def bfs(world, alone, root_hist, depth, max_defer, budget_end, stats, first_filter=None, shallow_depth=None):
    """breadth-first search from the current state of `world`; with `shallow_depth`, first actions whose kind is not in
    ALWAYS_DEEP_FIRST are followed to that depth only"""
    seen = {world.key(): depth}      # state -> deepest limit it has been scheduled with
    frontier = [(world.snapshot(), list(root_hist), depth)]
    stats["states"] += 1
    for level in range(depth):
        nxt = []
        for snap, hist, limit in frontier:
            world.restore(snap)
            acts = actions_of("A") + actions_of("B")
            for xx in CLIENTS:
                acts += [(xx, "apply", j) for j in range(sum(1 for o in world.m["bg_origin"] if o == xx))]
            for ai, act in enumerate(acts):
                if level == 0 and first_filter is not None and not first_filter(ai):
                    continue
                if time.time() > budget_end:
                    stats["capped"] = True
                    return level
                world.restore(snap)
                x = act[0]
                foreign = touches_foreign_name(world, act)
                obs = world.step(act, hist)
                if obs is None:
                    continue
                stats["transitions"] += 1
                # clause 6
                clause6(world, alone, act, obs, foreign, hist)
                k = world.key()
                stats["outcomes"].add((act[1], obs[0]))
                lim = limit
                if level == 0 and shallow_depth is not None and act[1] not in ALWAYS_DEEP_FIRST:
                    lim = shallow_depth
                if k not in seen:
                    stats["states"] += 1
                if seen.get(k, -1) < lim:
                    seen[k] = lim
                    if level + 1 < lim:
                        nxt.append((world.snapshot(), hist + [act], lim))
        frontier = nxt
        stats["completed_depth"] = level + 1
    return depth


def seed_state(world, which):
    """builds a seed by a fixed history; returns that history"""
    hist = []

    def do(act):
        world.step(act, hist)
        world.m["proj"][act[0]] = world.m["proj"][act[0]] + (act,)
        hist.append(act)
    if which == "empty":
        return hist
    for x in CLIENTS:
        do((x, "register", OWN[x], PW[x][0]))
        do((x, "login", OWN[x], PW[x][0]))
    if which == "logged-in":
        return hist
    if which == "owning":
        for x in CLIENTS:
            do((x, "add", "x"))
            do((x, "apply", 0))
        return hist
    if which == "holding2":
        # A holds the shared name and owns two stored problems x and y; B is logged in as u2 and owns x
        do(("A", "update", SHARED, PW["A"][1]))
        for nme in ("x", "y"):
            do(("A", "add", nme))
            do(("A", "apply", 0))
        do(("B", "add", "x"))
        do(("B", "apply", 0))
        return hist
    if which == "pending":
        # A holds the shared name and owns x whose parse result is still pending; B is logged in
        do(("A", "update", SHARED, PW["A"][1]))
        do(("A", "add", "x"))
        do(("B", "add", "x"))
        do(("B", "apply", 0))
        return hist
    raise MachineryError("unknown seed " + which)


def specs(tier, seed, nworkers):
    quick = tier == "quick"
    s = []
    groups = 4 if quick else 6
    for g in range(groups):
        s.append({"mode": "E1", "seed_state": "empty", "depth": 3 if quick else 4, "group": g, "groups": groups, "tier": tier})
    s.append({"mode": "E1", "seed_state": "logged-in", "depth": 2 if quick else 3, "group": 0, "groups": 1, "tier": tier})
    s.append({"mode": "E1", "seed_state": "owning", "depth": 2 if quick else 3, "group": 0, "groups": 1, "tier": tier})
    hg = 20 if quick else 10
    for g in range(hg):
        deep = (not quick) or g % 2 != seed % 2
        s.append({"mode": "E1", "seed_state": "holding2", "depth": 4 if not quick else 3, "shallow_depth": None if deep else 2, "group": g, "groups": hg, "tier": tier})
    s.append({"mode": "E3", "tier": tier})
    pg = 20 if quick else 10
    for g in range(pg):
        # quick: depth 3 from this seed for one half of the first actions (the half is selected by the seed), the other
        # half to depth 2; thorough: everything to depth 4
        deep = (not quick) or g % 2 == seed % 2
        s.append({"mode": "E1", "seed_state": "pending", "depth": 4 if not quick else 3, "shallow_depth": None if deep else 2, "group": g, "groups": pg, "tier": tier})
    return s


def meta(tier, seed, results):
    return {
        "rule": "E1: breadth-first search over request histories of two clients against the real server binary; alphabet per client: register/login (own, shared and the other's name x two own passwords), logout, info, update (rename to own/shared/taken name x passwords), delete-account, add (with session / without: temporary account), solve, get, list, delete and the four unauthenticated variants, plus the event 'apply pending background write k'; one request at a time, its own database commands answered at once, the background write of add/solve captured and deferred. States (database + pending writes + sessions) are restored from snapshots and deduplicated on a canonical form (hashes -> password last set, temporary names -> first-seen index). Roots: the empty service and three seeds (both registered and logged in; both owning problem x; A holding the shared name with a pending parse write). Quick tier: from the seeds with a pending write and with two problems, depth 3 is completed for every first action that changes the account life cycle (rename, delete-account, logout) and for the other first actions in one residue class modulo 2 (selected by VERIF_SEED), depth 2 for the rest. After every transition clauses 1-6 of the oracle (see c17.py). Non-trivial: transitions executed in a state other than the root.",
        "samples": [{"history": [["A", "register", "u1", "pwAone"], ["A", "login", "u1", "pwAone"], ["A", "add", "x"], ["B", "add-anon", "x"], ["A", "apply", 0]]}],
        "exhaustive": all(not r.get("capped") for r in results),
        "completed_depth_per_worker": [r.get("completed_depth") for r in results],
        "states_are": "service states (database, pending background writes, sessions) up to canonical renaming",
        "transitions_are": "HTTP requests and applications of pending writes executed from restored states",
        "assumptions": ["the Mongo stub implements the commands the server uses, incl. the unique index on user names for insert and update",
                        "clients never share a password, so every cross-account access is illegitimate",
                        "request-level atomicity in E1; interleavings of database commands of concurrent requests are explored by E2"],
    }


def worker(server_bin, spec):
    global EMPTY
    t0 = time.time()
    svc = Service(server_bin)
    w = World(svc)
    stats = {"states": 0, "transitions": 0, "outcomes": set(), "capped": False, "completed_depth": 0}
    res = {"ok": True}
    try:
        svc.stub.mode = "defer_bg"
        EMPTY = w.snapshot()
        alone = Alone(w)
        if "replay" in spec:
            hist = [tuple(a) for a in spec["replay"]["history"]]
            done = []
            for act in hist:
                if act[0] == "alone":
                    continue
                foreign = touches_foreign_name(w, act)
                obs = w.step(act, done)
                if obs is None:
                    continue
                clause6(w, alone, act, obs, foreign, done)
                done.append(act)
        else:
            quick = spec["tier"] == "quick"
            if spec.get("mode") == "E3":
                overlap(w, stats)
                overlap_coinciding_keys(w, stats)
                svc.check()
                res.update({"violations": w.viol, "requests": w.requests, "states": stats["states"], "transitions": stats["transitions"],
                            "nontrivial": stats.get("windows_observed", 0), "outcomes": [], "wall": time.time() - t0, "capped": False,
                            "completed_depth": None, "spec": spec, "windows_observed": stats.get("windows_observed", 0)})
                return res
            root = seed_state(w, spec["seed_state"])
            budget_end = t0 + (100 if quick else 1500)
            g, gs = spec["group"], spec["groups"]
            bfs(w, alone, root, spec["depth"], 2, budget_end, stats, first_filter=(lambda ai: ai % gs == g) if gs > 1 else None, shallow_depth=spec.get("shallow_depth"))
        svc.check()
    except MachineryError as e:
        res = {"ok": False, "machinery": str(e)}
    finally:
        svc.close()
    res.update({"violations": w.viol, "requests": w.requests, "states": stats["states"], "transitions": stats["transitions"],
                "nontrivial": max(0, stats["transitions"] - 60), "outcomes": sorted(map(repr, stats["outcomes"])), "wall": time.time() - t0,
                "capped": stats["capped"], "completed_depth": stats["completed_depth"], "spec": spec})
    return res


# =====================================================================================================================
# E2: schedules - every interleaving of the database commands of concurrent requests (controlled scheduler)

class Activity:
    def __init__(self, aid, client, requests):
        self.id = aid
        self.client = client
        self.requests = requests       # list of actions executed one after the other
        self.responses = []
        self.done = threading.Event()
        self.thread = None
        self.parked = None             # Pending currently parked for this activity
        self.is_bg = False
        self.error = None


class E2:
    def __init__(self, world):
        self.w = world
        self.stub = world.stub

    def run(self, seed_snap, acts_spec, schedule, hist_label):
        """acts_spec: [(client, [actions])]; schedule: list of activity ids (prefix; afterwards the canonical default).
        Returns (choice_points, observations); choice_points = [(chosen, enabled list, current)]"""
        w = self.w
        stub = self.stub
        w.restore(seed_snap)
        stub.mode = "controlled"
        acts = [Activity(i, c, reqs) for i, (c, reqs) in enumerate(acts_spec)]
        attributed = set()
        holder = {}      # account name -> client, maintained from applied user-collection commands
        for n, acc in w.m["accounts"].items():
            holder[n] = acc["creator"]
        expected_bg = []  # clients whose started task has not shown its write yet
        unmatched_bg = []  # background writes that arrived before their request's response was read
        points = []
        viol_ctx = hist_label

        def runner(a):
            try:
                for act in a.requests:
                    st, body, started = w.do_request(act)
                    # what is parked for the other client at the moment this response arrives (hand-over detection)
                    ho = None
                    for o in list(acts):
                        pk = o.parked
                        if o.client != a.client and pk is not None:
                            ho = ho or E2.handover_of(pk.cmd, o.client, holder)
                    a.responses.append((act, st, body, started, ho))
                    if started:
                        with stub.cv:
                            if unmatched_bg:
                                unmatched_bg.pop(0).client = a.client   # its write arrived before the response was read
                            else:
                                expected_bg.append(a.client)
                            stub.cv.notify_all()
            except Exception as e:  # noqa
                a.error = repr(e)
            finally:
                a.done.set()
                with stub.cv:
                    stub.cv.notify_all()

        def settle(cur):
            """wait until activity `cur` is parked or done and every announced background write has arrived"""
            deadline = time.time() + 60
            while True:
                with stub.cv:
                    for p in stub.parked:
                        if p.id in attributed:
                            continue
                        attributed.add(p.id)
                        if is_background_write(p.cmd):
                            origin = expected_bg.pop(0) if expected_bg else "?"
                            b = Activity(len(acts), origin, [])
                            if origin == "?":
                                unmatched_bg.append(b)
                            b.is_bg = True
                            b.parked = p
                            b.done.set()
                            acts.append(b)
                        else:
                            if cur is None or cur.parked is not None:
                                raise MachineryError("a database command appeared that cannot be attributed to the released activity")
                            cur.parked = p
                    ok = (cur is None or cur.parked is not None or cur.done.is_set()) and not expected_bg and not unmatched_bg
                    if ok and cur is not None and cur.done.is_set() and cur.parked is None:
                        # the thread may have finished a request that announced a background task just now
                        ok = not expected_bg
                    if ok:
                        return
                    if time.time() > deadline:
                        raise MachineryError("quiescence time-out in the controlled scheduler (%s)" % (viol_ctx,))
                    stub.cv.wait(0.05)

        # start the activities one by one so that their first commands can be attributed
        for a in acts[:len(acts_spec)]:
            a.thread = threading.Thread(target=runner, args=(a,), daemon=True)
            a.thread.start()
            settle(a)
        current = None
        step = 0
        while True:
            enabled = [a for a in acts if a.parked is not None and a.client != "?"]
            if not enabled and any(a.parked is not None for a in acts):
                settle(None)
                with stub.cv:
                    stub.cv.wait(0.02)
                continue
            if not enabled:
                if all(a.done.is_set() for a in acts):
                    break
                settle(None)
                if not any(a.parked is not None for a in acts) and all(a.done.is_set() for a in acts):
                    break
                continue
            order = sorted(enabled, key=lambda a: (0 if current is not None and a.id == current.id else 1, a.id))
            ids = [a.id for a in order]
            if step < len(schedule):
                if schedule[step] not in ids:
                    raise MachineryError("replay divergence: scheduled activity %s is not enabled (%s) in %s" % (schedule[step], ids, viol_ctx))
                chosen = next(a for a in order if a.id == schedule[step])
            else:
                chosen = order[0]
            points.append((chosen.id, ids, current.id if current is not None and current.parked is not None else None))
            step += 1
            # release one command and judge its effect on the other client's documents
            x = chosen.client
            p = chosen.parked
            chosen.parked = None
            before = w.foreign_docs(x) if x in CLIENTS else None
            handover = self.handover_of(p.cmd, x, holder)
            if handover is None:
                # a hand-over in progress: the other client's re-owning step / result write, keyed by a name this
                # client holds by now, is still parked - documents of both carry that name at this moment
                for o in acts:
                    if o.client != x and o.parked is not None:
                        handover = handover or self.handover_of(o.parked.cmd, o.client, holder)
            stub.release(p)
            self.track_holder(p.cmd, x, holder)
            if x in CLIENTS and w.foreign_docs(x) != before:
                w.v("foreign-problem-modified", "a database command of %s's %s changed, re-owned or deleted a problem of the other client" % (x, "background write" if chosen.is_bg else "request %r" % (chosen.requests,)),
                    [("schedule", hist_label, [pt[0] for pt in points])], handover=handover)
            current = chosen
            if not chosen.is_bg:
                settle(chosen)
            else:
                settle(None)
        for a in acts:
            if a.error:
                raise MachineryError("request thread failed: %s" % a.error)
        stub.mode = "defer_bg"
        # responses: clause 1 (with hand-over detection for the known finding)
        obs = []
        for a in acts[:len(acts_spec)]:
            y = other(a.client)
            for (act, st, body, started, ho) in a.responses:
                obs.append((a.client, act, st, w.normalise(body)))
                if MARK[y] in body:
                    w.v("leak:foreign-problem-in-response", "the response to %s for %r contains the other client's problem (status %s)" % (a.client, act, st),
                        [("schedule", hist_label, [pt[0] for pt in points])], handover=ho)
        return points, obs

    @staticmethod
    def track_holder(cmd, x, holder):
        name = next(iter(cmd))
        if cmd[name] != "users":
            return
        n = name.lower()
        if n == "insert":
            for d in cmd["documents"]:
                holder[d.get("username")] = x
        elif n == "update":
            for u in cmd["updates"]:
                if not any(k.startswith("$") for k in u["u"]):
                    old = u["q"].get("username")
                    if holder.get(old) == x:
                        holder.pop(old, None)
                    holder[u["u"].get("username")] = x
        elif n == "delete":
            for d in cmd["deletes"]:
                if holder.get(d["q"].get("username")) == x:
                    holder.pop(d["q"].get("username"), None)

    @staticmethod
    def handover_of(cmd, x, holder):
        """is this command of client x keyed by an account name that another client holds by now?"""
        name = next(iter(cmd))
        if cmd[name] != "adf-problems" or name.lower() not in ("update", "delete"):
            return None
        qs = [u["q"] for u in cmd.get("updates", [])] + [d["q"] for d in cmd.get("deletes", [])]
        for q in qs:
            n = q.get("username")
            if n is not None and holder.get(n) not in (None, x):
                # the known finding K1 is about UPDATES keyed by a released name (the re-owning step of a rename, formerly also the
                # result writes); a DELETE filtered by a name its issuer has already released is another call site and is
                # worded so that the matcher of K1 does not take it
                if name.lower() == "update":
                    return {"name": n, "released_by": x, "taken_by": holder.get(n), "stale": "database command of a request or background write keyed by the released name"}
                return {"name": n, "released_by": x, "taken_by": holder.get(n), "stale": "delete command of a request, filtered by an account name that its issuer had already released"}
        return None

    @staticmethod
    def response_handover(x, holder, acts):
        """x was shown foreign data: is a re-owning / result write of the other client, keyed by a name x holds now, still parked?"""
        for a in acts:
            if a.client != x and a.parked is not None:
                h = E2.handover_of(a.parked.cmd, a.client, holder)
                if h:
                    return h
        return None


def e2_pairs(seed_name):
    pa, pb = PW["A"], PW["B"]
    a_reqs = [("A", "update", SHARED, pa[1]), ("A", "update", OWN["A"], pa[0]), ("A", "delete-account"), ("A", "add", "y"), ("A", "delete", "x"), ("A", "solve", "x"), ("A", "list"),
              ("A", "register", SHARED, pa[0]), ("A", "register", "u4", pa[0])]
    b_seqs = [
        [("B", "register", SHARED, pb[0])],
        [("B", "update", SHARED, pb[1])],
        [("B", "add", "x")],
        [("B", "add", "y")],
        [("B", "get", "x")],
        [("B", "list")],
        [("B", "delete", "x")],
        [("B", "solve", "x")],
        [("B", "update", SHARED, pb[1]), ("B", "list"), ("B", "add", "z")],
        [("B", "update", SHARED, pb[1]), ("B", "get", "x"), ("B", "delete", "x")],
        [("B", "register", "u4", pb[0])],
        [("B", "update", "u4", pb[1])],
    ]
    return [(a, b) for a in a_reqs for b in b_seqs]


def e2_seed(world, which):
    if which == "holding":
        # A holds the shared name and owns x (stored), B is logged in as u2 and owns x (stored)
        hist = seed_state(world, "logged-in")
        for act in [("A", "update", SHARED, PW["A"][1]), ("A", "add", "x"), ("A", "apply", 0), ("B", "add", "x"), ("B", "apply", 0)]:
            world.step(act, hist)
            world.m["proj"][act[0]] = world.m["proj"][act[0]] + (act,)
            hist.append(act)
        return hist
    return seed_state(world, which)


def explore_pair(world, e2, alone, seed_snap, seed_name, a_req, b_seq, bound, stats, budget_end):
    label = {"seed": seed_name, "A": list(a_req), "B": [list(x) for x in b_seq]}
    spec = [("A", [a_req]), ("B", b_seq)]
    work = [[]]
    outcomes = set()
    n = 0
    while work:
        if time.time() > budget_end:
            stats["capped"] = True
            break
        prefix = work.pop()
        nviol = len(world.viol)
        points, obs = e2.run(seed_snap, spec, prefix, label)
        for v in world.viol[nviol:]:
            v["case"] = {"type": "schedule", "seed": seed_name, "A": list(a_req), "B": [list(x) for x in b_seq], "schedule": [p[0] for p in points],
                         **({"handover": v["case"]["handover"]} if "handover" in v["case"] else {})}
        n += 1
        stats["transitions"] += len(points)
        outcomes.add(repr(obs))
        # clause 6: every response equals the response of the alone run, up to the first request that targets a name the
        # other client holds or targets itself
        world.restore(seed_snap)
        for x, reqs in (("A", [a_req]), ("B", b_seq)):
            oth = [a_req] if x == "B" else b_seq
            contested = {world.m["session"][other(x)]} | {r[2] for r in oth if r[1] in ("register", "update", "login")}
            if any(r[1] in ("update", "delete-account") for r in oth):
                contested.add(world.m["session"][other(x)])
            proj = world.m["proj"][x]
            for i, r in enumerate(reqs):
                if r[1] in ("register", "update", "login") and r[2] in contested:
                    break
                proj = proj + (r,)
                aobs = alone.run(x, proj)
                got = next(((o[2], o[3]) for o in obs if o[0] == x and o[1] == r), None)
                if aobs is not None and got is not None and tuple(aobs) != tuple(got):
                    nv = len(world.viol)
                    world.v("alone-equivalence", "%s's request %r is answered %s %r under schedule %s; alone it would be answered %s %r" % (
                        x, r, got[0], got[1][:160], [p[0] for p in points], aobs[0], aobs[1][:160]), [("schedule", label, [p[0] for p in points])])
                    for v in world.viol[nv:]:
                        v["case"] = {"type": "schedule", "seed": seed_name, "A": list(a_req), "B": [list(q) for q in b_seq], "schedule": [p[0] for p in points]}
                    break
        # final state checks (clause 5) through a no-op step would need a request; check credentials directly
        seen_names = set()
        for d in world.stub.db.docs(*USERS):
            if d.get("username") in seen_names:
                world.v("names:not-unique", "two accounts are called %s after schedule %s" % (d.get("username"), [p[0] for p in points]),
                        [("schedule", label, [p[0] for p in points])])
            seen_names.add(d.get("username"))
            pw = d.get("password")
            if pw is not None and not str(pw).startswith("$argon2"):
                world.v("credential:not-hashed", "stored credential is not an argon2 hash", [("schedule", label, [p[0] for p in points])])
        # branch
        for i in range(len(prefix), len(points)):
            chosen, ids, cur = points[i]
            pre = 0
            for j in range(i):
                c2, ids2, cur2 = points[j]
                if cur2 is not None and c2 != cur2:
                    pre += 1
            for alt in ids:
                if alt == chosen:
                    continue
                cost = pre + (1 if cur is not None and alt != cur else 0)
                if cost > bound:
                    continue
                work.append([p[0] for p in points[:i]] + [alt])
    stats["schedules"] += n
    stats["outcome_sets"].append(len(outcomes))
    for o in outcomes:
        stats["outcomes"].add(hash(o) % 100000)
    return n


_old_specs = specs


def specs(tier, seed, nworkers):  # noqa: F811
    s = _old_specs(tier, seed, nworkers)
    quick = tier == "quick"
    groups = 6 if quick else 8
    for seed_name in ("holding", "owning"):
        for g in range(groups):
            s.append({"mode": "E2", "seed_state": seed_name, "group": g, "groups": groups, "bound": 1 if quick else 3, "tier": tier})
    return s


_old_worker = worker


def worker(server_bin, spec):  # noqa: F811
    global EMPTY
    if spec.get("mode") != "E2" and not ("replay" in spec and spec["replay"].get("type") == "schedule"):
        return _old_worker(server_bin, spec)
    t0 = time.time()
    svc = Service(server_bin)
    w = World(svc)
    stats = {"states": 0, "transitions": 0, "outcomes": set(), "capped": False, "schedules": 0, "outcome_sets": []}
    res = {"ok": True}
    try:
        svc.stub.mode = "defer_bg"
        EMPTY = w.snapshot()
        e2 = E2(w)
        alone = Alone(w)
        if "replay" in spec:
            c = spec["replay"]
            e2_seed(w, c["seed"])
            snap = w.snapshot()
            nviol = len(w.viol)
            e2.run(snap, [("A", [tuple(c["A"])]), ("B", [tuple(x) for x in c["B"]])], c["schedule"], c)
            for v in w.viol[nviol:]:
                v["case"] = dict(c, **({"handover": v["case"]["handover"]} if "handover" in v["case"] else {}))
        else:
            quick = spec["tier"] == "quick"
            e2_seed(w, spec["seed_state"])
            snap = w.snapshot()
            budget_end = t0 + (100 if quick else 1500)
            pairs = e2_pairs(spec["seed_state"])
            for i, (a, b) in enumerate(pairs):
                if i % spec["groups"] != spec["group"]:
                    continue
                explore_pair(w, e2, alone, snap, spec["seed_state"], a, b, spec["bound"], stats, budget_end)
                stats["states"] += 1
        svc.check()
    except MachineryError as e:
        res = {"ok": False, "machinery": str(e)}
    finally:
        svc.close()
    res.update({"violations": w.viol, "requests": w.requests, "states": stats["states"], "transitions": stats["transitions"],
                "nontrivial": stats["schedules"], "outcomes": sorted(map(repr, stats["outcomes"])), "wall": time.time() - t0,
                "capped": stats["capped"], "completed_depth": None, "spec": spec, "schedules": stats["schedules"], "outcome_sets": stats["outcome_sets"]})
    return res



# =====================================================================================================================
# E3: requests of the other client while a computation is running (the window is observed, not timed: a computation
# is running as long as its result write has not reached the stub)

def big_stable_code(mark, k=15):
    # self-supporting statements: 2^k candidates for the enumerate-and-check stable semantics, a single stable model
    nm = [mark] + ["w%d" % i for i in range(k)]
    return "".join("s(%s)." % x for x in nm) + "".join("ac(%s,%s)." % (x, x) for x in nm)


def overlap_coinciding_keys(world, stats):
    """accounts and problems whose (account name, problem name) pairs read alike when joined: account k with problem
    m/big, account k/m with problem big. While the long computation of one runs, the other's solve request must be
    accepted like any first solve request, and both end with their own answers."""
    import urllib.parse
    from harness import Client
    w = world
    w.restore(EMPTY)
    users = {"A": ("k", "m/big"), "B": ("k/m", "big")}
    cl = {}
    for x in CLIENTS:
        c = Client()
        st, _ = c.register(users[x][0], "pw-" + x)
        st2, _ = c.login(users[x][0], "pw-" + x)
        w.requests += 2
        if st2 // 100 != 2:
            # the service does not take such an account name: nothing to explore
            stats["coinciding_keys"] = "account name %r refused (%s/%s)" % (users[x][0], st, st2)
            return
        cl[x] = c
    q = lambda name: urllib.parse.quote(name, safe="")
    for x in CLIENTS:
        st, body = cl[x].add(users[x][1], big_stable_code(MARK[x], 14), "Naive")
        w.requests += 1
        if st // 100 != 2:
            stats["coinciding_keys"] = "problem name %r refused (%s)" % (users[x][1], st)
            return
        w.stub.wait_for(lambda: len(w.stub.bg_writes) >= 1, timeout=120.0, what="parse write")
        w.stub.apply_bg(0)
    for x in CLIENTS:
        st, body = cl[x].get(q(users[x][1]))
        w.requests += 1
        if st // 100 != 2:
            stats["coinciding_keys"] = "problem %r cannot be addressed in a path (%s)" % (users[x][1], st)
            return
    label = [("overlap", "account k / problem m/big and account k/m / problem big: B's first solve request while A's computation runs")]
    st, body = cl["A"].solve(q(users["A"][1]), "Stable")
    w.requests += 1
    if st // 100 != 2:
        raise MachineryError("cannot start the long computation (%s %s)" % (st, body[:80]))
    stb, bodyb = cl["B"].solve(q(users["B"][1]), "Stable")
    w.requests += 1
    inside = len(w.stub.bg_writes) == 0
    stats["transitions"] += 2
    if inside:
        stats["windows_observed"] = stats.get("windows_observed", 0) + 1
        if stb // 100 != 2:
            w.v("alone-equivalence", "B's first solve request for its own problem is answered %s %r while A's computation on a problem of another account runs (alone it is accepted)" % (stb, bodyb[:80]), label)
        st, body = cl["B"].get(q(users["B"][1]))
        w.requests += 1
        if MARK["A"] in body:
            w.v("leak:foreign-problem-in-response", "response to B contains A's problem", label)
    n = 2 if stb // 100 == 2 else 1
    w.stub.wait_for(lambda: len(w.stub.bg_writes) >= n, timeout=300.0, what="the result writes of the long computations")
    for _ in range(n):
        w.stub.apply_bg(0)
    for x in CLIENTS:
        st, body = cl[x].get(q(users[x][1]))
        w.requests += 1
        try:
            d = json.loads(body)
        except ValueError:
            d = {}
        stab = d.get("acs_per_strategy", {}).get("stable", {})
        if x == "A" or stb // 100 == 2:
            if stab.get("type") != "Some" or MARK[other(x)] in body:
                w.v("alone-equivalence", "%s's problem does not hold its own stable models after both computations ended: %s" % (x, json.dumps(stab)[:120]), label)
        if d.get("running_tasks") not in ([], None):
            w.v("alone-equivalence", "%s's problem still lists running tasks %s after every computation ended" % (x, d.get("running_tasks")), label)
    stats["states"] += 1
    stats["coinciding_keys"] = "explored"


def inflight(world, stats):
    """a GET (one problem / the listing) is in flight - its database query parked - while the task it would report ends and
    the task's result is stored; the response, produced afterwards, must not show the stored result of a strategy AND list
    that very task as still running (the result is written only after the task has unregistered)."""
    import threading
    w = world
    w.restore(EMPTY)
    hist = seed_state(w, "logged-in")
    c = w.clients["A"]
    label = [("inflight", "GET in flight while the task it reports ends and its result is stored")]
    for kind in ("list", "get"):
        name = "fl" + kind
        st, body = c.add(name, big_stable_code(MARK["A"], 14), "Naive")
        w.requests += 1
        if st // 100 != 2:
            raise MachineryError("cannot add the large problem (%s)" % st)
        w.stub.wait_for(lambda: len(w.stub.bg_writes) >= 1, timeout=120.0, what="parse write")
        w.stub.apply_bg(0)
        st, body = c.solve(name, "Stable")
        w.requests += 1
        if st // 100 != 2:
            raise MachineryError("cannot start the long computation (%s %s)" % (st, body[:80]))
        w.stub.mode = "hold_find"
        box = {}

        def ask():
            box["r"] = c.list() if kind == "list" else c.get(name)
        t = threading.Thread(target=ask)
        t.start()
        try:
            w.stub.wait_for(lambda: len(w.stub.parked) >= 1, timeout=60.0, what="the query of the request in flight")
            inside = len(w.stub.bg_writes) == 0      # the computation was still running when the request reached its query
            w.stub.wait_for(lambda: len(w.stub.bg_writes) >= 1, timeout=300.0, what="the result write of the long computation")
            w.stub.apply_bg(0)                        # the result is stored
            w.stub.release(w.stub.parked[0])          # now the query is answered (it sees the stored result)
            t.join(60)
        finally:
            w.stub.mode = "defer_bg"
        w.requests += 1
        stats["transitions"] += 3
        if "r" not in box:
            raise MachineryError("the request in flight got no response")
        st, body = box["r"]
        try:
            d = json.loads(body)
        except ValueError:
            w.v("get-failed", "the %s request in flight is answered %s %r" % (kind, st, body[:100]), label)
            continue
        docs = d if isinstance(d, list) else [d]
        for doc in docs:
            if not isinstance(doc, dict) or doc.get("name") != name:
                continue
            stored = ((doc.get("acs_per_strategy") or {}).get("stable") or {}).get("type")
            running = [t_ for t_ in doc.get("running_tasks", []) if t_.get("type") == "Solve" and t_.get("content") == "Stable"]
            if inside:
                stats["windows_observed"] = stats.get("windows_observed", 0) + 1
            if stored == "Some" and running:
                w.v("ended-task-listed-next-to-its-result", "the %s response shows the stored result of Stable for %s and lists %s as still running" % (kind, name, running), label)
    stats["states"] += 2


def overlap(world, stats):
    w = world
    hist = seed_state(w, "logged-in")
    for x in CLIENTS:
        st, body = w.clients[x].add("big", big_stable_code(MARK[x]), "Naive")
        w.requests += 1
        if st // 100 != 2:
            raise MachineryError("cannot add the large problem (%s)" % st)
        w.stub.wait_for(lambda: len(w.stub.bg_writes) >= 1, timeout=120.0, what="parse write")
        w.stub.apply_bg(0)
    covered = 0
    for x in CLIENTS:
        y = other(x)
        label = [("overlap", "%s solves a large problem named like one of %s; %s asks while the computation runs" % (x, y, y))]
        alone_get = w.clients[y].get("big")
        alone_list = w.clients[y].list()
        alone_get = (alone_get[0], w.normalise(alone_get[1]))
        alone_list = (alone_list[0], w.normalise(alone_list[1]))
        st, body = w.clients[x].solve("big", "Stable")
        w.requests += 3
        if st // 100 != 2:
            raise MachineryError("cannot start the long computation (%s %s)" % (st, body[:80]))
        during_get = w.clients[y].get("big")
        during_list = w.clients[y].list()
        during_get = (during_get[0], w.normalise(during_get[1]))
        during_list = (during_list[0], w.normalise(during_list[1]))
        w.requests += 2
        inside = len(w.stub.bg_writes) == 0     # the result write has not arrived: the computation was still running
        stats["transitions"] += 3
        if inside:
            covered += 1
            if during_get != alone_get:
                w.v("alone-equivalence", "%s's GET of its own problem changes while %s's computation on an equally named problem runs: %r vs %r" % (y, x, during_get[1][-120:], alone_get[1][-120:]), label)
            if during_list != alone_list:
                w.v("alone-equivalence", "%s's problem list changes while %s's computation runs" % (y, x), label)
            if MARK[x] in during_get[1] or MARK[x] in during_list[1]:
                w.v("leak:foreign-problem-in-response", "response to %s contains %s's problem" % (y, x), label)
        w.stub.wait_for(lambda: len(w.stub.bg_writes) >= 1, timeout=300.0, what="the result write of the long computation")
        w.stub.apply_bg(0)
    stats["windows_observed"] = covered
    stats["states"] += 2
