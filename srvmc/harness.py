"""Server process management, HTTP client, definitional oracle (second copy, in Python) and graph reading."""
import http.client
import itertools
import json
import os
import shutil
import socket
import subprocess
import tempfile
import time

from stub import Stub

COOKIE = "adf-obdd-service-auth"


class MachineryError(Exception):
    pass


# ------------------------------------------------------------------------------------------- oracle (truth tables)
def names(n):
    return [chr(ord('a') + i) for i in range(n)]


def formula(tt, n, nm):
    """nested Shannon expansion mentioning only the variables the function depends on"""
    rows = 1 << n
    full = (1 << rows) - 1
    tt &= full

    def dep(t, i):
        return any(((t >> a) & 1) != ((t >> (a ^ (1 << i))) & 1) for a in range(rows))

    def cof(t, i, val):
        r = 0
        for a in range(rows):
            b = a | (1 << i) if val else a & ~(1 << i)
            if (t >> b) & 1:
                r |= 1 << a
        return r

    def rec(t, frm):
        if t & full == 0:
            return "c(f)"
        if t & full == full:
            return "c(v)"
        i = next(i for i in range(frm, n) if dep(t, i))
        hi, lo = rec(cof(t, i, True), i + 1), rec(cof(t, i, False), i + 1)
        if hi == "c(v)" and lo == "c(f)":
            return nm[i]
        if hi == "c(f)" and lo == "c(v)":
            return "neg(%s)" % nm[i]
        return "or(and(%s,%s),and(neg(%s),%s))" % (nm[i], hi, nm[i], lo)
    return rec(tt, 0)


def written(label):
    return label if label.isascii() and label.isalnum() else '"%s"' % label


def adf_text(tts, nm):
    w = [written(x) for x in nm]
    return "".join("s(%s)." % x for x in w) + "".join("ac(%s,%s)." % (w[s], formula(tts[s], len(tts), w)) for s in range(len(tts)))


def gamma(tts, v):
    n = len(tts)
    res = []
    for s in range(n):
        vals = {tts[s] >> a & 1 for a in range(1 << n) if all(v[i] == 2 or v[i] == (a >> i & 1) for i in range(n))}
        res.append(1 if vals == {1} else 0 if vals == {0} else 2)
    return tuple(res)


def grounded(tts):
    v = tuple([2] * len(tts))
    while True:
        w = gamma(tts, v)
        if w == v:
            return v
        v = w


def complete(tts):
    return sorted(v for v in itertools.product((0, 1, 2), repeat=len(tts)) if gamma(tts, v) == v)


def models2(tts):
    n = len(tts)
    return sorted(tuple(a >> i & 1 for i in range(n)) for a in range(1 << n) if all((tts[s] >> a & 1) == (a >> s & 1) for s in range(n)))


def stable(tts):
    n = len(tts)
    out = []
    for v in models2(tts):
        mask = sum(1 << i for i in range(n) if v[i] == 1)
        red = [sum(1 << a for a in range(1 << n) if tt >> (a & mask) & 1) for tt in tts]
        g = grounded(red)
        if all(v[s] != 1 or g[s] == 1 for s in range(n)):
            out.append(v)
    return sorted(out)


def big_code(variant):
    """12 statements, every one decided by the grounded interpretation (chains of and/or/neg/xor over the two predecessors)"""
    n = 12
    tts = []
    for s in range(n):
        t = 0
        for a in range(1 << n):
            p1 = a >> ((s - 1) % n) & 1
            p2 = a >> ((s - 2) % n) & 1
            if s == 0:
                v = 1 if variant % 2 == 0 else 0
            elif s == 1:
                v = 1 - p1 if variant % 3 else p1
            else:
                k = (s + variant) % 4
                v = (p1 & p2, p1 | (1 - p2), p1 ^ p2, 1 - (p1 & p2))[k]
            if v:
                t |= 1 << a
        tts.append(t)
    return tuple(tts), ["s%d" % i for i in range(n)]


STRATEGIES = [("Ground", "ground"), ("Complete", "complete"), ("Stable", "stable"), ("StableCountingA", "stable_counting_a"),
              ("StableCountingB", "stable_counting_b"), ("StableNogood", "stable_nogood")]


def expected(tts):
    if len(tts) > 4:
        # large codes are chosen such that the grounded interpretation decides every statement: then it is the only
        # complete model and the only candidate for a stable model
        g = grounded(tts)
        assert 2 not in g, "large codes must be decided by their grounded interpretation"
        n = len(tts)
        mask = sum(1 << i for i in range(n) if g[i] == 1)
        red = [sum(1 << a for a in range(1 << n) if tt >> (a & mask) & 1) for tt in tts]
        gr = grounded(red)
        st = [g] if all(g[s] != 1 or gr[s] == 1 for s in range(n)) else []
        return {"ground": [g], "complete": [g], "stable": st, "stable_counting_a": st, "stable_counting_b": st, "stable_nogood": st}
    st = stable(tts)
    return {"ground": [grounded(tts)], "complete": complete(tts), "stable": st, "stable_counting_a": st,
            "stable_counting_b": st, "stable_nogood": st}


def val(t):
    return 0 if t == "0" else 1 if t == "1" else 2


def check_graph(g, ac, model, tts, nm):
    """g: graph DTO; ac: root handles (strings) per statement; model: tuple over 0/1/2 or None (parse_only)"""
    n = len(nm)
    errs = []
    try:
        labels = g["node_labels"]
        lo = {}
        hi = {}
        for a, b in g["lo_edges"]:
            if a in lo:
                errs.append("node %s has two lo edges" % a)
            lo[a] = b
        for a, b in g["hi_edges"]:
            if a in hi:
                errs.append("node %s has two hi edges" % a)
            hi[a] = b
        roots = g["tree_root_labels"]
    except (KeyError, TypeError, ValueError) as e:
        return ["graph DTO malformed: %r" % (e,)]
    reach = set()
    todo = list(ac)
    while todo:
        x = todo.pop()
        if x in reach:
            continue
        reach.add(x)
        if x in lo or x in hi:
            todo += [lo.get(x), hi.get(x)]
    reach.discard(None)
    if set(labels) != reach:
        errs.append("node set %s is not the set reachable from the roots %s" % (sorted(labels), sorted(reach)))
    if set(roots) != set(labels):
        errs.append("tree_root_labels covers %s, node_labels %s" % (sorted(roots), sorted(labels)))
    for x, l in labels.items():
        if l in ("TOP", "BOT"):
            if x in lo or x in hi:
                errs.append("terminal %s has an outgoing edge" % x)
        elif x not in lo or x not in hi or l not in nm:
            errs.append("decision node %s is malformed (label %r)" % (x, l))
    if errs:
        return errs
    for s in range(n):
        rs = sorted(x for x, ls in roots.items() if nm[s] in ls)
        if rs != [ac[s]]:
            errs.append("root label for %s is at %s, expected node %s" % (nm[s], rs, ac[s]))
            continue
        if sum(ls.count(nm[s]) for ls in roots.values()) != 1:
            errs.append("root label for %s occurs more than once" % nm[s])
        for a in range(1 << n):
            if model is not None and not all(model[i] == 2 or model[i] == (a >> i & 1) for i in range(n)):
                continue
            cur = rs[0]
            steps = 0
            while labels.get(cur) not in ("TOP", "BOT"):
                if cur not in labels or steps > len(labels):
                    errs.append("walk from the root of %s leaves the graph" % nm[s])
                    break
                cur = hi[cur] if a >> nm.index(labels[cur]) & 1 else lo[cur]
                steps += 1
            else:
                if (labels[cur] == "TOP") != bool(tts[s] >> a & 1):
                    errs.append("following the edges from the root of %s under assignment %s gives %s, the acceptance condition gives %s"
                                % (nm[s], format(a, "0%db" % n)[::-1], labels[cur], bool(tts[s] >> a & 1)))
                    break
                continue
            break
    return errs


# ------------------------------------------------------------------------------------------- HTTP client
class Client:
    def __init__(self, port=8080):
        self.cookie = None
        self.port = port
        self.conn = None

    def _c(self):
        if self.conn is None:
            self.conn = http.client.HTTPConnection("127.0.0.1", self.port, timeout=120)
        return self.conn

    def req(self, method, path, body=None, ctype=None, with_cookie=True):
        h = {}
        if with_cookie and self.cookie:
            h["Cookie"] = "%s=%s" % (COOKIE, self.cookie)
        if ctype:
            h["Content-Type"] = ctype
        for attempt in range(2):
            try:
                c = self._c()
                c.request(method, path, body=body, headers=h)
                r = c.getresponse()
                data = r.read().decode("utf-8", "replace")
                break
            except (http.client.HTTPException, OSError):
                self.conn = None
                if attempt == 1:
                    raise MachineryError("HTTP request %s %s failed" % (method, path))
        if with_cookie:
            for k, v in r.getheaders():
                if k.lower() == "set-cookie" and v.startswith(COOKIE + "="):
                    valc = v.split(";")[0].split("=", 1)[1]
                    self.cookie = valc or None
        return r.status, data

    def json(self, method, path, obj, **kw):
        return self.req(method, path, json.dumps(obj), "application/json", **kw)

    def add(self, name, code, parsing="Naive", **kw):
        b = "XBOUNDARYX"
        body = "".join('--%s\r\nContent-Disposition: form-data; name="%s"\r\n\r\n%s\r\n' % (b, k, v)
                       for k, v in (("name", name), ("parsing", parsing), ("code", code))) + "--%s--\r\n" % b
        return self.req("POST", "/adf/add", body.encode("utf-8"), "multipart/form-data; boundary=" + b, **kw)

    def solve(self, name, strategy, **kw):
        return self.json("PUT", "/adf/%s/solve" % name, {"strategy": strategy}, **kw)

    def get(self, name, **kw):
        return self.req("GET", "/adf/%s" % name, **kw)

    def list(self, **kw):
        return self.req("GET", "/adf/", **kw)

    def delete(self, name, **kw):
        return self.req("DELETE", "/adf/%s" % name, **kw)

    def register(self, u, p):
        return self.json("POST", "/users/register", {"username": u, "password": p}, with_cookie=False)

    def login(self, u, p):
        return self.json("POST", "/users/login", {"username": u, "password": p})

    def logout(self):
        return self.req("DELETE", "/users/logout")

    def info(self):
        return self.req("GET", "/users/info")

    def update(self, u, p):
        return self.json("PUT", "/users/update", {"username": u, "password": p})

    def delete_account(self):
        return self.req("DELETE", "/users/delete")


# ------------------------------------------------------------------------------------------- server process
class Service:
    """stub + server process in the current network namespace"""

    def __init__(self, server_bin):
        self.stub = Stub(27017)
        self.stub.start()
        self.dir = tempfile.mkdtemp(prefix="srvmc-", dir=os.environ.get("SRVMC_TMP", None))
        os.makedirs(os.path.join(self.dir, "assets"), exist_ok=True)
        with open(os.path.join(self.dir, "assets", "index.html"), "w") as f:
            f.write("<html></html>")
        self.log = open(os.path.join(self.dir, "server.log"), "wb")
        env = dict(os.environ, MONGODB_URI="mongodb://127.0.0.1:27017/?serverSelectionTimeoutMS=5000", RUST_BACKTRACE="0")
        self.proc = subprocess.Popen([server_bin], cwd=self.dir, env=env, stdout=self.log, stderr=self.log)
        ok = False
        for _ in range(300):
            if self.proc.poll() is not None:
                break
            try:
                socket.create_connection(("127.0.0.1", 8080), timeout=0.2).close()
                ok = True
                break
            except OSError:
                time.sleep(0.05)
        if not ok:
            tail = ""
            try:
                tail = open(os.path.join(self.dir, "server.log"), "rb").read()[-600:].decode("utf-8", "replace")
            except OSError:
                pass
            self.close()
            raise MachineryError("server did not start listening on :8080: %s" % tail)

    def check(self):
        if self.stub.error:
            raise MachineryError(self.stub.error)
        if self.proc.poll() is not None:
            raise MachineryError("server process ended (status %s)" % self.proc.returncode)

    def close(self):
        try:
            self.proc.kill()
            self.proc.wait(timeout=5)
        except Exception:  # noqa
            pass
        try:
            self.log.close()
        except Exception:  # noqa
            pass
        shutil.rmtree(self.dir, ignore_errors=True)
