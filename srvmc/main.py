#!/usr/bin/env python3
"""Engine B: exploration of the real web service (server binary built from the working tree) over the Mongo stub.

  main.py check C16|C17 --tier quick|thorough
  main.py replay <file>
  main.py worker <prop> <spec.json> <out.json>      (internal: one exploration worker inside its own network namespace)
"""
import json
import os
import subprocess
import sys
import time

HERE = os.path.dirname(os.path.abspath(__file__))
sys.path.insert(0, HERE)
VERIF = os.path.dirname(HERE)
OUT = os.environ.get("VERIF_OUT_DIR", VERIF)


def machinery(msg):
    print("MACHINERY-ERROR " + msg, flush=True)
    sys.exit(2)


def lookup(v, path):
    cur = v
    for p in path.split('.'):
        if not p:
            continue
        if not isinstance(cur, dict) or p not in cur:
            return None
        cur = cur[p]
    return cur


def strings_of(v, out):
    if isinstance(v, str):
        out.append(v)
    elif isinstance(v, list):
        for x in v:
            strings_of(x, out)
    elif isinstance(v, dict):
        for x in v.values():
            strings_of(x, out)


def known_matches(k, viol):
    if k.get("kind_prefix") and not any(viol["kind"].startswith(p) for p in k["kind_prefix"]):
        return False
    for c in k.get("where", []):
        target = lookup(viol["case"], c.get("path", ""))
        if target is None:
            return False
        if "in" in c:
            if target not in c["in"]:
                return False
        elif "equals" in c:
            if target != c["equals"]:
                return False
        elif "contains" in c:
            ss = []
            strings_of(target, ss)
            if not any(c["contains"] in s for s in ss):
                return False
        elif "any_string_contains_char" in c:
            ss = []
            strings_of(target, ss)
            if not any(ch in c["any_string_contains_char"] for s in ss for ch in s):
                return False
        else:
            return False
    return True


def load_known(prop):
    try:
        k = json.load(open(os.path.join(VERIF, "known_findings.json")))
    except OSError:
        return []
    return [f for f in k.get("findings", []) if prop in f.get("properties", [])]


def run_workers(prop, specs, server_bin, timeout):
    """every worker in its own network namespace (the server binds the hard-coded 0.0.0.0:8080)"""
    tmp = os.path.join(VERIF, ".build", "srvmc-%d" % os.getpid())
    os.makedirs(tmp, exist_ok=True)
    use_ns = subprocess.run(["unshare", "-n", "true"], capture_output=True).returncode == 0
    procs = []
    results = []

    def launch(i, spec):
        sp = os.path.join(tmp, "spec%d.json" % i)
        op = os.path.join(tmp, "out%d.json" % i)
        json.dump(spec, open(sp, "w"))
        inner = "%s %s worker %s %s %s" % (sys.executable, os.path.join(HERE, "main.py"), prop, sp, op)
        env = dict(os.environ, ADF_BDD_SERVER=server_bin, SRVMC_TMP=tmp)
        if use_ns:
            cmd = ["unshare", "-n", "sh", "-c", "ip link set lo up && exec " + inner]
        else:
            cmd = ["sh", "-c", inner]
        return subprocess.Popen(cmd, env=env, stdout=subprocess.PIPE, stderr=subprocess.STDOUT, text=True), op

    if use_ns:
        procs = [launch(i, s) for i, s in enumerate(specs)]
        for p, op in procs:
            try:
                out, _ = p.communicate(timeout=timeout)
            except subprocess.TimeoutExpired:
                p.kill()
                machinery("an exploration worker did not finish within %d s" % timeout)
            if not os.path.exists(op):
                print(out[-2000:])
                machinery("an exploration worker ended without a result (status %s)" % p.returncode)
            results.append(json.load(open(op)))
    else:
        # no namespaces: one instance at a time, guarded by a lock file
        import fcntl
        lock = open(os.path.join(VERIF, ".build", "server.lock"), "w")
        fcntl.flock(lock, fcntl.LOCK_EX)
        for i, s in enumerate(specs):
            p, op = launch(i, s)
            out, _ = p.communicate(timeout=timeout)
            if not os.path.exists(op):
                print(out[-2000:])
                machinery("an exploration worker ended without a result (status %s)" % p.returncode)
            results.append(json.load(open(op)))
    subprocess.run(["rm", "-rf", tmp])
    return results, use_ns


REGISTRY_SCENARIOS_QUICK = ["one-task", "two-problems", "same-task-twice", "parse-and-solve", "joined-names-coincide", "two-strategies", "two-users-one-problem-name"]
REGISTRY_SCENARIOS_THOROUGH = REGISTRY_SCENARIOS_QUICK + ["three-tasks", "two-listers", "same-solve-twice"]


def run_registry(tier, only=None, bound=None):
    """exhaustive interleavings (loom) of the server's registry of running tasks, compiled from the working tree's own
    source text; returns (result record or None, note for the evidence)"""
    exe = os.environ.get("RUNLOCK_BIN")
    if not exe:
        return None, {"bound_to_code": False, "skipped": os.environ.get("RUNLOCK_SKIPPED", "registry harness not built")}
    t0 = time.time()
    scen = [only] if only else (REGISTRY_SCENARIOS_QUICK if tier == "quick" else REGISTRY_SCENARIOS_THOROUGH)
    # quick: every schedule with at most 2 preemptions; thorough: at most 4 (3 for the scenarios with four threads beyond
    # the quick list). Executions always run to completion. One process per scenario.
    def bound_of(sc):
        if bound is not None:
            return bound
        if tier == "quick":
            return 2
        return 4 if sc in REGISTRY_SCENARIOS_QUICK else 3
    procs = [(sc, bound_of(sc), subprocess.Popen([exe, tier, "--scenario", sc, "--bound", str(bound_of(sc))], stdout=subprocess.PIPE, stderr=subprocess.PIPE, text=True)) for sc in scen]
    viols, per, schedules, outcomes, nontrivial, items, sites = [], [], 0, 0, 0, [], []
    for sc, b, p in procs:
        try:
            out, err = p.communicate(timeout=1500)
        except subprocess.TimeoutExpired:
            p.kill()
            machinery("the registry exploration of scenario %s did not finish" % sc)
        try:
            d = json.loads(out)
        except ValueError:
            machinery("the registry harness ended without a result for scenario %s (status %s): %s" % (sc, p.returncode, (err or out)[-300:]))
        if not d.get("bound"):
            return None, {"bound_to_code": False, "skipped": d.get("why", "?")}
        if d.get("machinery"):
            machinery("registry harness: " + d["machinery"])
        items = d.get("items", items)
        sites = d.get("handler_sites", [])
        schedules += d["schedules"]
        outcomes += d["distinct_outcomes"]
        nontrivial += d["nontrivial"]
        per.append({"scenario": sc, "preemption_bound": b, "schedules": d["schedules"], "distinct_outcomes": d["distinct_outcomes"]})
        for v in d["violations"]:
            viols.append({"kind": v["kind"], "msg": v["msg"], "case": {"type": "registry-interleavings", "scenario": sc, "preemption_bound": b}})
    # one record per (kind, scenario)
    seen, firsts = set(), []
    for v in viols:
        k = (v["kind"], v["case"]["scenario"])
        if k not in seen:
            seen.add(k)
            firsts.append(v)
    res = {"ok": True, "violations": firsts, "requests": 0, "states": outcomes, "transitions": schedules, "nontrivial": nontrivial, "outcomes": [],
           "wall": time.time() - t0, "capped": False, "completed_depth": None, "spec": {"mode": "registry-interleavings", "tier": tier}}
    note = {"bound_to_code": True, "source_items_compiled": items, "handler_expressions_modelled": sites,
            "thread_bodies_match_handlers": all(x.get("occurrences_in_server_src", 0) > 0 for x in sites) if sites else None, "schedules": schedules, "distinct_outcomes": outcomes, "per_scenario": per,
            "rule": "loom (DPOR, preemption-bounded, every execution runs to completion) over threads that use the server's own RunningGuard / RunningInfo / Task / listing code, extracted from server/src at build time and compiled against loom's Mutex: blocking tasks = register, compute (a scheduling point), unregister; GET = lock, build the listing (a scheduling point while the lock is held), unlock; admission test of solve = lock, contains, unlock. Checked in every schedule: a listing / admission test reports a task only if a task with exactly that user, problem and kind was registered and had not ended before the request began; once all tasks have ended the registry and every listing are empty; no deadlock, no panic, no poisoned lock. Handler code around these expressions is not part of the harness (it is exercised through HTTP by the other explorers)."}
    return res, note


def finish(prop, tier, seed, t0, results, meta):
    for r in results:
        if not r.get("ok"):
            machinery(r.get("machinery", "worker failed"))
    viols = [v for r in results for v in r["violations"]]
    known = load_known(prop)
    hits = {}
    unknown = []
    for v in viols:
        k = next((k for k in known if known_matches(k, v)), None)
        if k:
            hits.setdefault(k["id"], [k, 0])[1] += 1
        else:
            unknown.append(v)
    # distinct kinds first
    seen = set()
    firsts, rest = [], []
    for v in unknown:
        (firsts if v["kind"] not in seen else rest).append(v)
        seen.add(v["kind"])
    unknown = firsts + rest
    rdir = os.path.join(OUT, "replays", prop)
    os.makedirs(rdir, exist_ok=True)
    for f in os.listdir(rdir):
        os.remove(os.path.join(rdir, f))
    paths = []
    for i, v in enumerate(unknown[:12]):
        p = os.path.join(rdir, "%d.json" % i)
        json.dump({"property": prop, "kind": v["kind"], "message": v["msg"], "case": v["case"]}, open(p, "w"), indent=1)
        paths.append(p)
    outcomes = set(o for r in results for o in r.get("outcomes", []))
    cov = {
        "states": max(1, sum(r["states"] for r in results)),
        "transitions": max(1, sum(r["transitions"] for r in results)),
        "traces_validated_against_impl": sum(r["requests"] for r in results),
        "evaluations": max(1, sum(r["requests"] for r in results)),
        "distinct_nontrivial": sum(r["nontrivial"] for r in results),
        "distinct_outcomes": len(outcomes),
        "known_findings_hit": [{"id": k, "what": v[0]["what"], "violations": v[1]} for k, v in hits.items()],
        "workers": len(results),
        "worker_wall_s": [round(r["wall"], 1) for r in results],
    }
    cov.update(meta)
    ev = {"property_id": prop, "tier": tier, "seed": seed, "level": "model_checking", "coverage": cov,
          "assumptions": meta.pop("assumptions", []), "wall_s": time.time() - t0, "violations": len(unknown)}
    cov.pop("assumptions", None)
    os.makedirs(os.path.join(OUT, "evidence"), exist_ok=True)
    json.dump(ev, open(os.path.join(OUT, "evidence", prop + ".json"), "w"), indent=1)
    print("[%s] tier=%s states=%d transitions=%d requests=%d nontrivial=%d outcomes=%d exhaustive=%s wall=%.1fs" % (
        prop, tier, cov["states"], cov["transitions"], cov["traces_validated_against_impl"], cov["distinct_nontrivial"],
        len(outcomes), cov.get("exhaustive"), time.time() - t0))
    for k, v in hits.items():
        print("KNOWN-FINDING: property=%s %s [%s; %d occurrence(s) in this run]" % (prop, v[0]["what"], k, v[1]))
    if not unknown:
        sys.exit(0)
    kinds = {}
    for v in unknown:
        kinds[v["kind"]] = kinds.get(v["kind"], 0) + 1
    for k, c in kinds.items():
        print("  violation kind %-40s x%d" % (k, c))
    for v, p in zip(unknown, paths):
        print("  %s: %s" % (v["kind"], v["msg"][:600]))
        print("VIOLATION property=%s replay=%s" % (prop, p))
    sys.exit(1)


def main():
    a = sys.argv[1:]
    server_bin = os.environ.get("ADF_BDD_SERVER")
    if not a:
        print(__doc__)
        sys.exit(2)
    if a[0] == "worker":
        prop, spec, outp = a[1], json.load(open(a[2])), a[3]
        mod = __import__(prop.lower())
        res = mod.worker(server_bin, spec)
        json.dump(res, open(outp, "w"))
        return
    if not server_bin or not os.path.exists(server_bin):
        machinery("ADF_BDD_SERVER is not set (the run script builds the server and sets it)")
    if a[0] == "check":
        prop = a[1]
        tier = a[a.index("--tier") + 1] if "--tier" in a else os.environ.get("VERIF_TIER", "quick")
        seed = abs(int(os.environ.get("VERIF_SEED", "0") or 0))
        t0 = time.time()
        mod = __import__(prop.lower())
        nworkers = int(os.environ.get("SRVMC_WORKERS", "8" if tier == "quick" else "12"))
        specs = mod.specs(tier, seed, nworkers)
        results, use_ns = run_workers(prop, specs, server_bin, 900 if tier == "quick" else 3000)
        meta = mod.meta(tier, seed, results)
        meta["network_namespaces"] = use_ns
        reg, note = run_registry(tier)
        meta["registry_interleavings"] = note
        if reg is not None:
            results.append(reg)
        finish(prop, tier, seed, t0, results, meta)
    if a[0] == "replay":
        rec = json.load(open(a[1]))
        prop = rec["property"]
        spec = {"replay": rec["case"], "tier": "quick", "seed": 0, "shard": 0, "of": 1}
        outs = []
        if rec["case"].get("type") == "registry-interleavings":
            for _ in range(2):
                reg, note = run_registry("thorough", only=rec["case"]["scenario"], bound=rec["case"]["preemption_bound"])
                if reg is None:
                    machinery("registry harness not bound to the code: %s" % note.get("skipped"))
                outs.append(sorted((v["kind"], v["msg"]) for v in reg["violations"]))
        for _ in range(0 if outs else 2):
            results, _ = run_workers(prop, [spec], server_bin, 600)
            if not results[0].get("ok"):
                machinery(results[0].get("machinery", "worker failed"))
            outs.append(sorted((v["kind"], v["msg"]) for v in results[0]["violations"]))
        if outs[0] != outs[1]:
            print("REPLAY-NONDETERMINISTIC: two executions of the stored case differ:\n  %s\n  %s" % (outs[0], outs[1]))
            sys.exit(2)
        if not outs[0]:
            print("REPLAY property=%s verdict=holds (the stored case no longer violates the property)" % prop)
            sys.exit(0)
        for k, m in outs[0]:
            print("REPLAY property=%s verdict=violation kind=%s %s" % (prop, k, m[:500]))
        sys.exit(1)
    machinery("unknown sub-command")


if __name__ == "__main__":
    main()
