"""MongoDB wire-protocol stub that doubles as scheduler.

The database is a dict of Python lists; only what the server really uses is implemented (isMaster/hello handshake,
createIndexes, find, insert, update with $set / replacement, delete). Anything else raises StubUnsupported, which the
explorers turn into a MACHINERY-ERROR (never a verdict).

Scheduling modes:
  free        every command is applied at once
  defer_bg    foreground commands are applied at once; the background write of add/solve (recognised by shape) is
              acknowledged at once and queued as a pending event that the explorer applies later
  controlled  every data command is parked until the explorer releases it
"""
import copy
import socket
import struct
import threading
import time

from bson import Int64, DateTime, decode_doc, encode_doc


class StubUnsupported(Exception):
    pass


def get_path(doc, path):
    cur = doc
    for part in path.split('.'):
        if not isinstance(cur, dict) or part not in cur:
            return None
        cur = cur[part]
    return cur


def match(doc, flt):
    for k, v in flt.items():
        if k.startswith('$'):
            raise StubUnsupported("top-level operator in filter: %r" % k)
        if isinstance(v, dict) and any(str(x).startswith('$') for x in v):
            raise StubUnsupported("operator filter unsupported: %r" % (v,))
        if get_path(doc, k) != v:
            return False
    return True


def set_path(doc, path, v):
    parts = path.split('.')
    cur = doc
    for p in parts[:-1]:
        if p not in cur or not isinstance(cur[p], dict):
            cur[p] = {}
        cur = cur[p]
    cur[parts[-1]] = v


class Database:
    def __init__(self):
        self.colls = {}    # (db, coll) -> list of docs
        self.unique = {}   # (db, coll) -> list of key lists
        self.lock = threading.RLock()

    def snapshot(self):
        with self.lock:
            return copy.deepcopy(self.colls)

    def restore(self, snap):
        with self.lock:
            self.colls = copy.deepcopy(snap)

    def docs(self, db, coll):
        return self.colls.setdefault((db, coll), [])

    def _violates_unique(self, coll, doc, skip=None):
        for keys in self.unique.get(coll, []):
            for e in self.colls.get(coll, []):
                if e is skip:
                    continue
                if all(e.get(k) == doc.get(k) for k in keys):
                    return True
        return False

    def apply(self, cmd):
        name = next(iter(cmd))
        n = name.lower()
        db = cmd.get("$db")
        with self.lock:
            coll = (db, cmd[name])
            docs = self.colls.setdefault(coll, [])
            if n == "createindexes":
                for ix in cmd["indexes"]:
                    if ix.get("unique"):
                        keys = list(ix["key"].keys())
                        if keys not in self.unique.setdefault(coll, []):
                            self.unique[coll].append(keys)
                return {"createdCollectionAutomatically": True, "numIndexesBefore": 1, "numIndexesAfter": 2, "ok": 1.0}
            if n == "find":
                res = [d for d in docs if match(d, cmd.get("filter", {}))]
                for k in cmd:
                    if k in ("sort", "projection", "skip", "collation", "min", "max", "hint"):
                        raise StubUnsupported("find option %r" % k)
                lim = cmd.get("limit", 0)
                if lim:
                    res = res[:abs(lim)]
                return {"cursor": {"firstBatch": copy.deepcopy(res), "id": Int64(0), "ns": "%s.%s" % coll}, "ok": 1.0}
            if n == "insert":
                errs = []
                cnt = 0
                for i, d in enumerate(cmd["documents"]):
                    dup = self._violates_unique(coll, d) or any(e.get("_id") == d.get("_id") for e in docs)
                    if dup:
                        errs.append({"index": i, "code": 11000, "errmsg": "E11000 duplicate key error collection: %s.%s" % coll})
                        break
                    docs.append(copy.deepcopy(d))
                    cnt += 1
                r = {"n": cnt, "ok": 1.0}
                if errs:
                    r["writeErrors"] = errs
                return r
            if n == "update":
                nm = 0
                nmod = 0
                errs = []
                for ui, u in enumerate(cmd["updates"]):
                    if u.get("upsert"):
                        raise StubUnsupported("upsert")
                    for d in docs:
                        if match(d, u["q"]):
                            nm += 1
                            before = encode_doc(d)
                            backup = copy.deepcopy(d)
                            upd = u["u"]
                            if isinstance(upd, list):
                                raise StubUnsupported("pipeline update")
                            if any(k.startswith('$') for k in upd):
                                for op, body in upd.items():
                                    if op != "$set":
                                        raise StubUnsupported("update operator " + op)
                                    for p, v in body.items():
                                        set_path(d, p, copy.deepcopy(v))
                            else:
                                _id = d.get("_id")
                                d.clear()
                                d["_id"] = _id
                                d.update(copy.deepcopy(upd))
                            if self._violates_unique(coll, d, skip=d):
                                d.clear()
                                d.update(backup)
                                nm -= 1
                                errs.append({"index": ui, "code": 11000, "errmsg": "E11000 duplicate key error collection: %s.%s" % coll})
                                break
                            if encode_doc(d) != before:
                                nmod += 1
                            if not u.get("multi", False):
                                break
                r = {"n": nm, "nModified": nmod, "ok": 1.0}
                if errs:
                    r["writeErrors"] = errs
                return r
            if n == "delete":
                cnt = 0
                for dl in cmd["deletes"]:
                    keep = []
                    lim = dl.get("limit", 0)
                    this = 0
                    for d in docs:
                        if match(d, dl["q"]) and (lim == 0 or this < lim):
                            this += 1
                        else:
                            keep.append(d)
                    docs[:] = keep
                    cnt += this
                return {"n": cnt, "ok": 1.0}
        raise StubUnsupported("command %r" % name)


def hello_reply():
    return {"ismaster": True, "isWritablePrimary": True, "helloOk": True, "maxBsonObjectSize": 16777216,
            "maxMessageSizeBytes": 48000000, "maxWriteBatchSize": 100000, "localTime": DateTime(int(time.time() * 1000)),
            "minWireVersion": 0, "maxWireVersion": 13, "readOnly": False, "ok": 1.0}


def is_background_write(cmd):
    """the update_one that add/solve spawn after their computation: $set of adf / acs_per_strategy.*"""
    name = next(iter(cmd))
    if name.lower() != "update" or cmd[name] != "adf-problems":
        return False
    ups = cmd.get("updates", [])
    if len(ups) != 1:
        return False
    u = ups[0].get("u", {})
    if list(u.keys()) != ["$set"]:
        return False
    keys = list(u["$set"].keys())
    # (a result write may also set the whole record `acs_per_strategy` instead of one field of it)
    return len(keys) > 0 and all(k == "adf" or k == "acs_per_strategy" or k.startswith("acs_per_strategy.") for k in keys)


class Pending:
    def __init__(self, pid, cmd, conn):
        self.id = pid
        self.cmd = cmd
        self.conn = conn
        self.event = threading.Event()
        self.reply = None


class Stub:
    def __init__(self, port=27017):
        self.db = Database()
        self.port = port
        self.mode = "free"
        self.cv = threading.Condition()
        self.parked = []        # controlled mode: Pending objects waiting for release
        self.bg_writes = []     # defer_bg mode: commands acknowledged but not applied yet
        self.log = []           # (seq, conn, command name, collection)
        self.seq = 0
        self.error = None       # first StubUnsupported / internal error
        self.next_conn = 0
        self.sock = None

    # ------------------------------------------------------------------ scheduling
    def submit(self, cmd, conn):
        name = next(iter(cmd))
        n = name.lower()
        if n in ("hello", "ismaster"):
            return hello_reply()
        if n in ("ping", "endsessions", "killcursors"):
            return {"ok": 1.0}
        if n == "buildinfo":
            return {"version": "5.0.0", "ok": 1.0}
        with self.cv:
            self.seq += 1
            self.log.append((self.seq, conn, n, cmd.get(name)))
            mode = self.mode
            if n == "createindexes":
                mode = "free"
            if mode == "defer_bg" and is_background_write(cmd):
                self.bg_writes.append(cmd)
                self.cv.notify_all()
                return {"n": 1, "nModified": 1, "ok": 1.0}
            if mode == "hold_find":
                # background result writes are captured as in defer_bg; queries on the problem collection are parked
                # until the explorer releases them; everything else is answered at once
                if is_background_write(cmd):
                    self.bg_writes.append(cmd)
                    self.cv.notify_all()
                    return {"n": 1, "nModified": 1, "ok": 1.0}
                mode = "controlled" if (n == "find" and cmd.get(name) == "adf-problems") else "free"
            if mode == "controlled":
                p = Pending(self.seq, cmd, conn)
                self.parked.append(p)
                self.cv.notify_all()
            else:
                p = None
        if p is None:
            r = self._apply(cmd)
            with self.cv:
                self.cv.notify_all()
            return r
        p.event.wait()
        return p.reply

    def _apply(self, cmd):
        try:
            return self.db.apply(cmd)
        except StubUnsupported as e:
            self.error = "stub: unsupported %s" % e
            return {"ok": 0.0, "errmsg": str(e), "code": 59, "codeName": "CommandNotFound"}
        except Exception as e:  # noqa
            self.error = "stub: internal error %r" % (e,)
            return {"ok": 0.0, "errmsg": "stub error", "code": 1}

    def release(self, p):
        with self.cv:
            self.parked.remove(p)
        p.reply = self._apply(p.cmd)
        p.event.set()

    def apply_bg(self, index):
        with self.cv:
            cmd = self.bg_writes.pop(index)
        return self._apply(cmd)

    def wait_for(self, pred, timeout=30.0, what="condition"):
        t0 = time.time()
        with self.cv:
            while not pred():
                left = timeout - (time.time() - t0)
                if left <= 0:
                    raise TimeoutError("quiescence time-out waiting for %s" % what)
                self.cv.wait(min(left, 0.05))

    # ------------------------------------------------------------------ wire protocol
    def start(self):
        s = socket.socket()
        s.setsockopt(socket.SOL_SOCKET, socket.SO_REUSEADDR, 1)
        s.bind(("127.0.0.1", self.port))
        s.listen(64)
        self.sock = s
        threading.Thread(target=self._accept, daemon=True).start()

    def _accept(self):
        while True:
            try:
                c, _ = self.sock.accept()
            except OSError:
                return
            c.setsockopt(socket.IPPROTO_TCP, socket.TCP_NODELAY, 1)
            self.next_conn += 1
            threading.Thread(target=self._serve, args=(c, self.next_conn), daemon=True).start()

    @staticmethod
    def _recvn(s, n):
        b = b''
        while len(b) < n:
            c = s.recv(n - len(b))
            if not c:
                raise EOFError
            b += c
        return b

    def _serve(self, conn, cid):
        try:
            while True:
                hdr = self._recvn(conn, 16)
                ln, rid, _rto, op = struct.unpack('<iiii', hdr)
                body = self._recvn(conn, ln - 16)
                if op == 2004:  # OP_QUERY (handshake)
                    i = 4
                    j = body.index(b'\0', i)
                    ns = body[i:j].decode()
                    i = j + 1 + 8
                    q, _ = decode_doc(body, i)
                    q["$db"] = ns.split('.')[0]
                    r = self.submit(q, cid)
                    doc = encode_doc(r)
                    out = struct.pack('<iqii', 8, 0, 0, 1) + doc
                    conn.sendall(struct.pack('<iiii', 16 + len(out), 0, rid, 1) + out)
                elif op == 2013:  # OP_MSG
                    flags, = struct.unpack_from('<I', body, 0)
                    i = 4
                    cmd = None
                    seqs = {}
                    end = len(body) - (4 if flags & 1 else 0)
                    while i < end:
                        kind = body[i]
                        i += 1
                        if kind == 0:
                            cmd, i = decode_doc(body, i)
                        else:
                            (sl,) = struct.unpack_from('<i', body, i)
                            e = i + sl
                            i += 4
                            j = body.index(b'\0', i)
                            ident = body[i:j].decode()
                            i = j + 1
                            ds = []
                            while i < e:
                                d, i = decode_doc(body, i)
                                ds.append(d)
                            seqs[ident] = ds
                    cmd.update(seqs)
                    r = self.submit(cmd, cid)
                    out = struct.pack('<I', 0) + b'\0' + encode_doc(r)
                    conn.sendall(struct.pack('<iiii', 16 + len(out), 0, rid, 2013) + out)
                else:
                    self.error = "stub: unknown opcode %d" % op
                    return
        except EOFError:
            pass
        except Exception as e:  # noqa
            self.error = "stub: connection handler failed: %r" % (e,)
        finally:
            try:
                conn.close()
            except OSError:
                pass
