#!/opt/veriftools/pyvenv/bin/python
"""Validates MANIFEST.json and all evidence files against the schemas (developer helper)."""
import json, jsonschema, glob, sys
ok = True
try:
    jsonschema.validate(json.load(open('/verif/MANIFEST.json')), json.load(open('/root/.vp/MANIFEST.schema.json')))
    print('MANIFEST ok')
except Exception as e:
    ok = False; print('MANIFEST INVALID', str(e)[:500])
es = json.load(open('/root/.vp/EVIDENCE.schema.json'))
for f in sorted(glob.glob('/verif/evidence/*.json')):
    try:
        jsonschema.validate(json.load(open(f)), es); print(f, 'ok')
    except Exception as e:
        ok = False; print(f, 'INVALID', str(e)[:500])
sys.exit(0 if ok else 1)
